CONSTANTS
  ND = 2
  NS = 2
  MaxF = 1
  MaxEnv = 2
  MaxCol = 2
  MaxPause = 1
  MaxCkpt = 0
  MaxCfg = 0
  GreedySets = {{}, {1}}
  LazyModes = {FALSE}
  WrongGroup = TRUE
  Choice = "both"
SPECIFICATION Spec
INVARIANT C45_SeqContiguous_Strict
INVARIANT C45_NumEvents_Strict
INVARIANT Reach_NoNewFrames
INVARIANT Reach_WidthRaise
INVARIANT Reach_Undeclared
INVARIANT Reach_TwoStreams
INVARIANT Reach_Unequal
