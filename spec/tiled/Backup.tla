------------------------------- MODULE Backup -------------------------------
(***************************************************************************)
(* C35 (backup part) -- bluesky.callbacks.tiled_writer._ConditionalBackup.  *)
(*                                                                         *)
(* Every document of a run is appended to a bounded buffer and handed to   *)
(* the primary callback.  When the primary raises, the object switches to  *)
(* "push" mode for good: after every call (including the failing one) the  *)
(* whole buffer is handed to every backup callback, oldest first, and      *)
(* cleared.  A backup that raises is logged and does not stop the others.  *)
(* The primary may fail at any subset of the document indices.             *)
(*                                                                         *)
(* Property (statement): once the primary has failed, every backup has     *)
(* been handed every document of the run so far exactly once and in order. *)
(* The buffer is a deque(maxlen): with more than `cap` documents before   *)
(* the first failure the oldest are lost -- the property is claimed for    *)
(* runs that fit (default maxlen 1 000 000), `lost` records the overflow.  *)
(***************************************************************************)
EXTENDS Naturals, Sequences, FiniteSets, TLC, Json

CONSTANTS MaxDocs,      \* bound on the number of documents of the run
          NBackups,     \* number of backup callbacks
          MaxLens,      \* set of buffer capacities to explore
          MaxBFails     \* bound on the number of backup deliveries that raise

VARIABLES
  n,         \* number of documents of this run (chosen in Init)
  cap,       \* capacity of the buffer, deque(maxlen) (chosen in Init)
  fails,     \* indices at which the primary raises (chosen in Init)
  bfails,    \* <<backup, index>> deliveries at which a backup raises (chosen in Init)
  i,         \* documents handed to the object so far
  buf,       \* _buffer
  push,      \* _push_to_backup
  prim,      \* sequence of documents the primary was called with
  bk,        \* backup -> sequence of documents it was called with
  lost,      \* documents dropped from the full buffer
  out        \* last step: [primary raised?, deliveries to each backup in this call]

vars == <<n, cap, fails, bfails, i, buf, push, prim, bk, lost, out>>

Backups == 1..NBackups

Init == /\ n \in 1..MaxDocs
        /\ cap \in MaxLens
        /\ fails \in SUBSET (1..n)
        /\ bfails \in {S \in SUBSET (Backups \X (1..n)) : Cardinality(S) <= MaxBFails}
        /\ i = 0 /\ buf = <<>> /\ push = FALSE /\ prim = <<>>
        /\ bk = [b \in Backups |-> <<>>]
        /\ lost = {}
        /\ out = [raised |-> FALSE, to |-> [b \in Backups |-> <<>>]]

\* deque(maxlen).append
Appended(q, x) == IF Len(q) >= cap THEN Append(Tail(q), x) ELSE Append(q, x)

Call ==
    /\ i < n
    /\ LET d == i + 1
           nb == Appended(buf, d)
           p == push \/ d \in fails
       IN /\ i' = d
          /\ prim' = Append(prim, d)                       \* the primary is always tried
          /\ push' = p
          /\ lost' = IF Len(buf) >= cap THEN lost \cup {Head(buf)} ELSE lost
          /\ buf' = IF p THEN <<>> ELSE nb
          /\ bk' = IF p THEN [b \in Backups |-> bk[b] \o nb] ELSE bk     \* a raising backup has still been handed the document
          /\ out' = [raised |-> d \in fails, to |-> [b \in Backups |-> IF p THEN nb ELSE <<>>]]
    /\ UNCHANGED <<n, cap, fails, bfails>>

Next == Call
Spec == Init /\ [][Next]_vars

----------------------------------------------------------------------------
Upto(k) == [j \in 1..k |-> j]

\* once the primary has failed: every document so far, exactly once, in order, to every backup
C35_BackupCompleteInOrder == (push /\ lost = {}) => \A b \in Backups : bk[b] = Upto(i)
\* nothing is handed over twice and order is never broken, even after an overflow
C35_BackupNoDupOrdered == \A b \in Backups : \A x, y \in 1..Len(bk[b]) : x < y => bk[b][x] < bk[b][y]
\* the switch happens exactly at the first failure of the primary and is permanent
C35_PushIffFailed == push <=> (\E d \in fails : d <= i)
\* conditional: nothing reaches the backups while the primary works
C35_SilentBeforeFailure == ~push => \A b \in Backups : bk[b] = <<>>
\* the primary sees every document once, in order, whatever happens
C35_PrimarySeesAll == prim = Upto(i)
\* nothing is left behind in the buffer after a flush, nothing is lost when the run fits
C35_BufferAccounting == /\ push => buf = <<>>
                        /\ (~push /\ lost = {}) => buf = Upto(i)
                        /\ n <= cap => lost = {}

TypeOK == i \in 0..n /\ Len(buf) <= cap

\* replay generation: every complete case
DumpCase == (i = n) => PrintT(<<"CASE", ToJson([n |-> n, cap |-> cap, fails |-> fails, bfails |-> bfails, bk |-> bk, prim |-> prim, lost |-> lost])>>)
=============================================================================
