"""Scenario runner: execute a plan on a real RunEngine under the step loop, landing public-API requests at chosen
scheduling points, taking the caller's decisions after every return, and recording the trace (DESIGN.md 4.2/4.3).

A scenario is a JSON-able dict:
  plan:       {"prog": <program dict>} | {"builtin": name, "args": {...}}
  devices:    {"name": {"type": "Det|Motor|Mon|Paus|Flyer", ...}}
  inject:     [{"at": <point index>, "kind": "pause|defer|suspend|abort|stop|halt|release|update|finish", ...}]
  decisions:  ["resume" | "abort" | "stop" | "halt" | "none"]   taken, in order, each time a call leaves the engine paused
  options:    {"record_interruptions": bool, "md": {...}}
"""
import contextlib
import io
import threading

from harness import spans  # noqa: F401  (installs the API-only tracer provider before bluesky is imported)

from harness import devices as D
from harness import rec as rec_mod
from harness.rec import PlanErr, Recorder, exc_kind
from harness.steploop import StepLoop


class Fut:
    """suspension future handle: created lazily on the loop"""

    def __init__(self, loop):
        self.loop = loop
        self.fut = None
        self.ev = None


def build_devices(spec, rec, loop):
    devs = {}
    for name, d in spec.items():
        cls = getattr(D, d.get("type", "Det"))
        kw = {k: v for k, v in d.items() if k not in ("type", "motors", "faults")}
        dev = cls(name, rec, loop=loop, **kw)
        devs[name] = dev
    for name, d in spec.items():
        if d.get("motors"):
            devs[name].motors = [devs[m] for m in d["motors"]]
        if d.get("faults"):
            devs[name].faults = {k: (list(v) if isinstance(v, list) else v) for k, v in d["faults"].items()}
    return devs


def build_msg(m, devs, futs):
    from bluesky import Msg
    obj = devs.get(m.get("obj") or "", None)
    args = list(m.get("args", []))
    kwargs = dict(m.get("kwargs", {}))
    run = m.get("run") or None
    run = RUN_KEY_MAP.get(run, run)
    cmd = m["cmd"]
    if cmd == "wait_for":
        args = [[futs[a] for a in args]]
    if cmd in ("install_suspender", "remove_suspender"):
        args = [SUSPENDERS[args[0]]]
    if cmd == "subscribe":
        args = [CUR_REC[0].tmp_consumer(), "all"]      # Msg('subscribe', None, func, 'all'): a fresh consumer that logs what reaches it
    if cmd == "unsubscribe":
        args = [-1]                                    # (replaced by the token of the plan's latest subscription when it is yielded)
    if cmd == "declare_stream":
        args, obj = [obj], None          # Msg('declare_stream', None, obj, name=...)
    return Msg(cmd, obj, *args, run=run, **kwargs)


RUN_KEY_MAP = {}    # program run key -> python run key of the scenario being run (option run_key_wrapper)
CUR_REC = [None]    # recorder of the scenario being run (in-plan document consumers log through it)
SUSPENDERS = {}     # name -> suspender object of the scenario being run (Msg('install_suspender', None, <object>))


def make_program_plan(prog, devs, futs):
    """real python generator for a program dict:
       {"msgs": [...], "try": [from, to], "cleanup": [from, to], "kind": "none|finally|finalize", "raise_at": i|0}
       positions are 1-based; the cleanup block directly follows the try block."""
    msgs = [build_msg(m, devs, futs) for m in prog["msgs"]]
    n = len(msgs)
    kind = prog.get("kind", "none")
    t0, t1 = prog.get("try", [0, -1])
    c0, c1 = prog.get("cleanup", [0, -1])
    raise_at = prog.get("raise_at", 0)     # the plan itself raises PlanErr instead of yielding message raise_at

    tokens = []     # tokens the plan received for its own subscriptions and has not handed back yet

    def seg(a, b):
        from bluesky import Msg
        for i in range(a, b + 1):
            if i == raise_at:
                raise PlanErr(f"plan raised at {i}")
            m = msgs[i - 1]
            if m.command == "unsubscribe":
                m = Msg("unsubscribe", None, tokens.pop() if tokens else -1)
            r = yield m
            if m.command == "subscribe":
                tokens.append(r)

    def plan():
        if kind == "none":
            yield from seg(1, n)
        else:
            yield from seg(1, t0 - 1)
            if kind == "finally":
                try:
                    yield from seg(t0, t1)
                finally:
                    yield from seg(c0, c1)
            elif kind == "finalize":
                from bluesky.preprocessors import finalize_wrapper
                yield from finalize_wrapper(seg(t0, t1), seg(c0, c1))
            else:
                raise ValueError(kind)
            yield from seg(c1 + 1, n)
        return "planret"

    return plan()


class Scenario:
    def __init__(self, sc):
        self.sc = sc
        self.rec = Recorder()
        self.loop = StepLoop()
        self.result = {}

    def run(self):
        from bluesky import RunEngine
        from bluesky.utils import DuringTask, RunEngineInterrupted
        sc, rec, loop = self.sc, self.rec, self.loop
        CUR_REC[0] = rec
        D.reset_sids()
        opts = sc.get("options", {})
        RE = RunEngine(dict(opts.get("md", {})), loop=loop, context_managers=[], during_task=DuringTask())
        self.RE = RE
        RE.record_interruptions = bool(opts.get("record_interruptions", False))
        rec.attach(RE)
        spans.SINK[0] = rec
        if opts.get("raising_consumer"):
            # a document consumer that rejects the events of one stream (RE.ignore_callback_exceptions is False by default)
            bad = opts["raising_consumer"]
            descs = {}

            def consumer(name, doc):
                if name == "descriptor":
                    descs[doc["uid"]] = doc.get("name")
                if name == "event" and descs.get(doc["descriptor"]) == bad:
                    raise rec_mod.PlanErr("consumer cannot handle this event")
                if bad.startswith("doc:") and name == bad[4:] and not descs.get("_raised"):
                    descs["_raised"] = True          # fails once, on the first document of that kind (e.g. "doc:start")
                    raise rec_mod.PlanErr(f"consumer cannot handle this {name} document")
            RE.subscribe(consumer)
        if opts.get("consumer_updates"):
            # a document consumer that, on one kind of document, makes a monitored signal update (e.g. a callback closing a
            # shutter when it sees the RunStop): ["stop", "mon1"]
            on_name, sig_name = opts["consumer_updates"]

            def updating_consumer(name, doc):
                if name == on_name:
                    rec.ev("req", "update", sig_name)
                    out = "ok"
                    try:
                        self.devs[sig_name].put(1)
                    except BaseException as e:  # noqa
                        out = "exc:" + exc_kind(e)
                    rec.ev("reqret", "update", out)
            RE.subscribe(updating_consumer)
        loop.is_run_step = lambda h: RE._task is not None and getattr(h._callback, "__self__", None) is RE._task
        loop.active = lambda: RE._task is not None and not RE._task.done()
        started = []

        def is_startup(h):
            import asyncio
            t = getattr(h._callback, "__self__", None)
            if started or not hasattr(t, "get_coro") or RE._task is not None:
                return False
            if getattr(t.get_coro(), "__qualname__", "") != "RunEngine._run":
                return False
            started.append(t)
            return True
        loop.is_startup = is_startup
        self._started = started
        loop.hold_time = lambda: str(RE._state) == "paused"
        devs = build_devices(sc.get("devices", {}), rec, loop)
        self.devs = devs
        futs = {}
        events = {}

        def mk_fut(name):
            # awaitable factory as used by suspenders: asyncio.Event().wait
            def factory():
                if name not in events:
                    import asyncio
                    events[name] = asyncio.Event()
                return events[name].wait()
            return factory

        from harness.rec import FUT_NAMES
        FUT_NAMES.clear()          # (keyed by id(): the ids of an earlier scenario's objects may be reused in this process)
        for f in sc.get("futs", ["f1", "f2"]):
            futs[f] = mk_fut(f)
            FUT_NAMES[id(futs[f])] = f

        def release(name):
            def go():
                if name not in events:
                    import asyncio
                    events[name] = asyncio.Event()
                events[name].set()
            loop.call_soon_threadsafe(go)

        # real suspenders on fake signals
        import bluesky.suspenders as bsus
        # vmaps: abstract signal value (0 released / 1 tripped / 2 dead band) -> the real value of that signal
        vmaps = {n: {int(k): v for k, v in m.items()} for n, m in sc.get("vmaps", {}).items()}
        sigs = {n: D.Sig(n, rec, value=vmaps.get(n, {}).get(v, v)) for n, v in sc.get("signals", {}).items()}
        suspenders = {}
        for n, d in sc.get("suspenders", {}).items():
            cls = getattr(bsus, d.get("type", "SuspendBoolHigh"))
            pre = [build_msg(m, devs, futs) for m in d.get("pre", [])] or None
            post = [build_msg(m, devs, futs) for m in d.get("post", [])] or None
            suspenders[n] = cls(sigs[d["signal"]], *d.get("args", []), pre_plan=pre, post_plan=post, **d.get("kwargs", {}))
        SUSPENDERS.clear()
        SUSPENDERS.update(suspenders)
        rec_mod.SUS_NAMES.clear()
        rec_mod.SUS_NAMES.update({id(v): k for k, v in suspenders.items()})

        def sus_op(op, name, value=0):
            """install / remove a suspender, change a signal: logged as request events"""
            rec.ev("req", op, name, "", int(value), 0)
            out = "ok"
            try:
                if op == "sus_install":
                    RE.install_suspender(suspenders[name])
                elif op == "sus_remove":
                    RE.remove_suspender(suspenders[name])
                elif op == "sig_put":
                    sigs[name].put(vmaps.get(name, {}).get(value, value))
            except BaseException as e:  # noqa
                out = "exc:" + exc_kind(e)
            return out

        for op, name, value in sc.get("before", []):
            rec.ev("reqret", op, sus_op(op, name, value))

        inj = {}
        for i in sc.get("inject", []):
            inj.setdefault(i["at"], []).append(i)

        def request_fn(i):
            kind = i["kind"]

            def fn():
                if kind in ("sus_install", "sus_remove", "sig_put"):
                    return sus_op(kind, i["arg"], i.get("value", 0))
                rec.ev("req", kind, i.get("arg", "") if kind in ("suspend", "release", "update", "finish") else "",
                       i.get("pre_id", ""), 0, 0, i.get("post_id", ""))
                out = "ok"
                try:
                    if kind == "pause":
                        RE.request_pause()
                    elif kind == "defer":
                        RE.request_pause(defer=True)
                    elif kind == "abort":
                        RE.abort(rec_mod.ABORT_REASON)
                    elif kind == "stop":
                        RE.stop()
                    elif kind == "halt":
                        RE.halt()
                    elif kind == "suspend":
                        pre = [build_msg(m, devs, futs) for m in i.get("pre", [])] or None
                        post = [build_msg(m, devs, futs) for m in i.get("post", [])] or None
                        RE.request_suspend(futs[i.get("arg", "f1")], pre_plan=pre, post_plan=post,
                                           justification=i.get("just"))
                    elif kind == "release":
                        release(i.get("arg", "f1"))
                    elif kind == "update":
                        devs[i["arg"]].put(i.get("value", 1))
                    elif kind == "finish":
                        dev = devs[i["arg"]]
                        if dev.pending:
                            st, fin = dev.pending.pop(0)
                            loop.call_soon_threadsafe(fin)
                    else:
                        raise ValueError(kind)
                except BaseException as e:  # noqa
                    out = "exc:" + exc_kind(e)
                return out
            return fn

        pending_ret = []

        def pick(p, kind):
            rec.sched.append((p, kind, len(rec.events)))
            lst = inj.pop("startup", None) if kind == "startup" else inj.pop(p, None)
            if not lst and kind == "idle":
                lst = inj.pop("idle", None)        # "just before (virtual) time advances to the next timer"
            if not lst and kind == "blocked":
                lst = inj.pop("blocked", None)     # requests scheduled for "whenever the engine waits for something external"
            if not lst:
                return None
            fns = [(i, request_fn(i)) for i in lst]      # several requests at one scheduling point: made back to back

            def run_and_log():
                out = None
                for i, f in fns:
                    out = f()
                    if i["kind"] in ("pause", "defer", "abort", "stop", "halt"):
                        rec.ev("reqret", i["kind"], out)      # blocking calls: their effect is complete when they return
                    else:
                        pending_ret.append((i["kind"], out))   # effects land on the loop after the call has returned
                return out
            return run_and_log

        def landed():
            while pending_ret:
                k, out = pending_ret.pop(0)
                rec.ev("reqret", k, out)

        loop.pick = pick
        loop.after_inject = landed

        plan_spec = sc["plan"]
        RUN_KEY_MAP.clear()
        rkw = opts.get("run_key_wrapper")
        if rkw:
            # the plan runs below set_run_key_wrapper(plan, "k1"): its "k1" messages carry no key (the wrapper supplies it), its
            # "k2" messages carry the FALSY key 0 (sub-runs numbered 0, 1, ...), which the wrapper must leave alone
            RUN_KEY_MAP.update({"k1": None, "k2": 0})
            rec.key_names = {0: "k2"}
        if "prog" in plan_spec:
            plan = make_program_plan(plan_spec["prog"], devs, futs)
        else:
            plan = builtin_plan(plan_spec, devs)
        drop = set(opts.get("drop", ()))
        plan = rec.wrap_plan(plan, log_cmd=bool(drop) or bool(rkw), log_run=({None: 2, 0: 3} if rkw else None))
        if rkw:
            from bluesky.preprocessors import set_run_key_wrapper
            plan = set_run_key_wrapper(plan, "k1")
        if drop:
            # a preprocessor that drops messages before the engine sees them (as stub_wrapper does): the plan must be sent None there
            from bluesky.preprocessors import msg_mutator
            plan = msg_mutator(plan, lambda msg: None if msg.command in drop else msg)

        decisions = list(sc.get("decisions", []))
        out = io.StringIO()
        outcomes = []

        def main_update(name):
            """the control system updates a monitored signal while the engine is paused (main thread, loop idle)"""
            rec.ev("req", "update", name)
            out = "ok"
            try:
                devs[name].put(1)
            except BaseException as e:  # noqa
                out = "exc:" + exc_kind(e)
            rec.ev("reqret", "update", out)

        in_call = [False]
        runs_before = [0]

        def do_call(op, fn):
            rec.ev("call", op, "ri" if (op == "run" and RE.record_interruptions) else "")
            in_call[0] = True
            if op == "run":
                runs_before[0] = len(rec.run_ord)
            try:
                r = fn()
                oc = "ok"
                nu = len(r) if isinstance(r, (tuple, list)) else 0
                # C13: the call returns the uids of the runs it opened, in order (-1: it returned something else)
                if isinstance(r, (tuple, list)) and list(r) != list(rec.run_ord)[runs_before[0]:]:
                    nu = -1
            except RunEngineInterrupted:
                oc, nu = "interrupted", 0
            except BaseException as e:  # noqa
                oc, nu = "exc:" + exc_kind(e), 0
                import os, traceback
                if os.environ.get("VERIF_DEBUG_TB"):       # development aid: where did the call's exception come from
                    with open(os.environ["VERIF_DEBUG_TB"], "a") as fh:
                        traceback.print_exc(file=fh)
            in_call[0] = False
            rec.ev("ret", op, oc, str(RE.state), nu, int(RE.resumable), "D" if RE.deferred_pause_requested else "")
            outcomes.append((op, oc, str(RE.state)))

        loop.point = 0
        loop._blocked_point_done = False
        # watchdog: an execution that does not finish (nothing will ever release it) is recorded as a hang and torn down
        done_flag = threading.Event()
        self.hung = False

        self.stalled = False

        def quiescent():
            # nothing can ever happen again: the caller is blocked inside RE(...)/resume()/..., the loop has nothing ready, no
            # timer, no injection in flight or still to come, and has already offered its 'blocked' scheduling point
            return (in_call[0] and not loop._ready and not loop._scheduled and not loop._inflight and loop._blocked_point_done
                    and loop._held is None)      # (injections left for points that never come cannot fire any more)

        def watchdog():
            # a hang is decided by the STATE of the loop (quiescent for a while), never by how long the execution takes: the
            # machine may be arbitrarily loaded.  The hard limit only protects the harness and is reported as a machinery error.
            import time as _t
            t0, quiet = _t.time(), None
            while not done_flag.wait(0.2):
                if quiescent():
                    quiet = quiet or _t.time()
                    if _t.time() - quiet < float(sc.get("quiet", 1.5)):
                        continue
                elif _t.time() - t0 < float(sc.get("hard_timeout", 900)):
                    quiet = None
                    continue
                else:
                    self.stalled = True
                self.hung = True
                rec.ev("hang", str(RE.state))
                try:
                    for evt in list(events.values()):
                        loop.call_soon_threadsafe(evt.set)
                    loop.call_soon_threadsafe(lambda: RE._task and RE._task.cancel())
                    RE._blocking_event.set()
                except Exception:  # noqa
                    pass
                return

        threading.Thread(target=watchdog, daemon=True).start()
        with contextlib.redirect_stdout(out), contextlib.redirect_stderr(out):
            do_call("run", lambda: RE(plan, **opts.get("call_md", {})))
            guard = 0
            while str(RE.state) == "paused" and guard < 10:
                guard += 1
                d = decisions.pop(0) if decisions else "resume"
                if d == "none":
                    break
                if d.startswith("update:"):
                    main_update(d.split(":", 1)[1])
                    continue
                if d.split(":")[0] in ("sus_remove", "sus_install", "sig_put"):
                    parts = d.split(":")
                    rec.ev("reqret", parts[0], sus_op(parts[0], parts[1], int(parts[2]) if len(parts) > 2 else 0))
                    continue
                do_call(d, (lambda: RE.abort(rec_mod.ABORT_REASON)) if d == "abort" else getattr(RE, d))
            # further calls on the same engine (histories: what one call leaves behind must not affect the next)
            for nxt in sc.get("then", []):
                if str(RE.state) != "idle":
                    break
                inj.clear()
                for i in nxt.get("inject", []):
                    inj.setdefault(i["at"], []).append(i)
                loop.point = 0
                loop._blocked_point_done = False
                if "prog" in nxt["plan"]:
                    plan2 = make_program_plan(nxt["plan"]["prog"], devs, futs)
                else:
                    plan2 = builtin_plan(nxt["plan"], devs)
                plan2 = rec.wrap_plan(plan2)
                decisions2 = list(nxt.get("decisions", []))
                do_call("run", lambda: RE(plan2))
                guard = 0
                while str(RE.state) == "paused" and guard < 10:
                    guard += 1
                    d = decisions2.pop(0) if decisions2 else "resume"
                    if d.startswith("update:"):
                        main_update(d.split(":", 1)[1])
                        continue
                    do_call(d, (lambda: RE.abort(rec_mod.ABORT_REASON)) if d == "abort" else getattr(RE, d))
        done_flag.set()
        self.points = loop.point
        self.outcomes = outcomes
        self.harness_errors = [r for r in loop.inject_results if r[2][0] == "exc"]
        if self.harness_errors:
            raise RuntimeError(f"injection helper failed: {self.harness_errors}")
        self.final_state = str(RE.state)
        self.stuck = False
        # teardown
        try:
            if str(RE.state) not in ("idle", "paused", "panicked"):
                self.stuck = True
            if str(RE.state) == "paused":
                with contextlib.redirect_stdout(out), contextlib.redirect_stderr(out):
                    RE.halt()
        except BaseException:  # noqa
            pass
        loop.set_exception_handler(lambda _l, _c: None)      # pending suspension waits etc. are dropped with the loop
        loop.call_soon_threadsafe(loop.stop)
        RE._th.join(5)
        try:
            loop.close()
        except Exception:
            pass
        return rec.events


def builtin_plan(spec, devs):
    import bluesky.plans as bp
    import bluesky.plan_stubs as bps  # noqa
    name = spec["builtin"]
    a = spec.get("args", {})
    dets = [devs[d] for d in a.get("dets", [])]
    if name == "count":
        return bp.count(dets, num=a.get("num", 2), delay=a.get("delay", None))
    if name == "scan":
        return bp.scan(dets, devs[a["motor"]], a.get("start", 0), a.get("stop", 1), a.get("num", 2))
    if name == "grid_scan":
        return bp.grid_scan(dets, devs[a["m1"]], 0, 1, a.get("n1", 2), devs[a["m2"]], 0, 1, a.get("n2", 2),
                            snake_axes=a.get("snake", False))
    if name == "rel_scan":
        return bp.rel_scan(dets, devs[a["motor"]], a.get("start", -1), a.get("stop", 1), a.get("num", 2))
    if name == "list_scan":
        return bp.list_scan(dets, devs[a["motor"]], a.get("points", [0, 1]))
    if name == "fly":
        return bp.fly([devs[f] for f in a["flyers"]])
    raise ValueError(name)


def run_scenario(sc):
    s = Scenario(sc)
    ev = s.run()
    return s, ev
