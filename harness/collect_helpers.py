"""C45 helpers: protocol-only stream-asset detectors, a recorder producing Collect.tla events from a real RunEngine,
plans built from operation lists (TLC histories or random scripts).

Event format (one record per operation, uniformly typed; see spec/collect/Collect.tla `E0`):
  op      init | declare | env | collect | checkpoint | configure | pause | close
  s       stream name                       ds   detector ids (message order)        f    frames added per detector
  rep     get_index() answers (per ds)      cap  index passed to collect_asset_docs (-1 = None)
  docs    emitted documents [{k: res|datum, d, i0, i1, s0, s1}]                       err  an exception left the engine
  ne / status   num_events / exit_status of the stop document                        alt  (spec only)    lz   lazy resources
"""
import asyncio

STREAMS = ["primary", "second", "third"]

_LOOP = {}


def fresh_re():
    """a new RunEngine on one shared event loop (cheap)"""
    from bluesky import RunEngine
    from bluesky.utils import DuringTask
    if "loop" not in _LOOP:
        _LOOP["loop"] = asyncio.new_event_loop()
    return RunEngine({}, loop=_LOOP["loop"], context_managers=[], during_task=DuringTask())


def E(op, ns, **kw):
    e = {"op": op, "s": "", "ds": [], "f": [], "rep": [], "cap": [], "docs": [], "err": False,
         "ne": {s: 0 for s in STREAMS[:ns]}, "status": "", "alt": "", "lz": False}
    e.update(kw)
    return e


class DoneStatus:
    """bluesky.protocols.Status, already finished"""
    done = True
    success = True

    def add_callback(self, cb):
        cb(self)

    def exception(self, timeout=0.0):
        return None


class _DetCore:
    """Collectable + Flyable + collect_asset_docs; see StreamDet / PagedDet.  Follows the documented behaviour: the stream_resource
    the first time (lazy: with the first datum), one stream_datum [last, index) when there are new frames, none otherwise;
    index None -> everything written.  greedy: ignores the index (a device that does not honour the protocol)."""

    parent = None

    def __init__(self, i, sess, greedy=False, lazy=False, use_async=False):
        self.i = i
        self.name = f"det{i}"
        self.sess = sess
        self.greedy = greedy
        self.lazy = lazy
        self.avail = 0
        self.last = 0
        self.bundle = None
        self.use_async = use_async
        if use_async:
            self.collect_asset_docs = self._collect_asset_docs_async

    # Flyable
    def kickoff(self):
        return DoneStatus()

    def complete(self):
        return DoneStatus()

    # Configurable (Msg('configure') re-describes the stream the detector feeds)
    def configure(self, exposure):
        old, self.exposure = getattr(self, "exposure", 0.1), exposure
        return ({"exposure": old}, {"exposure": exposure})

    def read_configuration(self):
        return {f"{self.name}_exposure": {"value": getattr(self, "exposure", 0.1), "timestamp": 0.0}}

    def describe_configuration(self):
        return {f"{self.name}_exposure": {"source": f"sim://{self.name}/exposure", "dtype": "number", "shape": []}}

    # Collectable
    def describe_collect(self):
        return {self.name: {"source": f"sim://{self.name}", "dtype": "array", "shape": [4, 4], "external": "STREAM:"}}

    def _docs(self, index):
        from event_model import ComposeStreamResource
        self.sess.asked(self.i, index)
        upto = self.avail if (index is None or self.greedy) else index
        new = upto > self.last
        out = []
        if self.bundle is None and (new or not self.lazy):
            self.bundle = ComposeStreamResource()(mimetype="application/x-hdf5", uri=f"file://localhost/tmp/{self.name}.h5",
                                                  data_key=self.name, parameters={"dataset": "/entry/data"})
            out.append(("stream_resource", self.bundle.stream_resource_doc))
        if new:
            out.append(("stream_datum", self.bundle.compose_stream_datum(indices={"start": self.last, "stop": upto})))
            self.last = upto
        return out

    def collect_asset_docs(self, index=None):
        yield from self._docs(index)

    async def _collect_asset_docs_async(self, index=None):
        for d in self._docs(index):
            await asyncio.sleep(0)
            yield d


class StreamDet(_DetCore):
    """WritesStreamAssets + Collectable + Flyable, nothing else.  Follows the documented behaviour: the stream_resource
    the first time (lazy: with the first datum), one stream_datum [last, index) when there are new frames, none otherwise;
    index None -> everything written.  greedy: ignores the index (a device that does not honour the protocol)."""

    def __init__(self, i, sess, greedy=False, lazy=False, use_async=False):
        super().__init__(i, sess, greedy=greedy, lazy=lazy, use_async=use_async)
        if use_async:
            self.get_index = self._get_index_async

    # WritesStreamAssets
    def get_index(self):
        self.sess.reported(self.i, self.avail)
        return self.avail

    async def _get_index_async(self):
        await asyncio.sleep(0)
        self.sess.reported(self.i, self.avail)
        return self.avail


class PagedDet(_DetCore):
    """EventCollectable + stream assets, but NOT WritesStreamAssets (no get_index): besides the frames it writes to a file it
    hands back one event per new frame for a PV-backed key.  It can only be collected alone; the events number the stream (the
    engine must not advance the counter for the stream datum on top of them, whatever return_payload says)."""

    def describe_collect(self):
        d = super().describe_collect()
        d[f"{self.name}_t"] = {"source": f"sim://{self.name}/t", "dtype": "number", "shape": []}
        return d

    def _docs(self, index):
        before = self.last
        out = super()._docs(index)
        self._new = (before, self.last)
        return out

    def collect(self):
        a, b = getattr(self, "_new", (0, 0))
        self._new = (b, b)
        for k in range(a, b):
            yield {"time": float(k), "data": {f"{self.name}_t": float(k)}, "timestamps": {f"{self.name}_t": float(k)}}


class Session:
    """one run on a real RunEngine, recorded as Collect.tla events"""

    def __init__(self, nd, ns, greedy=(), lazy=False, use_async=False, paged=()):
        self.nd, self.ns = nd, ns
        self.dets = {i: (PagedDet(i, self, greedy=i in greedy, lazy=lazy, use_async=use_async) if i in paged else
                         StreamDet(i, self, greedy=i in greedy, lazy=lazy, use_async=use_async)) for i in range(1, nd + 1)}
        self.by_name = {d.name: d.i for d in self.dets.values()}
        self.by_res = {}            # stream_resource uid -> detector id
        self.events = [E("init", ns, ds=sorted(greedy), lz=bool(lazy))]
        self.cur = None             # collect event being filled
        self.expect = 0             # collects announced by the plan (others are replays after a rewind)
        self.problems = []
        self.exc = None
        self.docs = []              # (name, doc) everything emitted
        self.backstop = []          # documents of the engine's backstop collect after a failure

    # -- detector ledger
    def reported(self, i, v):
        if self.cur is not None:
            self.cur["_rep"][i] = v

    def asked(self, i, index):
        if self.cur is not None:
            self.cur["_cap"][i] = -1 if index is None else index

    # -- engine hooks
    def msg_hook(self, msg):
        if msg.command == "collect":
            self._seal()
            ids = [self.by_name.get(getattr(o, "name", None), 0) for o in (msg.obj,) + tuple(msg.args)]
            self.cur = E("collect", self.ns, s=msg.kwargs.get("name") or "", ds=ids)
            self.cur["_rep"], self.cur["_cap"] = {}, {}
            self.cur["replay"] = self.expect <= 0
            self.expect -= 1
            self.events.append(self.cur)
        elif msg.command == "declare_stream":
            self._seal()
            ids = [self.by_name.get(getattr(o, "name", None), 0) for o in msg.args]
            self.events.append(E("declare", self.ns, s=msg.kwargs.get("name") or "", ds=sorted(ids)))

    def _seal(self):
        c, self.cur = self.cur, None
        if c is not None and "_rep" in c:
            rep, cap = c.pop("_rep"), c.pop("_cap")
            c["rep"] = [rep[i] for i in c["ds"] if i in rep]
            c["cap"] = [cap[i] for i in c["ds"] if i in cap]

    def on_doc(self, name, doc):
        self.docs.append((name, doc))
        if name == "stream_resource":
            d = self.by_name.get(doc["data_key"], 0)
            self.by_res[doc["uid"]] = d
            self._doc({"k": "res", "d": d, "i0": 0, "i1": 0, "s0": 0, "s1": 0})
        elif name == "stream_datum":
            self._doc({"k": "datum", "d": self.by_res.get(doc["stream_resource"], 0),
                       "i0": doc["indices"]["start"], "i1": doc["indices"]["stop"],
                       "s0": doc["seq_nums"]["start"], "s1": doc["seq_nums"]["stop"]})
        elif name == "stop":
            self._seal()
            ne = {s: 0 for s in STREAMS[:self.ns]}
            for k, v in doc.get("num_events", {}).items():
                ne[k] = v
            self.events.append(E("close", self.ns, ne=ne, status="success" if doc["exit_status"] == "success" else "fail"))

    def _doc(self, d):
        if self.cur is None:
            self.problems.append(f"asset document outside a collect: {d}")
        else:
            self.cur["docs"].append(d)

    # -- plan side
    def note(self, op, **kw):
        self._seal()
        self.events.append(E(op, self.ns, **kw))

    def trace(self):
        """events as validated by CollectTrace.tla"""
        return [{k: v for k, v in e.items() if k not in ("replay", "_rep", "_cap")} for e in self.events]


def make_plan(sess, ops, kickoff=True):
    """ops: list of dicts with op in declare/env/collect/checkpoint/pause (fields s, ds, f).  The run is opened first;
    after the last leading declare the detectors are kicked off and a checkpoint is placed (so that declarations are not
    processed again after a rewind); complete + close_run at the end."""
    from bluesky import Msg
    dets = sess.dets

    def plan():
        yield Msg("open_run")
        setup = False
        declared = []

        def do_setup():
            if kickoff and declared:
                for i in declared:
                    yield Msg("kickoff", dets[i], group="ko")
                yield Msg("wait", group="ko")
            yield Msg("checkpoint")

        for o in ops:
            if o["op"] == "declare":
                declared.extend(o["ds"])
                yield Msg("declare_stream", None, *[dets[i] for i in o["ds"]], name=o["s"], collect=True)
                continue
            if not setup:
                setup = True
                yield from do_setup()
            if o["op"] == "env":
                for i, n in enumerate(o["f"], start=1):
                    dets[i].avail += n
                sess.note("env", f=list(o["f"]))
            elif o["op"] == "collect":
                sess.expect = 1
                kw = {"return_payload": o["payload"]} if "payload" in o else {}
                yield Msg("collect", *[dets[i] for i in o["ds"]], name=o["s"], **kw)
            elif o["op"] == "checkpoint":
                sess.note("checkpoint")
                yield Msg("checkpoint")
            elif o["op"] == "configure":
                sess.note("configure", ds=list(o["ds"]))
                yield Msg("configure", dets[o["ds"][0]], 0.1 * (2 + len(sess.events)))
            elif o["op"] == "pause":
                sess.note("pause")
                yield Msg("pause")
        if not setup:
            yield from do_setup()
        if kickoff and declared:
            for i in declared:
                yield Msg("complete", dets[i], group="co")
            yield Msg("wait", group="co")
        yield Msg("close_run")

    return plan()


def execute(ops, nd, ns, greedy=(), lazy=False, use_async=False, kickoff=True):
    """run the operations on a fresh RunEngine; returns the Session (events, problems, exception)"""
    from bluesky.utils import RunEngineInterrupted
    paged = {i for o in ops if o["op"] == "declare" and o.get("paged") for i in o["ds"]}
    sess = Session(nd, ns, greedy=greedy, lazy=lazy, use_async=use_async, paged=paged)
    RE = fresh_re()
    RE.msg_hook = sess.msg_hook
    RE.subscribe(sess.on_doc)
    call = lambda: RE(make_plan(sess, ops, kickoff=kickoff))        # noqa: E731
    for _ in range(len(ops) + 2):
        try:
            call()
            break
        except RunEngineInterrupted:
            call = RE.resume
        except Exception as ex:          # an exception left the engine: it went through the plan at the last collect
            sess.exc = ex
            sess._seal()
            cols = [e for e in sess.events if e["op"] == "collect"]
            if cols:
                cols[-1]["err"] = True
                # RunEngine cleanup after a failure: backstop_collect() flushes detectors that were kicked off but never
                # collected (outside any collect message); their documents are not part of the failed collect
                c = cols[-1]
                sess.backstop = [d for d in c["docs"] if d["d"] not in c["ds"]]
                c["docs"] = [d for d in c["docs"] if d["d"] in c["ds"]]
            else:
                sess.problems.append(f"exception without a collect: {ex!r}")
            break
    sess._seal()
    if RE.state != "idle":
        sess.problems.append(f"engine left in state {RE.state}")
        try:
            RE.halt()
        except Exception:
            pass
    return sess
