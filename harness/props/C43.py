"""C43 -- a PersistentDict reopened on the same directory holds what was last written through the previous instance.

spec/pdict/PersistentDict.tla models the cache / files two-level store with the finalizer that dumps the cache when an
instance is collected, operations set/del/pop/popitem/update/setdefault/clear/mutate-in-place/flush/reload and the two
ways an instance ends: graceful (finalizer runs) and crash (finalizer never runs).  TLC checks over all histories of
2 keys x 3 value tokens that after reopen/crash the new instance holds exactly the last set/flushed value of every
key minus deletions; every maximal history of the replay configurations is executed on the real PersistentDict in
temporary directories (values: msgpack-faithful lists/dicts with numpy arrays), and all executed histories, random long
ones and histories ended by a real process exit / kill are validated by TLC (PersistentDictTrace, batch).

Assurance: bounded-exhaustive model checking of the store (all operation sequences over 2 keys x 3 tokens) plus
conformance of the real class on every enumerated history and on random long ones, including real interpreter exits
and os._exit crashes; one open finding (stale finalizer after reload) is exempted only at its signature.
"""
import gc
import json
import os
import random
import re
import shutil
import subprocess
import sys
import tempfile
from concurrent.futures import ThreadPoolExecutor

from harness.tlc import run_tlc, write_cfg, SPEC

SD = SPEC / "pdict"
DESIGN_REF = "DESIGN.md section 7 (C43), section 8"
TKEYS = ["a", "b", "c"]          # keys of PersistentDictTrace.cfg
NFAM = 4


def jopts(ctx):
    """JVM options: short runs are dominated by JIT/GC thread start-up on a many-core box"""
    return ["-XX:TieredStopAtLevel=1", "-XX:CICompilerCount=2", "-XX:ParallelGCThreads=2"] if ctx.quick else ["-XX:ParallelGCThreads=4"]


# --------------------------------------------------------------------------
# value tokens <-> msgpack-faithful values (round-trip exactly through msgpack + msgpack_numpy)
# --------------------------------------------------------------------------
def value(t, fam):
    """a fresh mutable top-level value standing for token t"""
    import numpy as np
    if fam == 0:
        return [t, "x" * t, float(t) / 4]
    if fam == 1:
        return {"v": t, "arr": np.arange(t + 1, dtype=np.int64), "nested": {"f": np.full((2, 2), t, dtype=np.float32), "none": None}}
    if fam == 2:
        return [np.array([t, -t], dtype=np.float64), {"k": [t] * t}, b"\x00" * t, t % 2 == 0]
    return {"name": "s%d" % t, "u": "é" * t, "n": np.float32(t) / np.float32(3), "i": np.int16(-t), "big": 2 ** 40 + t, "arr": np.zeros((t, 1), dtype=np.uint8)}


def mutate_in_place(obj, new):
    """make the cached object equal to `new` without assigning to the PersistentDict"""
    if isinstance(obj, list):
        obj[:] = new
    else:
        obj.clear()
        obj.update(new)


def deep_eq(a, b):
    import numpy as np
    if isinstance(a, np.ndarray) or isinstance(b, np.ndarray):
        return (isinstance(a, np.ndarray) and isinstance(b, np.ndarray) and a.dtype == b.dtype and a.shape == b.shape
                and bool(np.array_equal(a, b)))
    if isinstance(a, dict) or isinstance(b, dict):
        return (isinstance(a, dict) and isinstance(b, dict) and set(a) == set(b) and all(deep_eq(a[k], b[k]) for k in a))
    if isinstance(a, (list, tuple)) or isinstance(b, (list, tuple)):
        return (type(a) is type(b) and len(a) == len(b) and all(deep_eq(x, y) for x, y in zip(a, b)))
    if isinstance(a, np.generic) or isinstance(b, np.generic):
        return type(a) is type(b) and bool(a == b)
    return type(a) is type(b) and a == b


class Tokens:
    """map observed values back to tokens by deep equality; an unknown value gets a fresh token (TLC will reject it)"""

    def __init__(self, fam, ntok=80):
        self.fam = fam
        self.known = {t: value(t, fam) for t in range(1, ntok + 1)}

    def of(self, obj):
        for t, v in self.known.items():
            if deep_eq(obj, v):
                return t
        return 900000 + (id(obj) % 90000)

    def contents(self, d, keys):
        cur = dict(d)
        m = {k: 0 for k in keys}
        for k, v in cur.items():
            m[str(k)] = self.of(v)
        return m


_TOK = {}


def tokens_for(fam):
    if fam not in _TOK:
        _TOK[fam] = Tokens(fam)
    return _TOK[fam]


# --------------------------------------------------------------------------
# executing a history on the real class
# --------------------------------------------------------------------------
def nores(keys):
    return {"val": 0, "key": "", "err": False, "m": {k: 0 for k in keys}}


def execute(ops, fam, workdir, keys, adaptive=False, popitem_keys=None):
    """ops: list of {op,k,v,m}.  Returns the observed trace (same events with observed res).
    adaptive: a mutate aimed at a key that is not there becomes a read (input selection only).
    popitem_keys: per operation, the key the generated history assumed popitem() removes; when the real dict removes
    another item the rest of that history does not apply (it is a different enumerated history) and execution stops."""
    from bluesky.utils import PersistentDict
    tk = tokens_for(fam)
    directory = tempfile.mkdtemp(dir=workdir)
    box = [PersistentDict(directory)]
    trace = []
    for n, e in enumerate(ops):
        op, k, v = e["op"], e["k"], e["v"]
        res = nores(keys)
        d = box[0]
        if op == "set":
            d[k] = value(v, fam)
        elif op == "del":
            try:
                del d[k]
            except KeyError:
                res["err"] = True
        elif op == "pop":
            try:
                res["val"] = tk.of(d.pop(k))
            except KeyError:
                res["err"] = True
        elif op == "popd":
            # the default is an equal object, or (every other time, when the key holds that very value) the stored object
            # itself -- as with d.pop(k, None) on a key that holds None
            dflt = value(v, fam)
            if n % 2 == 0 and k in d and deep_eq(d[k], dflt):
                dflt = d[k]
            res["val"] = tk.of(d.pop(k, dflt))
        elif op == "popitem":
            try:
                kk, vv = d.popitem()
                res["key"], res["val"] = str(kk), tk.of(vv)
            except KeyError:
                res["err"] = True
        elif op == "update":
            new = {kk: value(vv, fam) for kk, vv in e["m"].items() if vv}
            if n % 3 == 0:
                d.update(new)
            elif n % 3 == 1:
                d.update(**new)
            else:
                d.update(list(new.items()))
        elif op == "setdefault":
            res["val"] = tk.of(d.setdefault(k, value(v, fam)))
        elif op == "clear":
            d.clear()
        elif op == "mutate" and not (adaptive and k not in d):
            mutate_in_place(d[k], value(v, fam))
        elif op == "flush":
            d.flush()
        elif op == "reload":
            d.reload()
            res["m"] = tk.contents(d, keys)
        elif op in ("read", "mutate"):
            op, k, v = "read", "", 0
            res["m"] = tk.contents(d, keys)
        elif op in ("reopen", "crash"):
            fin = d._finalizer
            if op == "crash":
                fin.detach()            # the process dies: the finalizer never runs
            del d
            box.clear()             # last reference: the instance is deallocated and (reopen) its finalizer runs
            if op == "reopen" and fin.alive:
                gc.collect()        # only if the class ever ends up in a reference cycle (a full collection is slow)
            if op == "reopen" and fin.alive:
                raise RuntimeError("harness: the PersistentDict instance was not collected")
            box.append(PersistentDict(directory))
            res["m"] = tk.contents(box[0], keys)
        else:
            raise ValueError(op)
        d = None
        trace.append({"op": op, "k": k, "v": v, "m": e["m"], "res": res})
        if popitem_keys and op == "popitem" and not res["err"] and res["key"] != popitem_keys[n]:
            break
    box[0]._finalizer.detach()
    box.clear()
    shutil.rmtree(directory, ignore_errors=True)
    return trace


CHILD = r"""
import json, os, sys
sys.path.insert(0, {verif!r})
from harness.props.C43 import execute_in_child
execute_in_child(json.loads(sys.argv[1]), int(sys.argv[2]), sys.argv[3], sys.argv[4])
"""


def execute_in_child(ops, fam, directory, how):
    """child process: run ops on a PersistentDict, then end the process gracefully (interpreter exit runs the
    finalizer) or be killed (os._exit: nothing runs)"""
    from bluesky.utils import PersistentDict
    try:
        d = PersistentDict(directory)
        for n, e in enumerate(ops):
            op, k, v = e["op"], e["k"], e["v"]
            if op == "set":
                d[k] = value(v, fam)
            elif op == "del":
                del d[k]
            elif op == "mutate":
                mutate_in_place(d[k], value(v, fam))
            elif op == "flush":
                d.flush()
            elif op == "reload":
                d.reload()
            elif op == "update":
                d.update({kk: value(vv, fam) for kk, vv in e["m"].items() if vv})
            elif op == "clear":
                d.clear()
    except Exception as ex:  # noqa: BLE001 -- a legal history failed inside the implementation
        print(f"IMPL-EXC {type(ex).__name__}: {ex}")
        sys.stdout.flush()
        os._exit(3)
    sys.stdout.flush()
    if how == "crash":
        os._exit(0)
    sys.exit(0)


def child_histories(rng, count, keys):
    """operation sequences without observable results (the child reports nothing), ended by exit or kill"""
    out = []
    zero = {k: 0 for k in keys}
    for i in range(count):
        ops = []
        present = set()
        fresh = iter(range(10, 80))
        for _ in range(rng.randint(3, 7)):
            r = rng.random()
            k = rng.choice(keys[:2])
            if r < 0.4 or not present:
                ops.append({"op": "set", "k": k, "v": rng.randint(1, 3), "m": zero}); present.add(k)
            elif r < 0.55:
                k = rng.choice(sorted(present))
                ops.append({"op": "mutate", "k": k, "v": next(fresh), "m": zero})
            elif r < 0.65:
                k = rng.choice(sorted(present))
                ops.append({"op": "del", "k": k, "v": 0, "m": zero}); present.discard(k)
            elif r < 0.75:
                ops.append({"op": "flush", "k": "", "v": 0, "m": zero})
            elif r < 0.85:
                ops.append({"op": "reload", "k": "", "v": 0, "m": zero})
            else:
                ops.append({"op": "update", "k": "", "v": 0, "m": dict(zero, **{k: rng.randint(1, 3)})}); present.add(k)
        out.append((ops, i % NFAM, "crash" if i % 2 == 0 else "reopen"))
    return out


# --------------------------------------------------------------------------
def random_history(rng, n, keys):
    zero = {k: 0 for k in keys}
    ops = []
    fresh = iter(range(10, 80))          # a mutation always produces a value not seen before
    while len(ops) < n:
        r = rng.random()
        k = rng.choice(keys)
        e = {"op": "", "k": "", "v": 0, "m": zero}
        if r < 0.22:
            e.update(op="set", k=k, v=rng.randint(1, 4))
        elif r < 0.30:
            e.update(op="del", k=k)
        elif r < 0.33:
            e.update(op="pop", k=k)
        elif r < 0.36:
            e.update(op="popd", k=k, v=rng.randint(1, 4))
        elif r < 0.41:
            e.update(op="popitem")
        elif r < 0.48:
            e.update(op="update", m={kk: (rng.randint(1, 4) if rng.random() < 0.5 else 0) for kk in keys})
            if not any(e["m"].values()):
                continue
        elif r < 0.54:
            e.update(op="setdefault", k=k, v=rng.randint(1, 4))
        elif r < 0.56:
            e.update(op="clear")
        elif r < 0.70:
            e.update(op="mutate", k=k, v=next(fresh))
        elif r < 0.76:
            e.update(op="flush")
        elif r < 0.82:
            e.update(op="reload")
        elif r < 0.88:
            e.update(op="read")
        elif r < 0.94:
            e.update(op="reopen")
        else:
            e.update(op="crash")
        ops.append(e)
    ops.append({"op": rng.choice(["reopen", "crash"]), "k": "", "v": 0, "m": zero})
    return ops


def compact(events):
    def one(e):
        if e["op"] in ("set", "setdefault", "mutate", "popd"):
            return f"{e['op']}({e['k']},{e['v']})"
        if e["op"] in ("del", "pop"):
            return f"{e['op']}({e['k']})"
        if e["op"] == "update":
            return "update(" + ",".join(f"{k}={v}" for k, v in sorted(e["m"].items()) if v) + ")"
        return e["op"]
    return ";".join(one(e) for e in events)


def lifetime(trace, upto):
    """events of the instance that ends with event index `upto` (0-based): back to the previous reopen/crash"""
    i = upto - 1
    while i >= 0 and trace[i]["op"] not in ("reopen", "crash"):
        i -= 1
    return trace[i + 1: upto + 1]


def run(ctx):
    rng = random.Random(ctx.seed)
    work = ctx.out / "dirs"
    shutil.rmtree(work, ignore_errors=True)
    work.mkdir(parents=True)
    J = jopts(ctx)
    W = min(4, int(os.environ.get("VERIF_TLC_WORKERS", 4)))
    # ---- child processes (real interpreter exit / kill), started first, collected later -------------------
    kids = []
    for n, (ops, fam, how) in enumerate(child_histories(rng, 2 if ctx.quick else 12, TKEYS)):
        directory = tempfile.mkdtemp(dir=work)
        p = subprocess.Popen([sys.executable, "-W", "ignore", "-c", CHILD.format(verif=str(SPEC.parent)), json.dumps(ops), str(fam),
                              directory, how], stdout=subprocess.PIPE, stderr=subprocess.PIPE, text=True)
        kids.append((p, ops, fam, how, directory))
    # ---- 1. model checking + generation of replay histories (independent TLC runs, in parallel) -----------
    if ctx.quick:      # (keys, NV, alphabet, MaxOps)
        gens = [
            (["a"], 2, ["set", "del", "mutate", "flush", "reload", "reopen", "crash"], 4),
            (["a", "b"], 2, ["update", "pop", "popitem", "clear", "setdefault", "mutate", "reload", "reopen", "crash"], 3),
            (["a"], 2, ["set", "popd", "reopen", "crash"], 4),
        ]
    else:
        gens = [
            (["a"], 2, ["set", "del", "mutate", "flush", "reload", "reopen", "crash"], 5),
            (["a", "b"], 2, ["set", "pop", "popd", "popitem", "clear", "setdefault", "reopen", "crash"], 4),
            (["a", "b"], 2, ["update", "mutate", "reload", "popitem", "flush", "reopen", "crash"], 4),
        ]
    jobs = {}
    with ThreadPoolExecutor(4) as ex:
        jobs["asfound"] = ex.submit(run_tlc, "PersistentDict", "PersistentDict_small.cfg", spec_dir=SD, tag="C43a", timeout=3000, java_opts=J, workers=W)
        if not ctx.quick:       # (quick: the repaired semantics is checked by the replay configurations below, INVARIANT C43_Strict)
            jobs["repaired"] = ex.submit(run_tlc, "PersistentDict", "PersistentDict_repaired.cfg", spec_dir=SD, tag="C43b", timeout=3000, java_opts=J, workers=2)
            jobs["kfreach"] = ex.submit(run_tlc, "PersistentDict", "PersistentDict_kfreach.cfg", spec_dir=SD, tag="C43k", timeout=3000, java_opts=J, workers=2)
        for n, (keys, nv, alpha, mo) in enumerate(gens):
            cfgp = write_cfg(ctx.out / f"gen{n}.cfg", {"Keys": set(keys), "NV": nv, "MaxOps": mo, "Mode": "repaired", "Alphabet": set(alpha)},
                             invariants=["C43_Strict"], constraints=["DumpHist"])
            jobs[f"gen{n}"] = ex.submit(run_tlc, "PersistentDict", cfgp, spec_dir=SD, tag=f"C43g{n}", workers=1, timeout=3000, java_opts=J)
    res = {k: f.result() for k, f in jobs.items()}
    ctx.add_tlc(res["asfound"], "PersistentDict exhaustive (as found, finding exempted)")
    if "repaired" in res:
        ctx.add_tlc(res["repaired"], "PersistentDict exhaustive (repaired finalizer, strict property)")
    for name in ("asfound", "repaired"):
        if name not in res:
            continue
        r = res[name]
        if not r.ok:
            hist = r.trace[-1][1].get("hist", ()) if r.trace else ()
            ctx.violation(f"spec:{name}:{r.violated}", f"PersistentDict.tla ({name}) {r.kind} {r.violated} violated by history {compact(hist)}",
                          {"hist": compact(hist)})
            return
    if "kfreach" in res:
        ctx.add_tlc(res["kfreach"], "reachability of the finding's signature in the model")
        if res["kfreach"].ok:
            ctx.note("the stale-finalizer signature is no longer reachable in the as-found model")
    ctx.cov["exhaustive"] = True
    ctx.rule = ("histories = every maximal behaviour (ending in reopen/crash) of three replay configurations of PersistentDict.tla, "
                "executed on the real class with four value families in rotation; non-trivial = contains a write and at least one "
                "of mutate/flush/reload/delete/popitem before the final reopen/crash; distinct by (operation sequence, value family); "
                "plus random long histories and histories ended by a real interpreter exit / os._exit, all validated by TLC")
    # ---- 2. replay every generated history on the real class ---------------------------------------------
    traces, meta = [], []      # meta: dict(kind, expected, fam)
    nh = 0
    for n, (keys, nv, alpha, mo) in enumerate(gens):
        r = res[f"gen{n}"]
        ctx.add_tlc(r, f"replay generation {n}: keys={keys} NV={nv} ops<={mo} {alpha}")
        if not r.ok:
            hist = r.trace[-1][1].get("hist", ()) if r.trace else ()
            ctx.violation(f"spec:gen{n}:{r.violated}", f"PersistentDict.tla (repaired mode) {r.kind} {r.violated} violated by history {compact(hist)}",
                          {"hist": compact(hist)})
            return
        for m in re.finditer(r'<<"HIST", "((?:[^"\\]|\\.)*)">>', r.stdout):
            h = json.loads(json.loads('"' + m.group(1) + '"'))
            nh += 1
            fam = nh % NFAM
            ops = [{"op": e["op"], "k": e["k"], "v": e["v"], "m": {k: e["m"].get(k, 0) for k in TKEYS}} for e in h]
            exp = [{"val": e["res"]["val"], "key": e["res"]["key"], "err": e["res"]["err"],
                    "m": {k: e["res"]["m"].get(k, 0) for k in TKEYS}} for e in h]
            # popitem carries its result in hist; the op itself has no argument
            try:
                tr = execute(ops, fam, work, TKEYS, popitem_keys=[x["key"] for x in exp])
            except Exception as ex:  # noqa: BLE001 -- a legal history must not raise
                ctx.violation(f"replay-exc:{type(ex).__name__}:{compact(ops)}", f"history {compact(ops)} raised {ex!r} on the real PersistentDict",
                              {"hist": ops, "family": fam})
                continue
            body = [e["op"] for e in ops[:-1]]
            nontriv = any(o in ("set", "update", "setdefault") for o in body) and any(
                o in ("mutate", "flush", "reload", "del", "pop", "popd", "popitem", "clear") for o in body)
            ctx.case((compact(ops), fam), nontriv)
            traces.append(tr)
            meta.append({"kind": "replay", "expected": exp, "fam": fam})
    if not nh:
        ctx.machinery("no histories produced by the replay configurations")
    # ---- 3. random long histories + child-process histories ----------------------------------------------
    for i in range(25 if ctx.quick else 400):
        ops = random_history(rng, 30 if ctx.quick else 45, TKEYS)
        fam = i % NFAM
        try:
            tr = execute(ops, fam, work, TKEYS, adaptive=True)
        except Exception as ex:  # noqa: BLE001
            ctx.violation(f"random-exc:{type(ex).__name__}", f"random history raised {ex!r}: {compact(ops)}", {"hist": ops, "family": fam})
            continue
        ctx.case(("rnd", i, fam), True)
        traces.append(tr)
        meta.append({"kind": "random", "fam": fam})
    for p, ops, fam, how, directory in kids:
        try:
            outp, err = p.communicate(timeout=300)
        except subprocess.TimeoutExpired:
            p.kill()
            ctx.machinery("child process running a PersistentDict history timed out")
        if p.returncode == 3:
            ctx.violation(f"child-exc:{compact(ops)}", f"history {compact(ops)} failed in a child process: {outp.strip()[-300:]}",
                          {"hist": ops, "family": fam})
            continue
        if p.returncode != 0:
            ctx.machinery(f"child process failed: {err[-800:]}")
        from bluesky.utils import PersistentDict
        d = PersistentDict(directory)
        obs = tokens_for(fam).contents(d, TKEYS)
        d._finalizer.detach()
        del d
        tr = [dict(e, res=nores(TKEYS)) for e in ops]
        # results of reload are not observable from outside: mark them so that the trace module does not constrain them
        tr = [e if e["op"] != "reload" else dict(e, op="reload_blind") for e in tr]
        tr.append({"op": how, "k": "", "v": 0, "m": {k: 0 for k in TKEYS}, "res": dict(nores(TKEYS), m=obs)})
        ctx.case(("child", compact(ops), how, fam), True)
        traces.append(tr)
        meta.append({"kind": "child:" + how, "fam": fam})
    # ---- 4. TLC judges every executed history -------------------------------------------------------------
    tf = ctx.out / "traces.ndjson"
    with open(tf, "w") as fh:
        for t in traces:
            fh.write(json.dumps(t) + "\n")
    tres = run_tlc("PersistentDictTrace", "PersistentDictTrace.cfg", spec_dir=SD, env={"TRACE_FILE": str(tf)}, workers=1, tag="C43t",
                   timeout=3000, extra=["-continue"], java_opts=J)
    ctx.add_tlc(tres, "PersistentDictTrace")
    rejected = {int(m.group(1)) - 1: int(m.group(2)) - 1 for m in re.finditer(r'<<"REJECTED", (\d+), (\d+)>>', tres.stdout)}
    kf = {}
    for m in re.finditer(r'<<"KF", "stale-finalizer", (\d+), (\d+)>>', tres.stdout):
        kf.setdefault(int(m.group(1)) - 1, set()).add(int(m.group(2)) - 2)      # event index of the reopen (0-based)
    inv_bad = {}
    if tres.violated and tres.kind in ("invariant", "action"):
        # with -continue TLC prints one counterexample per violation: the violating state is the last of each
        runs = []
        for label, st in tres.trace:
            if label.startswith("Initial predicate") or not runs:
                runs.append([])
            runs[-1].append(st)
        for states in runs:
            st = states[-1]
            if "tid" in st and "l" in st:
                inv_bad.setdefault(st["tid"] - 1, st["l"] - 2)
    elif tres.violated and tres.kind != "postcondition":
        ctx.machinery(f"PersistentDictTrace failed: {tres.violated}\n{tres.stdout[-1500:]}")
    if not tres.ok and not rejected and not inv_bad:
        ctx.machinery(f"PersistentDictTrace failed without a verdict:\n{tres.stdout[-1500:]}")
    good = 0
    for idx, tr in enumerate(traces):
        mt = meta[idx]
        bad = False
        if idx in rejected:
            upto = rejected[idx]
            ev = tr[upto] if upto < len(tr) else None
            seg = lifetime(tr, min(upto, len(tr) - 1))
            ctx.violation(f"trace-rejected:{mt['kind']}:{ev['op'] if ev else '?'}:{compact(seg)}",
                          f"{mt['kind']} history rejected by PersistentDictTrace at event {upto} ({ev['op'] if ev else '?'} observed "
                          f"{ev['res'] if ev else None}); instance lifetime: {compact(seg)}",
                          {"trace": tr, "accepted_prefix": upto, "family": mt["fam"]})
            bad = True
        if idx in inv_bad and idx not in rejected:
            upto = max(0, min(inv_bad[idx], len(tr) - 1))
            seg = lifetime(tr, upto)
            ctx.violation(f"trace-invariant:{tres.violated}:{compact(seg)}",
                          f"invariant {tres.violated} violated on a {mt['kind']} history of the real PersistentDict: after {compact(seg)} "
                          f"the new instance holds {tr[upto]['res']['m']}",
                          {"trace": tr, "event": upto, "family": mt["fam"]})
            bad = True
        for upto in sorted(kf.get(idx, ())):
            if 0 <= upto < len(tr):
                seg = lifetime(tr, upto)
                ctx.violation(f"kf:stale-finalizer:{compact(seg)}",
                              f"after {compact(seg)} the new instance holds {tr[upto]['res']['m']} (finalizer dumped the dict of before reload())",
                              {"trace": tr, "event": upto, "family": mt["fam"]})
                bad = True
        # direct comparison of replayed histories with the results TLC attached to them (repaired semantics)
        if mt["kind"] == "replay" and not bad:
            for e, x in zip(tr, mt["expected"]):
                if e["op"] == "popitem" and (e["res"]["key"] != x["key"]):
                    break       # the dict chose the other item: a different (also enumerated) history from here on
                if e["res"] != x:
                    ctx.violation(f"replay:{e['op']}:{compact(tr)}",
                                  f"history {compact(tr)}: {e['op']} expected {x} but the real PersistentDict gave {e['res']}",
                                  {"trace": tr, "expected": mt["expected"], "family": mt["fam"]})
                    bad = True
                    break
        if not bad:
            good += 1
    ctx.traces(good)
    for idx in (0, len(traces) // 2):
        ctx.sample({"history": compact(traces[idx]), "final_contents": traces[idx][-1]["res"]["m"], "kind": meta[idx]["kind"]})
    shutil.rmtree(work, ignore_errors=True)
    ctx.assumptions += [
        "one PersistentDict instance at a time per directory; an instance ends either gracefully (collected / interpreter exit: "
        "its weakref.finalize callback runs) or by a crash between operations (the callback never runs: finalizer.detach(), "
        "cross-checked with real os._exit children); crashes in the middle of a file write are out of scope",
        "values are msgpack-faithful (lists, dicts with str keys, numpy arrays/scalars, bytes, None): equality is deep equality "
        "with dtype and shape",
        "which item popitem() removes is the dict's choice (the trace records it)",
    ]
