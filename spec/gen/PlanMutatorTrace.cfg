CONSTANTS
  Impls = {"plan_mutator", "msg_mutator"}
  Procs = {"identity", "insert"}
  Variants = {"TT", "TF", "FT", "FF"}
  MaxOpsId = 1000000
  MaxOpsIns = 1000000
  MaxGens = 1000000
  MaxPost = 1000000
  KeepHist = FALSE
  DumpVariants = {}
SPECIFICATION TraceSpec
CONSTRAINT OnlyGoodExplanations
INVARIANT TypeOK
INVARIANT C20_SameOpsReachParent
INVARIANT C20_SameOutcome
INVARIANT C20_SameLiveness
INVARIANT C21_HostGetsHeadResponse
INVARIANT C21_TailRightAfterHead
INVARIANT C21_NoReprocess
INVARIANT C21_ExceptionsReachHost
INVARIANT C21_ReplyToYielder
POSTCONDITION TraceAccepted
