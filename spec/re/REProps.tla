------------------------------- MODULE REProps -------------------------------
(***************************************************************************)
(* The properties C01, C02, C04, C05, C06, C07, C08, C09, C10, C11, C40,   *)
(* C41 stated over the OBSERVABLE events of RE.tla.                        *)
(*                                                                         *)
(* `mon` is a bounded monitor that is part of the state.  It is updated by *)
(* folding the events of obs' (so it is identical in model-checking mode   *)
(* and in trace-validation mode, where obs' are the recorded events) and   *)
(* accumulates in mon.viol the tags of the property clauses that failed.   *)
(* Each property is then the invariant "none of my tags is in mon.viol";   *)
(* mon.reqs records which request landed where (the signature of a         *)
(* violation / known finding).                                             *)
(***************************************************************************)
EXTENDS RE

VARIABLE mon

MaxRuns == 6

NoRunMon == [started |-> FALSE, stopped |-> 0, status |-> "", engineClosed |-> FALSE, descs |-> {},
             maxseq |-> [s \in Streams |-> 0], rewAtLast |-> [s \in Streams |-> 0], nev |-> [s \in Streams |-> 99],
             intrWant |-> 0]
MonInitVal ==
  [ viol |-> {},                 \* tags of violated property clauses
    reqs |-> <<>>,               \* requests / caller decisions: [kind, pc, st, res, out]
    runs |-> [o \in 1..MaxRuns |-> NoRunMon],
    nruns |-> 0,
    dev |-> [d \in Devices |-> [stg |-> 0, dirty |-> FALSE, subs |-> 0, lost |-> 0]],
    rew |-> 1,                   \* 1 + number of rewinds (resume / suspension release) so far
    term |-> {},                 \* accepted terminating requests in this call chain
    termLate |-> {},             \* ... that landed after the plan had already ended (post-plan window)
    failedPause |-> FALSE,       \* a pause / suspension was requested while not resumable
    inObsClose |-> FALSE,        \* (within one obs) a close_run message was seen: the next stop doc is the plan's
    callRuns |-> 0,              \* nruns when the current RE(...) call started
    \* C04 / C09 / C10 / C11 bookkeeping over msg events
    rewFlag |-> TRUE,            \* rewindable flag as set by messages
    ckpt |-> TRUE,               \* a checkpoint is in effect (no clear_checkpoint since)
    since |-> <<>>,              \* identities of replayable messages executed since the last (implicit) checkpoint
    expect |-> <<>>,             \* identities that must be replayed next (after a resume / release)
    replaying |-> FALSE,
    deferPending |-> FALSE,      \* a deferred pause was acknowledged and not yet consumed
    deferCkpt |-> FALSE,         \* ... and the checkpoint that consumes it has been executed
    susp |-> {},                 \* futures of suspensions in effect (requested, accepted, not released)
    suspWait |-> FALSE,          \* the engine is inside the wait of a suspension
    pausedNow |-> FALSE,
    st |-> "idle",               \* engine state as reported by state events
    planDone |-> FALSE,          \* the plan handed to RE(...) has returned or raised (post-plan window)
    lastCmd |-> "",              \* command of the last message executed (call-site part of a signature)
    maxMid |-> 0,                \* highest message identity seen
    faulty |-> FALSE ]           \* a device fault or a plan error was injected in this call chain

MonInit == mon = MonInitVal

Viol(m, tag) == [m EXCEPT !.viol = @ \cup {tag}]
ViolIf(m, c, tag) == IF c THEN Viol(m, tag) ELSE m

StreamClass(s) == IF s = "interruptions" THEN "interruptions" ELSE IF s \in Mons THEN "monitor" ELSE "bundle"
ControlExc == {"exc:FailedPause", "exc:RequestAbort", "exc:RequestStop", "exc:PlanHalt", "exc:Cancelled"}

ImplicitCkptCmds == {"checkpoint", "stage", "unstage", "monitor", "unmonitor", "subscribe", "unsubscribe", "close_run"}

\* ---------------------------------------------------------------------------
\* one event; s = engine state before the step, s2 = after (used only for request signatures and C08's resumability)
UpdDoc(m, e) ==
  LET name == e[2] stream == e[3] status == e[4] seq == e[6] ord == e[7] IN
  IF name = "start" THEN
     IF ord # m.nruns + 1 \/ ord > MaxRuns THEN Viol(m, "C01:start-order")
     ELSE [m EXCEPT !.nruns = ord, !.runs[ord] = [NoRunMon EXCEPT !.started = TRUE]]
  ELSE IF ord < 1 \/ ord > m.nruns THEN Viol(m, "C01:no-run-start")
  ELSE LET r == m.runs[ord] IN
       IF r.stopped > 0 THEN Viol(m, IF name = "stop" THEN "C01:second-stop" ELSE "C01:doc-after-stop")
       ELSE IF name = "descriptor" THEN [m EXCEPT !.runs[ord].descs = @ \cup {stream}]
       ELSE IF name = "event" THEN
            LET m1 == ViolIf(m, stream \notin r.descs, "C01:event-without-descriptor")
                mx == r.maxseq[stream]
                m2 == IF seq = mx + 1 THEN m1
                      ELSE IF seq > mx + 1 \/ seq < 1 THEN Viol(m1, "C05:gap:" \o StreamClass(stream))
                      ELSE \* seq <= max: a repeated seq_num -- only a re-taken bundled data point after a rewind
                           IF StreamClass(stream) = "bundle" /\ r.rewAtLast[stream] < m.rew THEN m1
                           ELSE Viol(m1, "C05:duplicate-seq:" \o StreamClass(stream))
            IN [m2 EXCEPT !.runs[ord].maxseq[stream] = IF seq > mx THEN seq ELSE (IF seq >= 1 THEN seq ELSE mx),
                          !.runs[ord].rewAtLast[stream] = m.rew]
       ELSE IF name = "stop" THEN
            [m EXCEPT !.runs[ord].stopped = 1, !.runs[ord].status = status,
                      !.runs[ord].engineClosed = ~m.inObsClose, !.inObsClose = FALSE]
       ELSE m

UpdNev(m, e) ==
  LET stream == e[2] n == e[6] ord == e[7] IN
  IF ord < 1 \/ ord > m.nruns THEN Viol(m, "C01:no-run-start")
  ELSE LET r == m.runs[ord]
           m1 == ViolIf(m, n # r.maxseq[stream], "C05:num_events:" \o StreamClass(stream))
       IN [m1 EXCEPT !.runs[ord].nev[stream] = n]

UpdDev(m, e) ==
  LET d == e[2] op == e[3] IN
  IF d \notin Devices THEN m ELSE IF e[4] = "raise" THEN [m EXCEPT !.faulty = TRUE]
  ELSE CASE op = "stage" -> [m EXCEPT !.dev[d].stg = @ + 1]
         [] op = "unstage" -> [m EXCEPT !.dev[d].stg = IF @ > 0 THEN @ - 1 ELSE 0]
         [] op = "set" -> [m EXCEPT !.dev[d].dirty = TRUE]
         [] op = "stop" -> [m EXCEPT !.dev[d].dirty = FALSE]
         [] op = "subscribe" -> [m EXCEPT !.dev[d].subs = @ + 1]
         [] op = "clear_sub" -> [m EXCEPT !.dev[d].subs = IF @ > 0 THEN @ - 1 ELSE 0]
         [] op = "update" ->
              \* C41: an update reaches e[6] engine callbacks; while paused / suspended none may be subscribed
              ViolIf(m, e[6] > 0 /\ (m.pausedNow \/ m.suspWait), IF m.pausedNow THEN "C41:update-while-paused" ELSE "C41:update-while-suspended")
         [] OTHER -> m

\* messages: replay bookkeeping (C04), deferred pause (C09), suspension (C11)
UpdMsg(m, e) ==
  LET cmd == e[2] a == e[5] mid == e[6]
      \* C04: while replaying, the next message must be the next expected identity
      m1 == IF m.replaying THEN
               IF m.expect = <<>> THEN [m EXCEPT !.replaying = FALSE]
               ELSE IF Head(m.expect) = mid THEN [m EXCEPT !.expect = Tail(@), !.replaying = (Len(m.expect) > 1)]
               ELSE IF cmd \in {"rewindable", "wait_for", "_resume_from_suspender", "_start_suspender"} \/ m.suspWait THEN m
               ELSE Viol([m EXCEPT !.replaying = FALSE, !.expect = <<>>], "C04:replay-mismatch")
            ELSE \* not replaying: a message identity that was executed before must not come back
                 ViolIf(m, mid <= m.maxMid /\ mid > 0, "C04:unexpected-replay")
      \* a fresh (not replayed) identity while something is still expected is caught above
      m2 == IF cmd = "rewindable" /\ a # "" THEN
               (IF (a = "T") # m1.rewFlag /\ m1.ckpt THEN [m1 EXCEPT !.rewFlag = (a = "T"), !.since = <<>>] ELSE [m1 EXCEPT !.rewFlag = (a = "T")])
            ELSE IF cmd = "clear_checkpoint" THEN [m1 EXCEPT !.ckpt = FALSE, !.since = <<>>]
            ELSE IF cmd = "checkpoint" THEN [m1 EXCEPT !.ckpt = TRUE, !.since = <<>>, !.deferCkpt = m1.deferPending]
            ELSE IF cmd \in ImplicitCkptCmds THEN [m1 EXCEPT !.since = <<>>]
            ELSE IF cmd \in Uncacheable \/ ~m1.rewFlag \/ ~m1.ckpt THEN m1
            ELSE [m1 EXCEPT !.since = Append(@, mid)]
      \* C09: after the checkpoint that consumes a deferred pause no further message may be executed before the pause
      m3 == ViolIf(m2, m.deferCkpt /\ cmd # "checkpoint", "C09:message-after-deferred-checkpoint")
      \* C11: while a suspension holds the plan only the helper's own messages (pre-plan, wait) may run
      m4a == IF cmd = "wait_for" /\ m3.susp # {} THEN [m3 EXCEPT !.suspWait = TRUE] ELSE
             IF cmd = "_resume_from_suspender" THEN [m3 EXCEPT !.suspWait = FALSE] ELSE m3
      \* a suspension starts: the engine rewinds; what was executed since the last checkpoint is replayed after the release
      m4 == IF cmd = "_start_suspender" /\ m4a.ckpt
            THEN [m4a EXCEPT !.rew = @ + 1, !.expect = m4a.since \o m4a.expect, !.replaying = (m4a.since \o m4a.expect # <<>>), !.since = <<>>]
            ELSE m4a
  IN [m4 EXCEPT !.maxMid = IF mid > @ THEN mid ELSE @, !.lastCmd = cmd]

UpdState(m, e) ==
  LET o == e[2] n == e[3]
      m1 == ViolIf(m, o \notin DOMAIN Table \/ n \notin Table[o], "C07:illegal-transition:" \o o \o "->" \o n)
      m2 == [m1 EXCEPT !.pausedNow = (n = "paused"), !.st = n]
      \* C09: the pause that follows a deferred request: nothing to replay
      m3 == IF n = "paused" /\ m.deferCkpt THEN ViolIf([m2 EXCEPT !.deferPending = FALSE, !.deferCkpt = FALSE], m.since # <<>>, "C09:replay-after-deferred-pause")
            ELSE IF n = "pausing" /\ ~m.deferCkpt THEN [m2 EXCEPT !.deferPending = FALSE] ELSE m2
      \* C10: never paused after an interruption in a non-resumable section
      m4 == ViolIf(m3, n = "paused" /\ m.failedPause, "C10:paused-after-failed-pause")
  IN m4

\* cause of the end of the call, for C02: what status must a run closed by the engine have
ExpectedStatus(m, outcome) ==
  IF outcome \notin ({"ok", "interrupted"} \cup ControlExc) THEN {"fail"}
  ELSE IF m.termLate # {} THEN {"abort", "success"}      \* the plan had already ended when the request landed
  ELSE IF m.term \cap {"abort", "halt"} # {} /\ "stop" \in m.term THEN {"abort", "success"}
  ELSE IF m.term \cap {"abort", "halt"} # {} \/ m.failedPause THEN {"abort"}
  ELSE {"success"}

UpdRet(m, e, s2) ==
  LET op == e[2] outcome == e[3] st == e[4] resumable == e[7]
      allStopped == \A o \in 1..m.nruns : m.runs[o].stopped = 1
      terminated == m.term # {} \/ m.termLate # {} \/ m.failedPause
      m0 == ViolIf(m, ~m.faulty /\ outcome \notin {"ok", "interrupted"} /\ outcome # "exc:TransitionError", "C03:unexpected-error")
      m1 == ViolIf(m0, st \notin {"idle", "paused"}, "C07:not-settled:" \o st)
      m2 == IF outcome = "interrupted"
            THEN ViolIf(m1, ~((st = "paused" /\ resumable = 1) \/ (terminated /\ st = "idle" /\ allStopped)),
                        "C08:interrupted-but-" \o st)
            ELSE IF outcome = "ok" /\ op \in {"run", "resume"}
            THEN ViolIf(m1, ~(st = "idle" /\ m.planDone), "C08:normal-return-without-completion")
            ELSE m1
      m3 == IF st = "idle" THEN
               LET a == ViolIf(m2, ~allStopped, "C01:run-not-stopped-at-idle")
                   b == ViolIf(a, \E d \in Devices : m.dev[d].stg # 0, "C06:stage-unbalanced")
                   c == ViolIf(b, \E d \in Devices : m.dev[d].dirty, "C06:moved-not-stopped")
                   dd == ViolIf(c, \E d \in Devices : m.dev[d].subs # 0, "C06:subscription-left")
                   \* C02: runs closed by the engine in this call chain
                   ee == ViolIf(dd, \E o \in (m.callRuns + 1)..m.nruns :
                                      m.runs[o].engineClosed /\ m.runs[o].status \notin ExpectedStatus(m, outcome),
                                "C02:exit-status")
                   \* C10: after a failed pause the call must report the interruption
                   ff == ViolIf(ee, m.failedPause /\ outcome \in {"ok"} /\ op \in {"run", "resume"}, "C10:not-reported")
                   \* C05: num_events present for every stream that has events
                   gg == ViolIf(ff, \E o \in 1..m.nruns : \E sn \in Streams :
                                      m.runs[o].stopped = 1 /\ m.runs[o].maxseq[sn] > 0 /\ m.runs[o].nev[sn] = 99,
                                "C05:num_events-missing")
               IN gg
            ELSE m2
  IN [m3 EXCEPT !.reqs = IF Len(@) > 0 /\ @[Len(@)].out = "" /\ @[Len(@)].kind \in {"call:resume", "call:abort", "call:stop", "call:halt"}
                          THEN [@ EXCEPT ![Len(@)].out = outcome] ELSE @]

\* where a request landed, in terms of observable events only: "tail" = after the plan ended, "paused", else "run"
Where(m) == IF m.planDone THEN "tail" ELSE IF m.st = "paused" THEN "paused" ELSE "run"
UpdReq(m, e, s) ==
  LET kind == e[2]
      rec == [kind |-> kind, pc |-> Where(m), st |-> m.st, res |-> m.ckpt, out |-> "", after |-> m.lastCmd]
  IN [m EXCEPT !.reqs = Append(@, rec)]

UpdReqRet(m, e, s2) ==
  LET kind == e[2] out == e[3]
      last == m.reqs[Len(m.reqs)]
      m1 == [m EXCEPT !.reqs[Len(m.reqs)].out = out]
      acc == out = "ok"
      m2 == IF acc /\ kind \in {"abort", "stop", "halt"} /\ last.st # "idle"
            THEN (IF last.pc = "tail" THEN [m1 EXCEPT !.termLate = @ \cup {kind}] ELSE [m1 EXCEPT !.term = @ \cup {kind}])
            ELSE m1
      m3 == IF kind \in {"pause", "suspend"} /\ ~last.res /\ last.st \in {"running", "paused"} /\ acc THEN [m2 EXCEPT !.failedPause = TRUE] ELSE m2
      m4 == IF kind = "defer" /\ acc THEN [m3 EXCEPT !.deferPending = TRUE] ELSE m3
      m5 == IF kind = "suspend" /\ acc /\ last.res /\ last.st = "running" THEN [m4 EXCEPT !.susp = @ \cup {e[3]}] ELSE m4
  IN m5

UpdCall(m, e, s) ==
  LET op == e[2] IN
  IF op = "run" THEN [m EXCEPT !.term = {}, !.termLate = {}, !.failedPause = FALSE, !.callRuns = m.nruns, !.deferPending = FALSE,
                               !.deferCkpt = FALSE, !.since = <<>>, !.expect = <<>>, !.replaying = FALSE, !.ckpt = TRUE,
                               !.susp = {}, !.suspWait = FALSE, !.pausedNow = FALSE, !.faulty = FALSE, !.lastCmd = "", !.reqs = <<>>,
                               !.planDone = FALSE,
                               !.dev = [d \in Devices |-> [@[d] EXCEPT !.lost = 0]]]
  ELSE LET rec == [kind |-> "call:" \o op, pc |-> Where(m), st |-> m.st, res |-> m.ckpt, out |-> "", after |-> m.lastCmd]
           m1 == [m EXCEPT !.reqs = Append(@, rec)]
       IN IF op = "resume" THEN [m1 EXCEPT !.rew = @ + 1, !.expect = m.since \o m.expect, !.replaying = (m.since \o m.expect # <<>>), !.since = <<>>]
          ELSE [m1 EXCEPT !.term = @ \cup {op}]

Upd(m, e, s, s2) ==
  LET k == e[1] IN
  CASE k = "doc" -> UpdDoc(m, e)
    [] k = "nev" -> UpdNev(m, e)
    [] k = "dev" -> UpdDev(m, e)
    [] k = "msg" -> UpdMsg([m EXCEPT !.inObsClose = (e[2] = "close_run")], e)
    [] k = "state" -> UpdState(m, e)
    [] k = "ret" -> UpdRet(m, e, s2)
    [] k = "req" -> UpdReq(m, e, s)
    [] k = "reqret" -> UpdReqRet(m, e, s2)
    [] k = "call" -> UpdCall(m, e, s)
    [] k = "stat" -> IF e[7] = 0 THEN [m EXCEPT !.faulty = TRUE] ELSE m
    [] k = "gen" -> LET m1 == [m EXCEPT !.inObsClose = FALSE] IN
                    IF e[4] = "raise:PlanErr" THEN [m1 EXCEPT !.faulty = TRUE, !.planDone = TRUE]
                    ELSE IF e[4] = "yield" THEN m1 ELSE [m1 EXCEPT !.planDone = TRUE]
    [] OTHER -> m

RECURSIVE FoldEv(_, _, _, _, _)
FoldEv(m, es, i, s, s2) == IF i > Len(es) THEN m ELSE FoldEv(Upd(m, es[i], s, s2), es, i + 1, s, s2)

\* suspension release: a rewind happens when _start_suspender ran (its helper replays the cache after the wait)
MonNext == mon' = FoldEv(mon, obs', 1, S, S')

\* ---------------------------------------------------------------------------
C01Tags == {"C01:start-order", "C01:no-run-start", "C01:second-stop", "C01:doc-after-stop", "C01:event-without-descriptor",
            "C01:run-not-stopped-at-idle"}
C02Tags == {"C02:exit-status"}
C03Tags == {"C03:unexpected-error"}
C04Tags == {"C04:replay-mismatch", "C04:unexpected-replay"}
C05Tags == {"C05:gap:bundle", "C05:gap:monitor", "C05:gap:interruptions",
            "C05:duplicate-seq:bundle", "C05:duplicate-seq:monitor", "C05:duplicate-seq:interruptions",
            "C05:num_events:bundle", "C05:num_events:monitor", "C05:num_events:interruptions", "C05:num_events-missing"}
C06Tags == {"C06:stage-unbalanced", "C06:moved-not-stopped", "C06:subscription-left"}
C07Settled == {"C07:not-settled:running", "C07:not-settled:pausing", "C07:not-settled:suspending", "C07:not-settled:halting",
               "C07:not-settled:stopping", "C07:not-settled:aborting", "C07:not-settled:panicked"}
C08Tags == {"C08:interrupted-but-idle", "C08:interrupted-but-paused", "C08:interrupted-but-running", "C08:interrupted-but-pausing",
            "C08:interrupted-but-suspending", "C08:interrupted-but-aborting", "C08:interrupted-but-stopping", "C08:interrupted-but-halting",
            "C08:normal-return-without-completion"}
C09Tags == {"C09:message-after-deferred-checkpoint", "C09:replay-after-deferred-pause"}
C10Tags == {"C10:paused-after-failed-pause", "C10:not-reported"}
C40Tags == {"C05:duplicate-seq:interruptions", "C05:num_events:interruptions", "C05:gap:interruptions"}
C41Tags == {"C41:update-while-paused", "C41:update-while-suspended", "C05:duplicate-seq:monitor", "C05:num_events:monitor"}

IsC07Illegal(t) == t \notin (C03Tags \cup C01Tags \cup C02Tags \cup C04Tags \cup C05Tags \cup C06Tags \cup C07Settled \cup C08Tags \cup C09Tags \cup C10Tags \cup C41Tags)

C01 == mon.viol \cap C01Tags = {}
C03 == mon.viol \cap C03Tags = {}
C02 == mon.viol \cap C02Tags = {}
C04 == mon.viol \cap C04Tags = {}
C05 == mon.viol \cap C05Tags = {}
C06 == mon.viol \cap C06Tags = {}
C07 == mon.viol \cap C07Settled = {} /\ \A t \in mon.viol : ~IsC07Illegal(t)
C08 == mon.viol \cap C08Tags = {}
C09 == mon.viol \cap C09Tags = {}
C10 == mon.viol \cap C10Tags = {}
C40 == mon.viol \cap C40Tags = {}
C41 == mon.viol \cap C41Tags = {}

\* reporting (used as ACTION_CONSTRAINT: always TRUE): print every newly violated clause with the request signature
Report(id) == mon'.viol = mon.viol \/ PrintT("PROPVIOL " \o ToString(<<id, mon'.viol \ mon.viol, mon'.reqs>>))

\* C07 (no stuck): once the run task is done the engine is idle
C07_TaskDoneIdle == S.pc = "done" => S.st = "idle"
=============================================================================
