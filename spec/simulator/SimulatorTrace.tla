--------------------------- MODULE SimulatorTrace ---------------------------
(* Cases recorded from the implementation (RunEngineSimulator.simulate_plan on random, larger,    *)
(* reactive plans and handler sets; check_limits / check_limits_async on random plans and limits) *)
(* checked against Simulator.tla: the recorded outputs must equal the specified ones (Conforms)   *)
(* and satisfy every invariant of C32.                                                             *)
EXTENDS Simulator

Cases == ndJsonDeserialize(IOEnv.TRACE_FILE)

TraceInit == \E k \in 1..Len(Cases) :
                /\ stage = "done" /\ mode = Cases[k].mode /\ hs = Cases[k].hs /\ plan = Cases[k].plan /\ lims = Cases[k].lims
                /\ msgs = Cases[k].msgs /\ sent = Cases[k].sent /\ ret = Cases[k].ret /\ raised = Cases[k].raised
TraceSpec == TraceInit /\ [][Next]_vars

Conforms == IF mode = "sim"
            THEN msgs = Serial(plan) /\ sent = SentFor(hs, plan) /\ ret = sent
            ELSE raised = Scan(plan, 1, {})
AllSeen == TLCGet("stats").distinct = Cardinality({Cases[k] : k \in 1..Len(Cases)})
=============================================================================
