"""Trace recorder (DESIGN.md Appendix D).  Every event is a 6-tuple
    [kind, s1, s2, s3, s4, n1, n2]      (four strings, two small ints)
so that the TLA+ side can compare events positionally without type clashes.

kinds
  call   op, arg, "", 0, 0                         public blocking call starts (run/resume/abort/stop/halt)
  ret    op, outcome, state, n_uids, resumable     ... returned: outcome in ok | interrupted | exc:<Kind>
  req    kind, "", "", 0, 0                        a request is about to be made from another thread
  reqret kind, outcome, "", 0, 0                   ... and has landed (outcome ok | exc:<Kind>)
  state  old, new, "", 0, 0                        state_hook
  gen    input, value, reaction, 0, 0              main plan resumed with input (send|throw) value and reacted
                                                   (yield | return | raise:<Kind>)
  msg    cmd, obj, run, mid, 0                     msg_hook; mid = identity token of the Msg object
  doc    name, stream, status, seq_num, run_ord    documents (start, descriptor, event, stop, ...)
  nev    stream, "", "", count, run_ord            one per stream after a stop: num_events
  dev    dev, op, arg, n, 0                        fake-device ledger
  stat   what, "", "", sid, ok                     a status object finished
"""
import threading

from bluesky.utils import (FailedPause, FailedStatus, IllegalMessageSequence, InvalidCommand, PlanHalt,
                           RequestAbort, RequestStop, RunEngineInterrupted)


def _kinds():
    import asyncio
    from bluesky._vendor.super_state_machine.errors import TransitionError
    from bluesky.run_engine import WaitForTimeoutError
    return [
        (FailedPause, "FailedPause"), (RequestAbort, "RequestAbort"), (RequestStop, "RequestStop"),
        (PlanHalt, "PlanHalt"), (asyncio.CancelledError, "Cancelled"), (FailedStatus, "FailedStatus"),
        (IllegalMessageSequence, "IMS"), (InvalidCommand, "InvalidCommand"), (TransitionError, "TransitionError"),
        (RunEngineInterrupted, "Interrupted"), (WaitForTimeoutError, "WaitTimeout"), (GeneratorExit, "GeneratorExit"),
        (StopIteration, "StopIteration"),
    ]


_K = None


def exc_kind(e):
    """abstract exception kind used in traces and in the spec"""
    global _K
    if _K is None:
        _K = _kinds()
    cls = e if isinstance(e, type) else type(e)
    for c, name in _K:
        if issubclass(cls, c):
            return name
    tag = getattr(e, "verif_kind", None)
    if tag:
        return tag
    return "Err:" + cls.__name__


class DevErr(Exception):
    """exception raised by fake devices on scripted faults"""
    verif_kind = "DevErr"


class PlanErr(Exception):
    """exception raised by instrumented plans"""
    verif_kind = "PlanErr"


class Recorder:
    def __init__(self):
        self.events = []
        self.lock = threading.Lock()
        self.frozen = False
        self._mids = {}
        self._keep = []
        self.run_ord = {}        # run_start uid -> ordinal
        self.desc = {}           # descriptor uid -> (stream, run ordinal)
        self.key_names = {}      # python run key -> name of the key in the program (option run_key_wrapper)
        self.latest_desc = {}    # (run ordinal, stream) -> uid of the latest descriptor of that stream
        self.docs = []           # raw (name, doc) for property-specific oracles
        self.sched = []          # scheduling info (not part of the trace)
        self.groups = {}         # group names -> canonical g<n> (built-in plans use random group names)
        self._uids = set()

    def ev(self, k, s1="", s2="", s3="", n1=0, n2=0, s4=""):
        with self.lock:
            if self.frozen:
                return      # after a `hang` the execution is torn down by the harness: nothing of that is the engine's behaviour
            self.events.append([k, str(s1), str(s2), str(s3), str(s4), int(n1), int(n2)])
            if k == "hang":
                self.frozen = True

    # ---- hooks ----
    def msg_hook(self, msg):
        i = id(msg)
        if i not in self._mids:
            self._mids[i] = len(self._mids) + 1
            self._keep.append(msg)
        obj = getattr(msg.obj, "name", "") if msg.obj is not None else ""
        if msg.command == "declare_stream" and msg.args:
            obj = getattr(msg.args[0], "name", "")          # Msg('declare_stream', None, *objs, name=...): (one object here)
        run = "" if msg.run is None else self.key_names.get(msg.run, str(msg.run)) if isinstance(msg.run, int) else str(msg.run)
        a = msg_arg(msg)
        if msg.command in GROUP_CMDS and a != "":
            a = self.groups.setdefault(a, f"g{len(self.groups) + 1}")
        self.ev("msg", msg.command, obj, run, self._mids[i], 0, a)

    def state_hook(self, new, old):
        self.ev("state", str(old), str(new))

    def _flag(self, name, doc):
        """observed validity of a document: schema-valid and uid not seen before ('' = fine)"""
        flag = ""
        try:
            import event_model
            event_model.schema_validators[event_model.DocumentNames[name]].validate(doc)
        except Exception:  # noqa
            flag = "invalid"
        uid = doc.get("uid")
        for u in (uid if isinstance(uid, list) else [uid]):       # (an event_page carries one uid per row)
            if u is not None:
                if u in self._uids:
                    flag = "dupuid"
                self._uids.add(u)
        return flag

    def devmask(self, keys):
        """the set of devices whose data keys make up `keys`, as a decimal bit mask over DEV_ORDER ('x' if the keys are not
        exactly a union of whole devices)"""
        keys = set(keys)
        mask, covered = 0, set()
        for i, d in enumerate(DEV_ORDER):
            dk = DEV_KEYS.get(d, set())
            if dk and dk <= keys:
                mask |= 1 << i
                covered |= dk
        return str(mask) if covered == keys else "x"

    def doc_cb(self, name, doc):
        with self.lock:
            self.docs.append((name, doc))
        flag = self._flag(name, doc)
        if name == "start":
            self.run_ord[doc["uid"]] = len(self.run_ord) + 1
            self.ev("doc", "start", "", "", 0, self.run_ord[doc["uid"]], flag)
        elif name == "descriptor":
            ro = self.run_ord.get(doc["run_start"], 0)
            self.desc[doc["uid"]] = (doc.get("name", ""), ro)
            self.latest_desc[(ro, doc.get("name", ""))] = doc["uid"]
            self.ev("doc", "descriptor", doc.get("name", ""), "", 0, ro, flag)
            self.ev("dsc", doc.get("name", ""), self.devmask(doc.get("data_keys", {})), "", 0, ro)
            for obj, c in sorted((doc.get("configuration") or {}).items()):
                for k, v in sorted((c.get("data") or {}).items()):
                    if k == obj + "_cfg":
                        self.ev("cfg", doc.get("name", ""), obj, "", int(v), ro)
        elif name == "event":
            stream, ro = self.desc.get(doc["descriptor"], ("?", 0))
            if not flag and self.latest_desc.get((ro, stream), doc["descriptor"]) != doc["descriptor"]:
                flag = "olddesc"        # C16: the stream has been described again since (e.g. after a configure)
            self.ev("doc", "event", stream, "", doc["seq_num"], ro, flag)
            import hashlib
            items = sorted((k, repr(v)) for k, v in doc.get("data", {}).items())
            dig = hashlib.sha1(repr(items).encode()).hexdigest()[:8]
            self.ev("dat", stream, dig, self.devmask(doc.get("data", {})), doc["seq_num"], ro)
        elif name == "stop":
            ro = self.run_ord.get(doc["run_start"], 0)
            # reason class: "" none | "req" the reason the harness hands to RE.abort() | "exc" any other text
            rs = doc.get("reason") or ""
            self.ev("doc", "stop", "" if not rs else "req" if rs == ABORT_REASON else "exc", doc.get("exit_status", ""), 0, ro, flag)
            for stream, n in sorted((doc.get("num_events") or {}).items()):
                self.ev("nev", stream, "", "", n, ro)
        elif name == "event_page":
            stream, ro = self.desc.get(doc["descriptor"], ("?", 0))
            if not flag and self.latest_desc.get((ro, stream), doc["descriptor"]) != doc["descriptor"]:
                flag = "olddesc"
            import hashlib
            for i, s in enumerate(doc["seq_num"]):
                self.ev("doc", "event", stream, "", s, ro, flag)
                items = sorted((k, repr(v[i])) for k, v in doc.get("data", {}).items())
                dig = hashlib.sha1(repr(items).encode()).hexdigest()[:8]
                self.ev("dat", stream, dig, self.devmask(doc.get("data", {})), s, ro)
        elif name == "stream_resource":
            ro = self.run_ord.get(doc.get("run_start"), 0)
            self.ev("doc", "stream_resource", doc.get("data_key", ""), "", 0, ro)
        elif name == "stream_datum":
            stream, ro = self.desc.get(doc["descriptor"], ("?", 0))
            self.ev("doc", "stream_datum", stream, f"{doc['indices']['start']}:{doc['indices']['stop']}",
                    doc["seq_nums"]["start"], ro)
            self.ev("sdn", stream, "", "", doc["seq_nums"]["stop"], ro)
        else:
            ro = self.run_ord.get(doc.get("run_start"), 0)
            self.ev("doc", name, "", "", 0, ro)

    def tmp_consumer(self):
        """a document consumer for Msg('subscribe'): logs every document that reaches it (`tdoc`: name, run ordinal; one record per
        row of an event page, like `doc`)"""
        def consumer(name, doc):
            if name == "start":
                ro = self.run_ord.get(doc["uid"], 0)
            elif name in ("event", "event_page", "stream_datum"):
                ro = self.desc.get(doc["descriptor"], ("?", 0))[1]
            else:
                ro = self.run_ord.get(doc.get("run_start"), 0)
            if name == "event_page":
                for _ in doc["seq_num"]:
                    self.ev("tdoc", "event", "", "", 0, ro)
            else:
                self.ev("tdoc", name, "", "", 0, ro)
        return consumer

    def attach(self, RE):
        RE.msg_hook = self.msg_hook
        RE.state_hook = self.state_hook
        RE.subscribe(self.doc_cb)

    # ---- instrumented main plan ----
    def wrap_plan(self, gen, describe=None, log_cmd=False, log_run=None):
        """transparent logging wrapper around the main plan generator: logs what every resume delivered and how the
        plan reacted.  `describe(value)` abstracts a sent value."""
        describe0 = describe or describe_value
        rec = self

        def describe(v):
            d = describe0(v)
            # a string that is the uid of a document that is not a RunStart (open_run / close_run answer with the run's uid)
            if d == "str" and v in rec._uids and v not in rec.run_ord:
                return "str:uid-of-another-document"
            return d

        def wrapped():
            inp, val = "send", "None"
            to_send, to_throw = None, None
            while True:
                try:
                    if to_throw is not None:
                        m = gen.throw(to_throw)
                    else:
                        m = gen.send(to_send)
                except StopIteration as e:
                    rec.ev("gen", inp, val, "return")
                    return e.value
                except BaseException as e:  # noqa
                    rec.ev("gen", inp, val, "raise:" + exc_kind(e))
                    raise
                # log_cmd: the yielded command is logged too (scenarios in which a preprocessor may drop the message before the
                # engine sees it: the monitors then know what the plan is waiting for)
                # log_run: {python run key the plan uses: index of the run key the message is meant for} (1 = "", 2 = "k1", 3 = "k2")
                rec.ev("gen", inp, val, "yield", s4=(getattr(m, "command", "") if log_cmd else ""),
                       n1=(log_run.get(getattr(m, "run", None), 0) if log_run else 0))
                to_send, to_throw = None, None
                try:
                    to_send = yield m
                    inp, val = "send", describe(to_send)
                    if getattr(m, "command", "") == "subscribe" and type(to_send) is int:
                        val = "token"       # the subscription token (its number depends on who subscribed before)
                except GeneratorExit as ge:
                    if type(ge) is not GeneratorExit:      # PlanHalt (thrown by the engine), not close()
                        to_throw = ge
                        inp, val = "throw", exc_kind(ge)
                        continue
                    # close(): forward, log the reaction
                    try:
                        gen.close()
                    except BaseException as e2:  # noqa
                        rec.ev("gen", "close", "", "raise:" + exc_kind(e2))
                        raise
                    rec.ev("gen", "close", "", "closed")
                    raise
                except BaseException as e:  # noqa
                    to_throw = e
                    inp, val = "throw", exc_kind(e)

        return wrapped()


def msg_arg(msg):
    """the one abstract argument of a message the specification looks at"""
    c = msg.command
    kw = msg.kwargs
    if c in ("create", "monitor", "declare_stream"):
        return str(kw.get("name", msg.args[0] if msg.args else ""))
    if c == "close_run":
        return str(kw.get("exit_status") or "")
    if c in ("set", "trigger", "stage", "unstage", "kickoff", "complete", "prepare"):
        g = kw.get("group")
        return "" if g is None else str(g)
    if c == "wait":
        g = msg.args[0] if msg.args else kw.get("group")
        return "" if g is None else str(g)
    if c == "rewindable":
        v = msg.args[0] if msg.args else None
        return "" if v is None else ("T" if v else "F")
    if c == "pause":
        return "T" if kw.get("defer", msg.args[0] if msg.args else False) else "F"
    if c in ("install_suspender", "remove_suspender"):
        return SUS_NAMES.get(id(msg.args[0]), "") if msg.args else ""
    if c in ("wait_for", "_start_suspender"):
        return getattr(msg, "_verif_fut", "") or FUT_NAMES.get(_fut_key(msg), "")
    return ""


DEV_ORDER = ["det", "det2", "mon1", "motor", "motor2", "pdet", "amotor", "apdet", "fly1", "fly2", "npdet"]          # = DevOrderDef of the trace configurations
DEV_KEYS = {"det": {"det"}, "det2": {"det2"}, "mon1": {"mon1"}, "motor": {"motor", "motor_setpoint"},
            "motor2": {"motor2", "motor2_setpoint"}, "pdet": {"pdet"}, "amotor": {"amotor", "amotor_setpoint"}, "apdet": {"apdet"}, "fly1": {"fly1_x"}, "fly2": {"fly2_x"}, "npdet": {"npdet"}}
GROUP_CMDS = ("set", "trigger", "stage", "unstage", "kickoff", "complete", "prepare", "wait")
ABORT_REASON = "verif: the operator asked for an abort"      # what the harness passes to RE.abort(reason)
SUS_NAMES = {}     # id(suspender object) -> name, registered by the scenario runner
FUT_NAMES = {}     # id(awaitable factory) -> name, registered by the scenario runner


def _fut_key(msg):
    try:
        if msg.command == "wait_for":
            return id(msg.args[0][0])
        return id(msg.args[3])
    except Exception:  # noqa
        return None


def describe_value(v):
    """abstract a response sent into the plan"""
    if v is None:
        return "None"
    if isinstance(v, bool):
        return f"bool:{v}"
    if isinstance(v, str):
        return "str"
    if isinstance(v, int):
        return f"int:{v}"
    if isinstance(v, (list, tuple)):
        return f"seq:{len(v)}"
    if isinstance(v, dict):
        return "dict:" + ",".join(sorted(map(str, v)))
    if hasattr(v, "sid"):
        return "status"
    if isinstance(v, type):
        return "type:" + v.__name__
    return type(v).__name__
