CONSTANTS
  Streams = {"primary", "baseline", "mon", "aux", "a", "b", "other"}
  Keys = {"primary", "avg", "copy"}
  MaxEvents = 100000
  MaxFree = 100000
  MaxDesc = 100000
  MaxRuns = 100000
  Keyings = {"free"}
  NameBys = {"raw", "key"}
  Choice = "both"
SPECIFICATION TraceSpec
INVARIANT C39_SeqPerStream
INVARIANT C39_NumEvents
PROPERTY C39_EventNumbered
PROPERTY C39_StopCounts
PROPERTY C39_DescriptorFirst
PROPERTY C39_RunsIndependent
POSTCONDITION TraceAccepted
