"""Helpers for C29 (adaptive_scan / tune_centroid) and C44 (PeakStats).

* fake detector / motor implementing only the bluesky protocols the plans need
* `drive`: runs a REAL plan generator by answering its messages by hand (the detector's reading follows a script
  or a response function of the motor position); `drive_re`: the same on a real RunEngine
* conversion of the BigNat rationals printed by spec/adaptive/Adaptive.tla, the trie of TLC histories, and the
  co-simulation of an implementation run against that trie
* seeded response functions and parameter generators; fixed-point trace records for AdaptiveTrace.tla
"""
from __future__ import annotations

import math
import random
from fractions import Fraction

SC = 10 ** 6
BASE = 10000


# --------------------------------------------------------------------------
# devices
# --------------------------------------------------------------------------
class DoneStatus:
    done = True
    success = True

    def add_callback(self, cb):
        cb(self)

    def exception(self, timeout=None):
        return None

    def wait(self, timeout=None):
        return None


class Det:
    """detector: the value is decided when it is triggered (script or response function)"""
    parent = None

    def __init__(self, name="det"):
        self.name = name
        self.value = 0

    def trigger(self):
        return DoneStatus()

    def read(self):
        return {self.name: {"value": self.value, "timestamp": 0.0}}

    def describe(self):
        return {self.name: {"source": "verif", "dtype": "number", "shape": []}}


class Mot:
    """motor: reads back exactly the set point; ledger of all set points"""
    parent = None

    def __init__(self, name="motor"):
        self.name = name
        self.hints = {"fields": [name]}
        self.position = 0.0
        self.ledger = []

    def set(self, v):
        self.position = v
        self.ledger.append(v)
        return DoneStatus()

    def read(self):
        return {self.name: {"value": self.position, "timestamp": 0.0}}

    def describe(self):
        return {self.name: {"source": "verif", "dtype": "number", "shape": []}}

    def stop(self, success=True):
        pass


class Run:
    """outcome of one execution of a plan"""

    def __init__(self):
        self.visits = []      # [x, I]  (I None: position set, script exhausted before the reading)
        self.park = None      # final move not followed by a reading
        self.status = None    # 'done' | 'cut' (script exhausted) | 'cap' (iteration cap hit) | 'raised:<type>'
        self.error = None

    @property
    def xs(self):
        return [v[0] for v in self.visits]


def make_plan(kind, det, mot, p):
    import bluesky.plans as bp
    if kind == "adaptive":
        return bp.adaptive_scan([det], det.name, mot, p["start"], p["stop"], p["min"], p["max"], p["target"],
                                p["backstep"], p.get("thr", 0.8))
    return bp.tune_centroid([det], det.name, mot, p["start"], p["stop"], p["min"], num=p["num"],
                            step_factor=p["sf"], snake=p["snake"])


class _CheapTraceback:
    """bluesky.utils.Plan records traceback.format_stack() for EVERY plan stub it wraps (only used for the
    'plan was never iterated' warning); that is ~80% of the cost of a hand-driven run.  While a plan is driven by
    hand the module-level name `traceback` inside bluesky.utils is replaced by this shim (no plan logic involved);
    executions on the RunEngine (drive_re) run without it."""

    @staticmethod
    def format_stack(*a, **k):
        return ["", ""]


class cheap_plan_wrappers:
    def __enter__(self):
        import bluesky.utils as bu
        self.bu, self.saved = bu, bu.traceback
        bu.traceback = _CheapTraceback
        return self

    def __exit__(self, *exc):
        self.bu.traceback = self.saved
        return False


def drive(kind, p, *, script=None, fn=None, cap=100000):
    """Run the real plan generator answering its messages by hand.
    script: list of readings (one per visit); fn(x, k): reading at position x on visit k."""
    with cheap_plan_wrappers():
        return _drive(kind, p, script, fn, cap)


def _drive(kind, p, script, fn, cap):
    det, mot = Det(), Mot()
    run = Run()
    try:
        gen = make_plan(kind, det, mot, p)
    except Exception as ex:        # argument validation
        run.status = f"raised:{type(ex).__name__}"
        run.error = ex
        return run
    pending = None
    resp = None
    try:
        while True:
            m = gen.send(resp)
            resp = None
            c = m.command
            if c == "set":
                mot.set(m.args[0])
                pending = m.args[0]
                resp = DoneStatus()
            elif c == "trigger":
                if m.obj is det:
                    k = len(run.visits)
                    if k >= cap:
                        run.status = "cap"
                        gen.close()
                        return run
                    if script is not None:
                        if k >= len(script):
                            run.visits.append([pending, None])
                            run.status = "cut"
                            gen.close()
                            return run
                        det.value = script[k]
                    else:
                        det.value = fn(mot.position, k)
                    run.visits.append([pending, det.value])
                    pending = None
                resp = DoneStatus()
            elif c == "read":
                resp = m.obj.read()
    except StopIteration:
        run.status = "done"
        run.park = pending
    except Exception as ex:
        run.status = f"raised:{type(ex).__name__}"
        run.error = ex
    return run


_RE = {}


def drive_re(kind, p, fn, cap=100000):
    """the same on a real RunEngine (fake devices); the visit list comes from the devices' own ledgers"""
    import asyncio
    from bluesky import RunEngine
    from bluesky.utils import DuringTask
    if "loop" not in _RE:
        _RE["loop"] = asyncio.new_event_loop()
    RE = RunEngine({}, loop=_RE["loop"], context_managers=[], during_task=DuringTask())
    det, mot = Det(), Mot()
    run = Run()
    state = {"pending": None}
    orig_set, orig_trig = mot.set, det.trigger

    class Cap(Exception):
        pass

    def mset(v):
        state["pending"] = v
        return orig_set(v)

    def trig():
        k = len(run.visits)
        if k >= cap:
            raise Cap()
        det.value = fn(mot.position, k)
        run.visits.append([state["pending"], det.value])
        state["pending"] = None
        return orig_trig()

    mot.set, det.trigger = mset, trig
    try:
        RE(make_plan(kind, det, mot, p))
        run.status = "done"
        run.park = state["pending"]
    except Cap:
        run.status = "cap"
    except Exception as ex:
        run.status = f"raised:{type(ex).__name__}"
        run.error = ex
    return run


# --------------------------------------------------------------------------
# TLC histories (Adaptive.tla) -> exact positions -> trie -> co-simulation
# --------------------------------------------------------------------------
def big(limbs):
    v = 0
    for d in reversed(limbs):
        v = v * BASE + d
    return v


def hist_positions(kind, consts, h):
    """exact visited positions (Fractions, absolute coordinates) of one dumped history"""
    den = consts["Den"]
    s0 = Fraction(consts["StopN"] if h["opt"]["flip"] else consts["StartN"], den)
    e0 = Fraction(consts["StartN"] if h["opt"]["flip"] else consts["StopN"], den)
    d = 1 if e0 >= s0 else -1
    out = []
    for e in h["hist"]:
        v = Fraction(big(e["n"]), den * big(e["m"]))
        out.append(s0 + d * v if kind == "adaptive" else v)
    park = None
    if h["parked"]["set"]:
        park = Fraction(big(h["parked"]["n"]), den * big(h["parked"]["m"]))
    return out, park


def params_of(kind, consts, opt):
    den = consts["Den"]
    a, b = consts["StartN"] / den, consts["StopN"] / den
    if opt["flip"]:
        a, b = b, a
    p = {"start": a, "stop": b, "min": consts["MinStepN"] / den}
    if kind == "adaptive":
        p.update(max=consts["MaxStepN"] / den, target=consts["TargetN"] / den, backstep=opt["backstep"],
                 thr=consts["ThrN"] / consts["ThrD"])
    else:
        p.update(num=consts["Num"], sf=consts["SfN"] / consts["SfD"], snake=opt["snake"])
    return p


def opt_key(opt):
    """options that select the implementation run; bsdir (documented / as-coded backward step) is NOT one of them:
    the specification allows either, so both variants share one trie"""
    return (opt["flip"], opt["backstep"], opt["snake"])


class Node:
    __slots__ = ("done", "park", "cut", "visits")

    def __init__(self):
        self.done = False      # the specification may terminate here
        self.park = []         # final positions (None: no final move) of the terminating histories
        self.cut = False       # exploration bound reached: what follows is unknown
        self.visits = {}       # exact position -> {reading -> Node}


def build_trie(kind, consts, hists, max_iter):
    """one trie per option record; key = tuple of sorted option items"""
    tries = {}
    for h in hists:
        key = opt_key(h["opt"])
        node = tries.setdefault(key, Node())
        xs, park = hist_positions(kind, consts, h)
        for x, e in zip(xs, h["hist"]):
            node = node.visits.setdefault(x, {}).setdefault(e["I"], Node())
        if h["done"]:
            node.done = True
            node.park.append(park)
        if len(h["hist"]) >= max_iter:
            node.cut = True
    return tries


def cosimulate(root, run, tol):
    """Follow an implementation run through the trie of specified behaviours.
    Returns None if every step of the run is a step the specification allows, else a description."""
    node = root
    for k, (x, I) in enumerate(run.visits):
        if node.cut and not node.visits:
            return None                      # beyond the exploration bound
        match = [px for px in node.visits if abs(float(px) - float(x)) <= tol]
        if not match:
            exp = sorted(float(px) for px in node.visits)
            return f"visit {k + 1} at {float(x)!r}: the specification allows {exp if exp else 'only termination'} here"
        if I is None:
            return None
        nxt = node.visits[match[0]].get(I)
        if nxt is None:
            return None                      # reading outside the enumerated set / bound
        node = nxt
    if run.status == "done":
        if node.cut and not node.done and not node.visits:
            return None
        if not node.done:
            if node.cut:
                return None
            exp = sorted(float(px) for px in node.visits)
            return f"terminated after {len(run.visits)} visits where the specification continues at {exp}"
        ok = False
        for pk in node.park:
            if pk is None and run.park is None:
                ok = True
            elif pk is not None and run.park is not None and abs(float(pk) - float(run.park)) <= tol:
                ok = True
        if not ok:
            return f"final move {run.park!r} but the specification parks at {[None if q is None else float(q) for q in node.park]}"
    return None


# --------------------------------------------------------------------------
# response functions (seeded), parameters
# --------------------------------------------------------------------------
FAMILIES = ("smooth", "noisy", "step", "constant", "peaked")


def response(family, rng, lo, hi):
    """integer-valued (counts, 0..1000) response function fn(x, k) on [lo, hi]; deterministic given rng"""
    span = hi - lo
    c = rng.uniform(lo - 0.2 * span, hi + 0.2 * span)
    amp = rng.choice([3, 20, 200, 1000])
    if family == "constant":
        v = rng.choice([0, 1, 7, 1000])
        return lambda x, k: v
    if family == "step":
        a, b = rng.randint(0, amp), rng.randint(0, amp)
        return lambda x, k: a if x < c else b
    if family == "peaked":
        w = span * rng.choice([0.002, 0.01, 0.05])
        return lambda x, k: int(round(amp / (1.0 + ((x - c) / w) ** 2)))
    w = span * rng.uniform(0.1, 0.6)
    kind = rng.choice(["gauss", "sigmoid", "sine"])
    if kind == "gauss":
        f = lambda x: amp * math.exp(-0.5 * ((x - c) / w) ** 2)          # noqa: E731
    elif kind == "sigmoid":
        f = lambda x: amp / (1.0 + math.exp(-(x - c) / (0.2 * w)))         # noqa: E731
    else:
        f = lambda x: amp * 0.5 * (1 + math.sin((x - c) / w * 3))         # noqa: E731
    if family == "smooth":
        return lambda x, k: int(round(f(x)))
    seed = rng.randrange(1 << 30)
    noise = max(1.0, 0.1 * amp)

    def noisy(x, k):
        r = random.Random(seed * 1000003 + k)
        return min(1000, max(0, int(round(f(x) + r.gauss(0, noise)))))
    return noisy


def q(x, digits=3):
    return round(x, digits)


def random_params(kind, rng):
    start = q(rng.uniform(-50, 50))
    length = q(rng.choice([0.5, 2, 5, 20]) * rng.uniform(0.5, 1.0))
    stop = q(start + length) if rng.random() < 0.5 else q(start - length)
    if kind == "adaptive":
        mn = q(abs(stop - start) / rng.choice([8, 20, 60]))
        mx = q(mn * rng.choice([1.5, 3, 10, 30]))
        return {"start": start, "stop": stop, "min": max(mn, 0.005), "max": max(mx, 0.012),
                "target": q(rng.choice([0.5, 2, 10, 60])), "backstep": rng.random() < 0.6,
                "thr": rng.choice([0.5, 0.8, 0.9])}
    num = rng.randint(3, 12)
    return {"start": start, "stop": stop, "min": max(0.005, q(abs(stop - start) / (num - 1) / rng.choice([2, 10, 40]))),
            "num": num, "sf": rng.choice([1.5, 2.0, 3.0, 4.0]), "snake": rng.random() < 0.5}


def bound(kind, p):
    """iteration bound of Adaptive.tla (AS_Bound / TC_Bound) for float parameters"""
    L = abs(p["stop"] - p["start"])
    if kind == "adaptive":
        s0 = (p["max"] - p["min"]) / 2
        m0 = min(p["min"], s0)
        K = int(math.floor(math.log(p["max"] / p["min"]) / math.log(1 / p["thr"]) + 1e-9)) if p["thr"] < 1 else 0
        return (math.ceil((L + s0) / m0 - 1e-9) + 1) * (K + 2) + K + 1
    step0 = L / (p["num"] - 1)
    passes = 0
    while step0 >= p["min"] * (1 - 1e-9):
        passes += 1
        step0 /= p["sf"]
    return p["num"] * (passes + 1)


def fx(v):
    return int(round(v * SC))


def trace_record(kind, p, run, nonneg=True):
    """fixed-point record for AdaptiveTrace.tla"""
    P = {"start": fx(p["start"]), "stop": fx(p["stop"]), "min": fx(p["min"]), "max": fx(p.get("max", 0)),
         "target": fx(p.get("target", 0)), "thr": fx(p.get("thr", 0)), "backstep": bool(p.get("backstep", False)),
         "snake": bool(p.get("snake", False)), "num": int(p.get("num", 2)), "sf": fx(p.get("sf", 2.0)),
         "nonneg": bool(nonneg)}
    return {"plan": kind, "p": P, "ev": [{"x": fx(x), "I": int(I)} for x, I in run.visits if I is not None],
            "done": run.status == "done",
            "park": {"set": run.park is not None, "x": fx(run.park) if run.park is not None else 0}}


def validate_traces(module, cfg, traces, spec_dir, out_dir, tag="trace", timeout=1800, java_opts=None):
    """harness.tracecheck.validate_traces with JVM options (batch scheme: one JSON value per line, REJECTED lines)"""
    import json
    import re
    from harness.tlc import run_tlc
    from harness.tracecheck import TraceVerdict
    tf = out_dir / f"{tag}.ndjson"
    with open(tf, "w") as fh:
        for t in traces:
            fh.write(json.dumps(t) + "\n")
    res = run_tlc(module, cfg, spec_dir=spec_dir, env={"TRACE_FILE": str(tf)}, workers=1, tag=tag, timeout=timeout,
                  java_opts=java_opts)
    v = TraceVerdict(ok=res.ok, res=res)
    for m in re.finditer(r'<<"REJECTED", (\d+), (\d+)>>', res.stdout):
        v.rejected[int(m.group(1)) - 1] = int(m.group(2)) - 1
    if res.violated and res.kind in ("invariant", "action"):
        v.invariant = res.violated
        if res.trace:
            st = res.trace[-1][1]
            v.inv_state = st
            if "tid" in st:
                v.inv_trace_index = st["tid"] - 1
    elif res.violated and not v.rejected and res.kind != "postcondition":
        v.invariant = res.violated
    return v


# --------------------------------------------------------------------------
# C44: the real PeakStats callback fed with documents
# --------------------------------------------------------------------------
def peakstats_run(xs, ys, edge=None, other=None):
    """start / descriptor / event... / stop through bluesky.callbacks.fitting.PeakStats; returns its attributes.
    other: "mot" | "det" -- the run also has a second stream (baseline-like) whose events carry only that one of the two
    fields, before, between and after the data points: they are not data PeakStats was given for (x, y)"""
    import warnings
    from bluesky.callbacks.fitting import PeakStats
    ps = PeakStats("mot", "det", edge_count=edge)
    nb = [0]

    def extra():
        if other:
            nb[0] += 1
            ps("event", {"uid": f"b{nb[0]}", "descriptor": "descb", "seq_num": nb[0], "time": 0.5,
                         "data": {other: 977.0 + nb[0]}, "timestamps": {other: 0.0}})
    with warnings.catch_warnings():
        warnings.simplefilter("ignore")
        ps("start", {"uid": "run", "time": 0.0, "scan_id": 1})
        ps("descriptor", {"uid": "desc", "run_start": "run", "time": 0.0, "name": "primary",
                          "data_keys": {"mot": {"source": "v", "dtype": "number", "shape": []},
                                        "det": {"source": "v", "dtype": "number", "shape": []}}})
        if other:
            ps("descriptor", {"uid": "descb", "run_start": "run", "time": 0.0, "name": "baseline",
                              "data_keys": {other: {"source": "v", "dtype": "number", "shape": []}}})
        extra()
        for i, (a, b) in enumerate(zip(xs, ys)):
            ps("event", {"uid": f"ev{i}", "descriptor": "desc", "seq_num": i + 1, "time": float(i),
                         "data": {"mot": a, "det": b}, "timestamps": {"mot": 0.0, "det": 0.0}})
            if i == 0:
                extra()
        extra()
        ps("stop", {"uid": "stop", "run_start": "run", "time": 1.0, "exit_status": "success"})

    def num(v):
        return None if v is None else float(v)
    return {"max": None if ps.max is None else (float(ps.max[0]), float(ps.max[1])),
            "min": None if ps.min is None else (float(ps.min[0]), float(ps.min[1])),
            "com": num(ps.com), "cen": num(ps.cen),
            "crossings": None if ps.crossings is None else [float(v) for v in ps.crossings],
            "fwhm": num(ps.fwhm),
            "lin_bkg": None if ps.lin_bkg is None else (float(ps.lin_bkg["m"]), float(ps.lin_bkg["b"]))}
