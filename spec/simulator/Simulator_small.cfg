CONSTANTS
  Cmds = {"stage", "unstage"}
  Objs = {"x", "y"}
  HA = 2
  PA = 2
  HB = 3
  PB = 1
  BCmds = {"unstage"}
  BObjs = {"x"}
  HC = 1
  PC = 3
  LimPlan = 2
  LimR = 1
  SetR = 2
SPECIFICATION Spec
INVARIANT TypeOK
INVARIANT C32_MessagesReturned
INVARIANT C32_MatchingHandlerAnswers
INVARIANT C32_NewestWins
INVARIANT C32_AppendedLoses
INVARIANT C32_PrependedOverridesOlder
INVARIANT C32_ReturnRecorded
INVARIANT C32_LimitsRaiseIffOffending
POSTCONDITION DumpCases
