CONSTANTS
  Fns = {"f", "g"}
  Sigs = {"start", "stop"}
  MaxOps = 6
  MaxTok = 4
  RefCount = TRUE
SPECIFICATION Spec
INVARIANT TypeOK
INVARIANT C18_DeliveryMatchesLiveTokens
INVARIANT C18_TempDropped
PROPERTY C18_TempDroppedAtCall
PROPERTY C18_OnlyOwnToken
