------------------------ MODULE LiveDispatcherTrace ------------------------
(* Batch validation of re-emitted document streams recorded from real        *)
(* LiveDispatcher (sub)classes against LiveDispatcher.tla.                    *)
(* TRACE_FILE: ndjson, one trace per line = sequence of steps                 *)
(*   [op, key, name, d, newdesc, ename, seq, ne]                              *)
(* op = "start" | "proc" | "stop".  For "proc": key/name/d identify the       *)
(* process_event call (stream_name argument, name of the raw descriptor,      *)
(* identity of the output descriptor configuration); ename/seq are OBSERVED   *)
(* on the emitted documents (the name carried by the descriptor the emitted   *)
(* event refers to -- "?" if it refers to none emitted in this run --, its    *)
(* seq_num; newdesc = a descriptor was emitted first: recorded, not judged,   *)
(* the statement does not forbid redundant descriptors).  For "stop": ne =    *)
(* the emitted num_events as a list of [stream, n].                           *)
(* Every step must be a step of the specification with exactly the observed   *)
(* outputs; Choice = "both" in the config, so the as-found alternatives of    *)
(* KF-C39-1/2 are accepted but recorded (register Len(Traces)+tid: 1 = none,  *)
(* +1 = as-found numbering, +2 = as-found tally) and printed.                 *)
EXTENDS LiveDispatcher, IOUtils

Traces == ndJsonDeserialize(IOEnv.TRACE_FILE)

\* The constants Streams and Keys must contain every stream name / key occurring in the file: the harness writes the
\* config (LiveDispatcherTrace.cfg is an example for manual use).

VARIABLES tid, l
tvars == <<vars, tid, l>>

NT == Len(Traces)
Code(s) == 1 + (IF "seq" \in s THEN 1 ELSE 0) + (IF "tally" \in s THEN 2 ELSE 0)

TraceInit == /\ Init
             /\ tid \in 1..NT
             /\ l = 1
             /\ TLCSet(tid, 1)
             /\ TLCSet(NT + tid, 1)

Ev == Traces[tid][l]
Pairs(ne) == {<<ne[j][1], ne[j][2]>> : j \in {k \in 1..Len(ne) : ne[k][2] > 0}}

Step ==
    \/ Ev.op = "start" /\ Start
    \/ /\ Ev.op = "proc"
       /\ Proc(Ev.key, Ev.name, Ev.d)
       /\ out'.ename = Ev.ename /\ out'.seq = Ev.seq
    \/ Ev.op = "stop" /\ Stop /\ out'.ne = Pairs(Ev.ne)

TraceNext == /\ l <= Len(Traces[tid])
             /\ Step
             /\ l' = l + 1
             /\ UNCHANGED tid
             /\ TLCSet(tid, IF TLCGet(tid) > l + 1 THEN TLCGet(tid) ELSE l + 1)
             /\ TLCSet(NT + tid, Code(seen'))

TraceSpec == TraceInit /\ [][TraceNext]_tvars

Bad == {t \in 1..NT : TLCGet(t) # Len(Traces[t]) + 1}
TraceAccepted ==
    /\ \A t \in 1..NT : TLCGet(NT + t) > 1 => PrintT(<<"KFSEEN", t, TLCGet(NT + t)>>)
    /\ \A t \in Bad : PrintT(<<"REJECTED", t, TLCGet(t)>>)      \* all of them (PrintT is TRUE)
    /\ Bad = {}
=============================================================================
