"""development aid: run a slice of the RunEngine corpus (scenario ids matching a regex) and print the monitors' tags.
usage: python -m harness.slice <tier> <regex> [--conf]"""
import re
import sys
from harness import recore
from harness.core import OUT


def main():
    tier, rx = sys.argv[1], sys.argv[2]
    c = recore.build_corpus(tier, only=rx)
    tr = [t for t in c["traces"] if re.search(rx, t["id"])]
    d = OUT / "slice"
    d.mkdir(parents=True, exist_ok=True)
    pv, _ = recore.monitor_many([t["events"] for t in tr], d, "m")
    seen = {}
    for i, tags, reqs in pv:
        for tag in tags:
            seen.setdefault(recore.signature(tag, reqs) + recore.sig_suffix(tr[i]), []).append(tr[i]["id"])
    from harness.core import load_findings
    kfs = [f for f in load_findings() if f["status"] == "open"]
    for s, ids in sorted(seen.items()):
        sa = s
        kf = [f["id"] for f in kfs if re.fullmatch(f["sig_regex"], sa)]
        if "--all" in sys.argv or not kf:
            print(len(ids), s, kf or "UNKNOWN", "e.g.", ids[0])
    print(f"{len(tr)} traces, {len(seen)} distinct signatures")
    if "--conf" in sys.argv:
        rej, _, _, _ = recore.validate_many([t["events"] if t.get("conf", True) else [] for t in tr], "full", d, "v")
        for k, upto in sorted(rej.items()):
            ev = [e for e in tr[k]["events"] if e[0] in recore.PROJECTIONS["full"]]
            print("REJECTED", tr[k]["id"], upto, len(ev), ev[upto] if upto < len(ev) else "END")
        print(f"{len(rej)} rejected")


if __name__ == "__main__":
    main()
