"""C32 -- the plan simulator replays plans faithfully; check_limits raises exactly for out-of-limits sets.

spec/simulator/Simulator.tla models RunEngineSimulator's handler list (add_handler with insertion index, first
matching handler of the list answers), simulate_plan (returned messages, values sent into the yields, recorded
return value) and check_limits (walk over the plan, check_value for every set on a Checkable device).  TLC checks
the statement's invariants on every case of the bounded domain and writes the cases out; every case is replayed on
the real RunEngineSimulator / check_limits / check_limits_async; random larger cases (reactive plans, more
handlers, falsy handler results, wider limits) recorded from the implementation are validated by TLC
(SimulatorTrace).
"""
import json
import random
import warnings
from concurrent.futures import ThreadPoolExecutor

from harness.tlc import run_tlc, tojson, SPEC

SD = SPEC / "simulator"
DESIGN_REF = "DESIGN.md section 7 (C32)"
END = 99

# handler result codes <-> python values returned by the handlers (0 is reserved for None = nothing sent)
RESULTS = {1: 1, 2: "two", 3: {"three": 3}, 4: (4,), 5: 5.0, 10: 0, 11: False, 12: "", 13: [], 14: {}}


def enc_result(x):
    for k, v in RESULTS.items():
        if type(x) is type(v) and x == v:
            return k
    return 0 if x is None else 98


class Dev:
    def __init__(self, name):
        self.name = name

    def __repr__(self):
        return f"Dev({self.name})"


class LimitError(Exception):
    pass


class Lim(Dev):
    """Checkable (synchronous check_value)"""

    def __init__(self, name, lo, hi):
        super().__init__(name)
        self.lo, self.hi = lo, hi

    def check_value(self, v):
        if not (self.lo <= v <= self.hi):
            raise LimitError(self.name, v)


class LimAsync(Lim):
    """Checkable (coroutine check_value)"""

    async def check_value(self, v):
        if not (self.lo <= v <= self.hi):
            raise LimitError(self.name, v)


# ---- simulate_plan ---------------------------------------------------------------------------------------------
def run_sim(hs, script, flavor=0, reactive=None):
    """Execute one case on a real RunEngineSimulator.
    hs: add_handler operations [cmds, flt, idx, res]; script: messages [cmd, obj, val] (static plan) or, with
    reactive = function(step, last_code) -> message or None, a plan that chooses its next message from the answer.
    Returns dict(plan, msgs, sent, ret) as observed."""
    from bluesky import Msg
    from bluesky.simulators import RunEngineSimulator
    sim = RunEngineSimulator()
    objs = {}

    def obj(name):
        if name == "none":
            return None
        if name not in objs:
            objs[name] = Dev(name)
        return objs[name]

    for k, h in enumerate(hs):
        f = flavor + k
        cmds = list(h["cmds"])
        commands = cmds[0] if len(cmds) == 1 and f % 2 == 0 else (tuple(cmds) if f % 3 == 0 else cmds)
        if h["flt"] == "*":
            flt = None
        elif f % 2 == 0:
            flt = h["flt"]
        else:
            flt = (lambda name: (lambda msg: msg.obj is not None and msg.obj.name == name))(h["flt"])
        handler = (lambda r: (lambda msg: RESULTS[r]))(h["res"])
        n = len(sim.message_handlers)
        if h["idx"] == END:
            sim.add_handler(commands, handler, flt, "end" if f % 2 == 0 else n)
        elif h["idx"] == 0 and f % 2 == 0:
            sim.add_handler(commands, handler, flt)          # the default index
        else:
            sim.add_handler(commands, handler, flt, h["idx"])
    yielded, received = [], []

    def mk(m):
        msg = Msg(m["cmd"], obj(m["obj"]), len(yielded) + 1)
        yielded.append((m, msg))
        return msg

    def plan():
        got = []
        if reactive is None:
            for m in script:
                v = yield mk(m)
                got.append(v)
                received.append(v)
        else:
            code = 0
            step = 0
            while True:
                m = reactive(step, code)
                if m is None:
                    break
                v = yield mk(m)
                got.append(v)
                received.append(v)
                code = enc_result(v)
                step += 1
        return tuple(got)

    out = sim.simulate_plan(plan())
    serial = {id(msg): i + 1 for i, (m, msg) in enumerate(yielded)}
    msgs = [serial.get(id(x), 98) for x in out] if isinstance(out, list) else [98]
    rv = sim.return_value
    return {"plan": [m for m, _ in yielded], "msgs": msgs, "sent": [enc_result(v) for v in received],
            "ret": [enc_result(v) for v in rv] if isinstance(rv, tuple) else [98]}


# ---- check_limits ----------------------------------------------------------------------------------------------
_RE = {}


def drive(coro):
    """run a coroutine that never really suspends"""
    try:
        coro.send(None)
    except StopIteration:
        return
    coro.close()
    raise RuntimeError("check_limits_async suspended")


def run_limits(lims, script, flavor=0):
    """Returns (raised by check_limits_async, raised by check_limits)"""
    from bluesky import Msg
    from bluesky import simulators
    if "re" not in _RE:         # check_limits needs the bluesky event loop running
        import asyncio
        from bluesky import RunEngine
        from bluesky.utils import DuringTask
        _RE["re"] = RunEngine({}, loop=asyncio.new_event_loop(), context_managers=[], during_task=DuringTask())
    out = []
    for entry in ("async", "sync"):
        devs = {}
        for k, r in enumerate(lims):
            if r["has"]:
                devs[r["dev"]] = (Lim if (flavor + k) % 2 == 0 else LimAsync)(r["dev"], r["lo"], r["hi"])
            else:
                devs[r["dev"]] = Dev(r["dev"])
        ms = [Msg("set", devs[m["obj"]], m["val"]) if m["cmd"] == "set" else Msg(m["cmd"], devs[m["obj"]]) for m in script]
        plan = iter(ms) if flavor % 2 else ms
        with warnings.catch_warnings():
            warnings.simplefilter("ignore")
            try:
                if entry == "async":
                    drive(simulators.check_limits_async(plan))
                else:
                    simulators.check_limits(plan)
                out.append(False)
            except LimitError:
                out.append(True)
    return tuple(out)


def sim_key(c):
    return ("sim", tuple((tuple(h["cmds"]), h["flt"], h["idx"], h["res"]) for h in c["hs"]), tuple((m["cmd"], m["obj"]) for m in c["plan"]))


def lim_key(c):
    return ("limits", tuple((r["dev"], r["has"], r["lo"], r["hi"]) for r in c["lims"]), tuple((m["cmd"], m["obj"], m["val"]) for m in c["plan"]))


def matches(h, m):
    return m["cmd"] in h["cmds"] and h["flt"] in ("*", m["obj"])


def sim_nontrivial(c):
    return any(sum(matches(h, m) for h in c["hs"]) >= 2 for m in c["plan"])


def lim_nontrivial(c):
    has = {r["dev"] for r in c["lims"] if r["has"]}
    return any(m["cmd"] == "set" and m["obj"] in has for m in c["plan"])


def run(ctx):
    cfg = "Simulator_small.cfg" if ctx.quick else "Simulator_large.cfg"
    cases_file = ctx.out / "cases.ndjson"
    # random larger cases executed on the implementation first (they do not depend on TLC), so that both TLC runs
    # (exhaustive + case dump; validation of the recorded cases) can go on concurrently
    rec = record_random(ctx)
    tf = ctx.out / "impl_traces.ndjson"
    with open(tf, "w") as fh:
        for r in rec:
            fh.write(json.dumps(r) + "\n")
    with ThreadPoolExecutor(2) as ex:
        jo = ["-Xmx2g"] if ctx.quick else None        # small runs start faster with a small heap
        f1 = ex.submit(run_tlc, "Simulator", cfg, spec_dir=SD, env={"CASES_OUT": cases_file}, tag="C32", timeout=3000, java_opts=jo)
        f2 = ex.submit(run_tlc, "SimulatorTrace", "SimulatorTrace.cfg", spec_dir=SD, env={"TRACE_FILE": tf}, tag="C32t", timeout=3000, java_opts=jo)
        res, rest = f1.result(), f2.result()
    ctx.add_tlc(res, "Simulator exhaustive " + cfg)
    if not res.ok:
        st = res.trace[-1][1] if res.trace else {}
        ctx.violation(f"spec:{res.violated}", f"Simulator.tla invariant {res.violated} violated on the specification itself",
                      {"state": tojson(st)})
        return
    ctx.cov["exhaustive"] = True
    ctx.rule = ("every case of the bounded domain (handler add-operations with all insertion indices x plans; device limits x plans of "
                "set/read messages) is enumerated by TLC and replayed on the real RunEngineSimulator.simulate_plan / check_limits_async / "
                "check_limits; distinct by (handlers, plan) resp. (limits, plan); non-trivial = some message matched by >= 2 handlers, resp. "
                "some set on a limit-checked device; plus random larger cases recorded from the implementation and validated by TLC")
    n = 0
    with open(cases_file) as fh:
        for ln in fh:
            c = json.loads(ln)
            n += 1
            if c["mode"] == "sim":
                key = sim_key(c)
                ctx.case(key, sim_nontrivial(c))
                try:
                    got = run_sim(c["hs"], c["plan"], flavor=n)
                except Exception as ex:  # noqa
                    ctx.violation(f"sim-exc:{type(ex).__name__}:{key[1:]}", f"simulate_plan raised {ex!r} for handlers/plan {key[1:]}", {"case": c})
                    continue
                for f in ("msgs", "sent", "ret"):
                    if got[f] != c[f]:
                        ctx.violation(f"sim:{f}:hs={key[1]}:plan={key[2]}",
                                      f"simulate_plan {f} differs from Simulator.tla for handlers {key[1]} plan {key[2]}: got {got[f]} expected {c[f]}",
                                      {"case": c, "observed": got})
                        break
                if len(c["hs"]) >= 2 and len(c["plan"]) >= 1 and sim_nontrivial(c):
                    ctx.sample({"hs": c["hs"], "plan": [(m["cmd"], m["obj"]) for m in c["plan"]], "sent": c["sent"]}, limit=2)
            else:
                key = lim_key(c)
                ctx.case(key, lim_nontrivial(c))
                try:
                    got = run_limits(c["lims"], c["plan"], flavor=n)
                except Exception as ex:  # noqa
                    ctx.violation(f"limits-exc:{type(ex).__name__}:{key[1:]}", f"check_limits raised {ex!r} for limits/plan {key[1:]}", {"case": c})
                    continue
                for entry, g in zip(("check_limits_async", "check_limits"), got):
                    if g != c["raised"]:
                        ctx.violation(f"limits:{entry}:lims={key[1]}:plan={key[2]}",
                                      f"{entry} {'raised' if g else 'did not raise'} for limits {key[1]} plan {key[2]}; Simulator.tla says raised={c['raised']}",
                                      {"case": c, "observed": list(got)})
                        break
                if c["raised"] and len(c["plan"]) >= 2:
                    ctx.sample({"lims": c["lims"], "plan": [(m["cmd"], m["obj"], m["val"]) for m in c["plan"]], "raised": c["raised"]}, limit=4)
    if n == 0:
        ctx.machinery("no cases written by Simulator.tla")
    ctx.note(f"{n} cases replayed")
    # the recorded random cases, validated by TLC
    res = rest
    ctx.add_tlc(res, "SimulatorTrace")
    for r in rec:
        if r["mode"] == "sim":
            ctx.case(sim_key(r), sim_nontrivial(r))
        else:
            ctx.case(lim_key(r), lim_nontrivial(r))
    if res.ok:
        ctx.traces(len(rec))
    else:
        st = tojson(res.trace[-1][1]) if res.trace else {}
        if st.get("mode") == "sim":
            k = sim_key(st)
            sig = f"trace:{res.violated}:sim:hs={k[1]}:plan={k[2]}"
        elif st.get("mode") == "limits":
            k = lim_key(st)
            sig = f"trace:{res.violated}:limits:lims={k[1]}:plan={k[2]}"
        else:
            sig = f"trace:{res.violated}"
        ctx.violation(sig, f"recorded implementation case rejected by SimulatorTrace ({res.violated}): {json.dumps(st)[:600]}", {"state": st})
    ctx.assumptions += ["handlers return a value other than None (None cannot be told from 'no handler matched')",
                        "handler predicates are given as command name(s) plus an object name or an equivalent callable filter",
                        "limit-checked devices implement bluesky.protocols.Checkable with inclusive limits lo <= v <= hi (sync or async check_value)",
                        "insertion indices are 0..len or 'end' (negative indices are not exercised)"]


def record_random(ctx):
    rng = random.Random(ctx.seed)
    rec = []
    for k in range(150 if ctx.quick else 3000):
        rec.append(random_sim(rng, k))
        rec.append(random_limits(rng, k))
    good = []
    for r in rec:
        if "exc" in r:
            ctx.violation(f"random-sim-exc:hs={sim_key(r)[1]}", f"simulate_plan raised {r['exc']} on a random case", {"case": r})
        elif r.get("sync", r["raised"]) != r["raised"]:
            ctx.violation(f"limits:sync-vs-async:lims={lim_key(r)[1]}:plan={lim_key(r)[2]}",
                          f"check_limits_async raised={r['raised']} but check_limits raised={r['sync']}", {"case": r})
        else:
            good.append({f: r[f] for f in ("mode", "hs", "plan", "lims", "msgs", "sent", "ret", "raised")})
    return good


def random_sim(rng, k):
    # the RunEngine's command vocabulary has names that contain one another (stage/unstage, wait/wait_for,
    # checkpoint/clear_checkpoint, monitor/unmonitor): a handler for one must never answer the other
    cmds = ["read", "set", "trigger", "wait", "wait_for", "checkpoint", "clear_checkpoint", "stage", "unstage",
            "monitor", "unmonitor"]
    objs = ["x", "y", "z", "none"]
    hs = []
    codes = [c for c in RESULTS]
    for j in range(rng.randint(0, 6)):
        hs.append({"cmds": rng.sample(cmds, rng.randint(1, 3)), "flt": rng.choice(["*", "*", "x", "y", "z"]),
                   "idx": rng.choice([0, 0, END, rng.randint(0, j + 1)]), "res": rng.choice(codes)})
    table = {}
    length = rng.randint(0, 12)

    def reactive(step, code):
        if step >= length:
            return None
        if (step, code) not in table:
            table[(step, code)] = {"cmd": rng.choice(cmds), "obj": rng.choice(objs), "val": 0}
        return table[(step, code)]
    try:
        got = run_sim(hs, None, flavor=k, reactive=reactive)
    except Exception as ex:  # noqa
        return {"mode": "sim", "hs": hs, "plan": [], "lims": [], "msgs": [], "sent": [], "ret": [], "raised": False, "exc": repr(ex)}
    return {"mode": "sim", "hs": hs, "plan": got["plan"], "lims": [], "msgs": got["msgs"], "sent": got["sent"], "ret": got["ret"], "raised": False}


def random_limits(rng, k):
    lims = []
    for d in ("m1", "m2", "m3", "n1", "n2"):
        lo = rng.randint(-3, 3)
        lims.append({"dev": d, "has": d.startswith("m"), "lo": lo if d.startswith("m") else 0, "hi": rng.randint(lo, 3) if d.startswith("m") else 0})
    plan = []
    wide = rng.random() < 0.4
    for _ in range(rng.randint(0, 12)):
        if rng.random() < 0.7:
            d = rng.choice(lims)
            v = rng.randint(-5, 5) if wide or not d["has"] else rng.randint(d["lo"], d["hi"])
            if rng.random() < 0.1:
                v = rng.choice([d["lo"], d["hi"], d["lo"] - 1, d["hi"] + 1])
            plan.append({"cmd": "set", "obj": d["dev"], "val": v})
        else:
            plan.append({"cmd": rng.choice(["read", "trigger"]), "obj": rng.choice(lims)["dev"], "val": 0})
    a, s = run_limits(lims, plan, flavor=k)
    return {"mode": "limits", "hs": [], "plan": plan, "lims": lims, "msgs": [], "sent": [], "ret": [], "raised": a, "sync": s}


def replay(ctx, obj):
    """./check C32 --replay FILE: re-execute the case of a violation file on the real implementation"""
    rp = obj.get("replay") or {}
    c = rp.get("case") or rp.get("state")
    if not c:
        print(json.dumps(obj, indent=1)[:4000])
        return 0
    if c["mode"] == "sim":
        for flavor in (0, 1):
            got = run_sim(c["hs"], c["plan"], flavor=flavor)
            print(f"flavor {flavor}: handlers {sim_key(c)[1]} plan {sim_key(c)[2]}")
            for f in ("msgs", "sent", "ret"):
                print(f"   {f}: implementation {got[f]}   recorded/specified {c[f]}")
    else:
        for flavor in (0, 1):
            a, s = run_limits(c["lims"], c["plan"], flavor=flavor)
            print(f"flavor {flavor}: limits {lim_key(c)[1]} plan {lim_key(c)[2]}: check_limits_async raised={a} check_limits raised={s}; recorded/specified raised={c['raised']}")
    return 0
