CONSTANTS
  MaxEv = 4
  MaxKeys = 2
  MutMode = "repaired"
  FrameMode = "repaired"
  LateSlots = {"after", "end"}
  WithModern = TRUE
  WithHist = FALSE
SPECIFICATION Spec
INVARIANT TypeOK
INVARIANT C35_InputsNeverModified
PROPERTY C35_InputsUnchangedStep
INVARIANT C35_ExactlyOneStreamDatum
INVARIANT C35_RangesMatchEvent
INVARIANT C35_InternalValuesKept
INVARIANT C35_SchemaValid
INVARIANT C35_ResourceBeforeDatum
