CONSTANTS
  MinNum = 1
  MaxNum = 1
SPECIFICATION TraceSpec
INVARIANT Report
INVARIANT C27_SquareInGrid
INVARIANT C27_SquareNoPointTwice
INVARIANT C27_SquareCoversGrid
INVARIANT C27_PointsInRectangle
POSTCONDITION AllSeen
