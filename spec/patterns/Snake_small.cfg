CONSTANTS
  MaxAxes = 3
  MaxLen = 3
  MaxTotal = 27
SPECIFICATION Spec
INVARIANT Permutation
INVARIANT UnsnakedProductOrder
INVARIANT SnakedReverses
INVARIANT Continuous
INVARIANT FastestChanged
POSTCONDITION DumpCases
