CONSTANTS
  Keys = {"a", "b", "c"}
  NV = 1000000
  MaxOps = 1000000
  Mode = "either"
  Alphabet = {}
SPECIFICATION TraceSpec
INVARIANT T_ReopenHoldsLastWritten
INVARIANT C43_FilesAreLastWritten
INVARIANT C43_SameKeys
POSTCONDITION TraceAccepted
