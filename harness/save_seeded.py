"""Coordinator helper: copy a confirmed seeded change (sub-agent output in <worktree>/_out) into /verif/seeded/<id>-<n>.
usage: python -m harness.save_seeded C25 /tmp/mut/C25 "<check result>" "<detection>" [n]"""
import json
import shutil
import subprocess
import sys
from pathlib import Path


def main():
    pid, wt, result, detection = sys.argv[1:5]
    n = sys.argv[5] if len(sys.argv) > 5 else "1"
    out = Path(wt) / "_out"
    dst = Path("/verif/seeded") / f"{pid}-{n}"
    dst.mkdir(parents=True, exist_ok=True)
    for f in ("patch.diff", "demo.py"):
        shutil.copy(out / f, dst / f)
    meta = json.loads((out / "meta.json").read_text())
    env = {"PYTHONHASHSEED": "0", "PATH": "/usr/bin:/bin"}
    r1 = subprocess.run(["/venv/bin/python", str(out / "demo.py")], env={**env, "PYTHONPATH": f"{wt}/src"}, capture_output=True, text=True, cwd="/tmp")
    r0 = subprocess.run(["/venv/bin/python", str(out / "demo.py")], env={**env, "PYTHONPATH": "/repo/src"}, capture_output=True, text=True, cwd="/tmp")
    fail1 = r1.returncode != 0 or "FAIL" in r1.stdout
    fail0 = r0.returncode != 0 or "FAIL" in r0.stdout
    meta["confirmed_by_coordinator"] = {
        "demo_with_change": "FAIL" if fail1 else "PASS", "demo_without_change": "FAIL" if fail0 else "PASS",
        "check_command": f"VERIF_REPO_SRC={wt}/src ./check {pid} --tier quick", "check_result": result, "detection": detection}
    (dst / "meta.json").write_text(json.dumps(meta, indent=1))
    print(dst, meta["confirmed_by_coordinator"]["demo_with_change"], meta["confirmed_by_coordinator"]["demo_without_change"])


if __name__ == "__main__":
    main()
