------------------------------- MODULE REProps -------------------------------
(***************************************************************************)
(* The properties C01, C02, C04, C05, C06, C07, C08, C09, C10, C11, C40,   *)
(* C41 stated over the OBSERVABLE events of RE.tla.                        *)
(*                                                                         *)
(* `mon` is a bounded monitor that is part of the state.  It is updated by *)
(* folding the events of obs' (so it is identical in model-checking mode   *)
(* and in trace-validation mode, where obs' are the recorded events) and   *)
(* accumulates in mon.viol the tags of the property clauses that failed.   *)
(* Each property is then the invariant "none of my tags is in mon.viol";   *)
(* mon.reqs records which request landed where (the signature of a         *)
(* violation / known finding).                                             *)
(***************************************************************************)
EXTENDS RE

VARIABLE mon

MaxRuns == 6

NoRunMon == [span |-> 0, spanEnds |-> 0, spanStatus |-> "",
             started |-> FALSE, stopped |-> 0, status |-> "", reason |-> "", engineClosed |-> FALSE, descs |-> {},
             dmask |-> [s \in Streams |-> "none"], stale |-> {},
             next |-> [s \in Streams |-> 1],      \* the seq_num the next event of the stream must carry
             since |-> [s \in Streams |-> 0],     \* replayable events of the stream emitted since the last checkpoint-like point
             maxseq |-> [s \in Streams |-> 0], rewAtLast |-> [s \in Streams |-> 0], nev |-> [s \in Streams |-> 99],
             intrWant |-> 0]
MonInitVal ==
  [ viol |-> {},                 \* tags of violated property clauses
    reqs |-> <<>>,               \* requests / caller decisions: [kind, pc, st, res, out]
    runs |-> [o \in 1..MaxRuns |-> NoRunMon],
    nruns |-> 0,
    dev |-> [d \in Devices |-> [stg |-> 0, dirty |-> FALSE, subs |-> 0, lost |-> 0,
                                  fly |-> FALSE]],   \* a flyer: kicked off and no collection attempted since (C06)
    rew |-> 1,                   \* 1 + number of rewinds (resume / suspension release) so far
    term |-> {},                 \* accepted terminating requests in this call chain
    termLate |-> {},             \* ... that landed after the plan had already ended (post-plan window)
    failedPause |-> FALSE,       \* a pause / suspension was requested while not resumable
    genCmd |-> "",               \* command of the message the plan yielded last (logged only when a preprocessor may drop messages)
    genRun |-> 0,                \* index of the run key that message is meant for (logged only below set_run_key_wrapper; 0 = not logged)
    hardReq |-> FALSE,           \* a hard pause has been requested (request_pause() or Msg('pause')) and not yet taken effect
    failedPauseSelf |-> FALSE,   \* ... by the plan's own Msg('pause')
    failedPauseLate |-> FALSE,   \* ... and it landed after the plan had already ended (tail): either status is acceptable
    inObsClose |-> FALSE,        \* (within one obs) a close_run message was seen: the next stop doc is the plan's
    callRuns |-> 0,              \* nruns when the current RE(...) call started
    \* C04 / C09 / C10 / C11 bookkeeping over msg events
    rewFlag |-> TRUE,            \* rewindable flag as set by messages
    ckpt |-> TRUE,               \* a checkpoint is in effect (no clear_checkpoint since)
    since |-> <<>>,              \* identities of replayable messages executed since the last (implicit) checkpoint
    expect |-> <<>>,             \* identities that must be replayed next (after a resume / release)
    replaying |-> FALSE,
    deferPending |-> FALSE,      \* a deferred pause was acknowledged and not yet consumed
    deferCkpt |-> FALSE,         \* ... and the checkpoint that consumes it has been executed
    noReplay |-> FALSE,          \* a device refused replay (NoReplayAllowed) at the pause in progress: the resume rewinds nothing
    undo |-> [since |-> [o \in 1..MaxRuns |-> [sn \in Streams |-> 0]], bundle |-> [k \in RunKeys |-> [open |-> FALSE, mask |-> 0, n |-> 0, collide |-> FALSE]],
              expect |-> <<>>, rew |-> 1],          \* what the suspension that is starting replaced (restored if a device refuses replay)
    deferPaused |-> FALSE,       \* the engine has paused at that checkpoint and no new message has been executed since
    susp |-> {},                 \* futures of suspensions in effect (requested, accepted, not released)
    suspWait |-> FALSE,          \* the engine is inside the wait of a suspension
    pausedNow |-> FALSE,
    \* C11/C12/C13/C14/C15/C16/C40 bookkeeping
    genYielded |-> FALSE,        \* the main plan has just yielded: the next msg event is its message
    planMsg |-> [cmd |-> "", obj |-> "", run |-> "", a |-> ""],   \* the message the main plan is waiting on
    curA |-> "",                 \* abstract argument (group, stream name, ...) of the message being executed
    stPend |-> {},               \* C12: <<group, sid>> of the statuses created in this call that have not finished yet
    planRaised |-> "",           \* exception kind the main plan ended with
    devErrPending |-> FALSE,     \* a device call raised: the next plan resumption must be the throw of that error
    failPending |-> FALSE,       \* a status failed and has not been thrown into the plan yet
    curCmd |-> "",               \* command of the message being executed ("" = none: asynchronous emission)
    movedEver |-> {},            \* devices set during this call
    curRun |-> "none",           \* run key of the message being executed ("none": no message in progress)
    cmdSave |-> <<"", "none">>,  \* <<curCmd, curRun>> of the command a request interrupted (it goes on when the request has been handled)
    keyOrd |-> [k \in RunKeys |-> 0],        \* run key -> ordinal of the run currently open under that key
    pendingOpen |-> "none",
    dupOpen |-> FALSE,           \* an open_run for a key that is already open was executed
    bundle |-> [k \in RunKeys |-> [open |-> FALSE, mask |-> 0, n |-> 0, collide |-> FALSE]],
    expectEvent |-> "none",      \* "none" | "no" | decimal device mask: what the current save must emit
    gotEvent |-> FALSE,
    cfgVer |-> [d \in Devices |-> 1],
    suspStopDue |-> {},          \* moved devices that must be stopped by the suspension that just started
    recIntr |-> FALSE,
    susInst |-> {},              \* C31: installed suspenders ("s1" watches signal "sig1", "s2" watches "sig2": SuspendBoolHigh)
    sigHigh |-> {},              \* signals whose last value is high
    lastSig |-> "",              \* signal of the sig_put request in progress
    susUsed |-> FALSE,           \* suspenders are in play in this trace
    suspEver |-> FALSE,          \* a suspension has been in effect during this call (_start_suspender was executed)
    trips |-> 0,                 \* trips of installed suspenders not yet turned into a suspension
    susEff |-> {},               \* installed suspenders whose condition tripped while the engine could be suspended / was idle
    pendingSpan |-> 0,           \* C42: span started by the open_run in progress
    tracing |-> FALSE,           \* C42: span events are being recorded
    expOutcome |-> "ok",         \* C03: how the uninterrupted execution of the same plan ends
    c04off |-> FALSE,            \* a checkpoint-like command failed: replay expectations are not tracked for this call
    expData |-> {},              \* C03: expected <<ord, stream, seq, digest>> of the uninterrupted execution
    gotData |-> {},              \* C03: <<ord, stream, seq, digest>> last emitted
    st |-> "idle",               \* engine state as reported by state events
    planDone |-> FALSE,          \* the plan handed to RE(...) has returned or raised (post-plan window)
    lastCmd |-> "",              \* command of the last message executed (call-site part of a signature)
    maxMid |-> 0,                \* highest message identity seen
    faulty |-> FALSE,            \* a device fault or a plan error was injected in this call chain
    \* C18 bookkeeping: document consumers the plan subscribed itself (Msg('subscribe')) during this call
    tsub |-> 0,                  \* in-plan subscriptions made and not removed in this call
    tOwe |-> 0,                  \* deliveries of the last document to those consumers still to come
    tDoc |-> <<"", 0>> ]         \* <<name, run ordinal>> of that document

MonInit == mon = MonInitVal

Viol(m, tag) == [m EXCEPT !.viol = @ \cup {tag}]
ViolIf(m, c, tag) == IF c THEN Viol(m, tag) ELSE m

RECURSIVE DevBitFrom(_, _)
DevBitFrom(i, d) == IF i > Len(DevOrder) THEN 0 ELSE IF DevOrder[i] = d THEN 2 ^ (i - 1) ELSE DevBitFrom(i + 1, d)
DevBit(d) == DevBitFrom(1, d)
HasBit(mask, b) == b > 0 /\ (mask \div b) % 2 = 1

\* the response class the plan must receive for a message (C13); {} = not checked
ExpectedResp(pm) ==
  CASE pm.cmd = "" -> {"None"}
    [] pm.cmd \in {"open_run", "close_run"} -> {"str"}
    [] pm.cmd \in {"create", "save", "drop", "checkpoint", "clear_checkpoint", "null", "sleep", "monitor", "unmonitor", "pause", "stop"} -> {"None"}
    [] pm.cmd = "read" -> IF pm.obj \in DOMAIN ReadVal THEN {ReadVal[pm.obj]} ELSE {}
    [] pm.cmd \in {"set", "trigger", "kickoff", "complete", "prepare"} -> {"status"}
    [] pm.cmd = "collect" -> IF pm.obj \in Flyers THEN {"seq:" \o ToString(FlyN[pm.obj])} ELSE {}
    [] pm.cmd = "wait" -> {"bool:True", "bool:False"}
    [] pm.cmd \in {"stage", "unstage"} -> {"seq:0", "seq:1"}
    [] pm.cmd = "declare_stream" -> {"seq:3"}
    [] pm.cmd = "subscribe" -> {"token"}
    [] pm.cmd = "unsubscribe" -> {"None"}
    [] pm.cmd = "rewindable" -> {"bool:True", "bool:False"}
    [] OTHER -> {}

StreamClass(s) == IF s = "interruptions" THEN "interruptions" ELSE IF s \in Mons THEN "monitor" ELSE "bundle"
ControlExc == {"exc:FailedPause", "exc:RequestAbort", "exc:RequestStop", "exc:PlanHalt", "exc:Cancelled"}

ImplicitCkptCmds == {"checkpoint", "stage", "unstage", "monitor", "unmonitor", "subscribe", "unsubscribe", "close_run"}

\* ---------------------------------------------------------------------------
\* one event; s = engine state before the step, s2 = after (used only for request signatures and C08's resumability)
UpdDoc(m, e) ==
  LET name == e[2] stream == e[3] status == e[4] seq == e[6] ord == e[7] IN
  IF e[5] = "olddesc" THEN Viol(m, "C16:event-references-old-descriptor") ELSE      \* (observed by the recorder: not the stream's latest descriptor)
  IF e[5] # "" THEN Viol(m, IF e[5] = "dupuid" THEN "C01:duplicate-uid" ELSE "C01:schema-invalid") ELSE
  IF name = "start" THEN
     IF ord # m.nruns + 1 \/ ord > MaxRuns THEN Viol(m, "C01:start-order")
     ELSE LET m1 == [m EXCEPT !.nruns = ord, !.runs[ord] = [NoRunMon EXCEPT !.started = TRUE, !.span = m.pendingSpan], !.pendingSpan = 0]
              m2 == ViolIf(m1, m.dupOpen, "C14:duplicate-open-accepted")
          IN IF m.pendingOpen \in RunKeys THEN [m2 EXCEPT !.keyOrd[m.pendingOpen] = ord, !.pendingOpen = "none"] ELSE m2
  ELSE IF ord < 1 \/ ord > m.nruns THEN Viol(m, "C01:no-run-start")
  ELSE LET r == m.runs[ord] IN
       IF r.stopped > 0 THEN (IF name = "event" /\ StreamClass(stream) = "monitor"
                              THEN Viol(Viol(m, "C01:doc-after-stop"), "C41:event-after-run-end")      \* C41: only while the run is open
                              ELSE Viol(m, IF name = "stop" THEN "C01:second-stop" ELSE "C01:doc-after-stop"))
       ELSE IF m.curRun \in RunKeys /\ m.keyOrd[m.curRun] # ord /\ StreamClass(stream) = "bundle" /\ name # "stop"
            THEN Viol(m, "C14:document-in-wrong-run")
       ELSE IF stream = "interruptions" /\ ~m.recIntr THEN Viol(m, "C40:stream-when-disabled")
       ELSE IF name = "descriptor" THEN [m EXCEPT !.runs[ord].descs = @ \cup {stream}, !.runs[ord].stale = @ \ {stream}]
       ELSE IF name = "event" THEN
            LET m1 == ViolIf(m, stream \notin r.descs, "C01:event-without-descriptor")
                mx == r.maxseq[stream]
                \* exactly the expected seq_num: one more than the previous one, or -- after a rewind -- the first of the
                \* data points emitted since the last checkpoint (they are re-taken); never-replayed streams only count up
                m2 == IF seq = r.next[stream] THEN m1
                      ELSE IF seq > r.next[stream] \/ seq < 1 THEN Viol(m1, "C05:gap:" \o StreamClass(stream))
                      ELSE Viol(m1, "C05:duplicate-seq:" \o StreamClass(stream))
                m3 == ViolIf(m2, stream \in r.stale, "C16:event-references-old-descriptor")
                m4 == IF StreamClass(stream) = "bundle" /\ m.curRun \in RunKeys THEN [m3 EXCEPT !.gotEvent = TRUE] ELSE m3
            IN [m4 EXCEPT !.runs[ord].maxseq[stream] = IF seq > mx THEN seq ELSE mx,
                          !.runs[ord].next[stream] = seq + 1,
                          !.runs[ord].since[stream] = IF m.curCmd \in {"save", "collect"} /\ m.rewFlag /\ m.ckpt THEN @ + 1 ELSE @,
                          !.runs[ord].rewAtLast[stream] = m.rew]
       ELSE IF name = "stop" THEN
            [m EXCEPT !.runs[ord].stopped = 1, !.runs[ord].status = status, !.runs[ord].reason = stream,   \* (a stop's stream slot = its reason class)
                      !.runs[ord].engineClosed = ~m.inObsClose, !.inObsClose = FALSE,
                      !.keyOrd = [k \in RunKeys |-> IF m.keyOrd[k] = ord THEN 0 ELSE m.keyOrd[k]]]
       ELSE m

UpdNev(m, e) ==
  LET stream == e[2] n == e[6] ord == e[7] IN
  IF ord < 1 \/ ord > m.nruns THEN Viol(m, "C01:no-run-start")
  ELSE LET r == m.runs[ord]
           m1 == ViolIf(m, n # r.maxseq[stream], "C05:num_events:" \o StreamClass(stream))
           m2 == ViolIf(m1, stream = "interruptions" /\ n # r.intrWant, "C40:count")
       IN [m2 EXCEPT !.runs[ord].nev[stream] = n]

\* checkpoint-like point: nothing emitted so far will be re-taken
SinceReset(m) == [m EXCEPT !.runs = [o \in 1..MaxRuns |-> [m.runs[o] EXCEPT !.since = [sn \in Streams |-> 0]]]]
\* a rewind: the replayable data points emitted since the last checkpoint-like point are re-taken under the same seq_nums
SeqRewind(m) == [m EXCEPT !.runs = [o \in 1..MaxRuns |-> IF m.runs[o].started /\ m.runs[o].stopped = 0
                                   THEN [m.runs[o] EXCEPT !.next = [sn \in Streams |-> m.runs[o].next[sn] - m.runs[o].since[sn]],
                                                          !.since = [sn \in Streams |-> 0]]
                                   ELSE m.runs[o]]]

UpdDev(m, e) ==
  LET d == e[2] op == e[3] IN
  IF d \notin Devices THEN m
  ELSE IF e[4] = "raise" THEN
       \* (a set() that raises may already have started the motion: the device counts as set -- it must be stopped -- C06)
       [m EXCEPT !.faulty = TRUE, !.devErrPending = TRUE, !.replaying = FALSE, !.expect = <<>>, !.c04off = TRUE,
                 !.dev[d].dirty = (@ \/ op = "set"), !.movedEver = IF op = "set" THEN @ \cup {d} ELSE @,
                 !.dev[d].fly = IF op = "collect" THEN FALSE ELSE @]       \* (a collection that fails has been attempted)
  ELSE IF op = "pause" /\ e[4] = "noreplay" THEN
       \* the device refuses replay: the engine forgets its rewind cache (as at a checkpoint).  At a pause the coming resume
       \* rewinds nothing; inside _start_suspender the rewind the monitor anticipated at the message does not take place
       IF m.curCmd = "_start_suspender"
       THEN SinceReset([m EXCEPT !.runs = [o \in 1..MaxRuns |-> [m.runs[o] EXCEPT !.next = [sn \in Streams |-> m.runs[o].next[sn] + m.undo.since[o][sn]]]],
                                 !.bundle = m.undo.bundle, !.expect = m.undo.expect, !.rew = m.undo.rew,
                                 !.replaying = (m.undo.expect # <<>>), !.since = <<>>])
       ELSE SinceReset([m EXCEPT !.noReplay = TRUE, !.since = <<>>])
  ELSE IF e[4] = "nostatus" THEN
       \* the device has been touched (moved / kicked off) but returned no status: the command fails with an AttributeError
       LET m1 == [m EXCEPT !.faulty = TRUE, !.replaying = FALSE, !.expect = <<>>, !.c04off = TRUE] IN
       CASE op = "set" -> [m1 EXCEPT !.dev[d].dirty = TRUE, !.movedEver = @ \cup {d}]
         [] op = "kickoff" -> [m1 EXCEPT !.dev[d].fly = TRUE]
         [] OTHER -> m1
  ELSE CASE op = "stage" -> [m EXCEPT !.dev[d].stg = @ + 1]
         [] op = "read" ->
              IF m.curRun \in RunKeys /\ m.bundle[m.curRun].open
              THEN LET b == m.bundle[m.curRun] IN
                   [m EXCEPT !.bundle[m.curRun] = [b EXCEPT !.collide = (@ \/ HasBit(b.mask, DevBit(d))),
                                                             !.mask = IF HasBit(b.mask, DevBit(d)) THEN @ ELSE @ + DevBit(d), !.n = @ + 1]]
              ELSE m
         [] op = "configure" ->
              \* every stream of every open run whose descriptor lists the device must get a new descriptor before its next event
              [m EXCEPT !.cfgVer[d] = @ + 1,
                        !.runs = [o \in 1..MaxRuns |-> IF m.runs[o].started /\ m.runs[o].stopped = 0
                                    THEN [m.runs[o] EXCEPT !.stale = @ \cup {sn \in Streams : m.runs[o].dmask[sn] # "none" /\ m.runs[o].dmask[sn] # "x"
                                                                                     /\ \E b \in {DevBit(d)} : \E k \in 0..63 : ToString(k) = m.runs[o].dmask[sn] /\ HasBit(k, b)}]
                                    ELSE m.runs[o]]]
         [] op = "unstage" -> [m EXCEPT !.dev[d].stg = IF @ > 0 THEN @ - 1 ELSE 0]
         [] op = "set" -> [m EXCEPT !.dev[d].dirty = TRUE, !.movedEver = @ \cup {d},
                                   !.stPend = IF e[6] > 0 THEN @ \cup {<<m.curA, e[6]>>} ELSE @]
         [] op \in {"trigger", "complete", "prepare"} -> [m EXCEPT !.stPend = IF e[6] > 0 THEN @ \cup {<<m.curA, e[6]>>} ELSE @]
         [] op = "stop" -> [m EXCEPT !.dev[d].dirty = FALSE, !.suspStopDue = @ \ {d}]
         [] op = "kickoff" -> [m EXCEPT !.dev[d].fly = TRUE, !.stPend = IF e[6] > 0 THEN @ \cup {<<m.curA, e[6]>>} ELSE @]
         [] op = "collect" -> [m EXCEPT !.dev[d].fly = FALSE]
         [] op = "subscribe" -> [m EXCEPT !.dev[d].subs = @ + 1]
         [] op = "clear_sub" -> [m EXCEPT !.dev[d].subs = IF @ > 0 THEN @ - 1 ELSE 0]
         [] op = "update" ->
              \* C41: an update reaches e[6] engine callbacks; while paused / suspended none may be subscribed
              ViolIf(m, e[6] > 0 /\ (m.pausedNow \/ m.suspWait), IF m.pausedNow THEN "C41:update-while-paused" ELSE "C41:update-while-suspended")
         [] OTHER -> m

\* messages: replay bookkeeping (C04), deferred pause (C09), suspension (C11)
UpdMsg(m0, e) ==
  LET cmd == e[2] a == e[5] mid == e[6] obj == e[3] run == e[4]
      \* C11: the suspension that just started must have stopped every moved device before anything else runs
      mA == ViolIf([m0 EXCEPT !.suspStopDue = {}], m0.suspStopDue # {}, "C11:moved-not-stopped-at-suspension")
      \* C15: a save that had to emit an event / must not emit one
      mB == IF mA.expectEvent = "none" THEN mA
            ELSE ViolIf([mA EXCEPT !.expectEvent = "none", !.gotEvent = FALSE],
                        (mA.expectEvent = "no") = mA.gotEvent /\ ~mA.devErrPending /\ mA.planMsg.cmd = "save",
                        IF mA.gotEvent THEN "C15:event-from-empty-bundle" ELSE "C15:event-missing")
      \* C14: below set_run_key_wrapper the engine must see the plan's message under the run key it is meant for
      mB2 == ViolIf(mB, mB.genYielded /\ mB.genRun # 0 /\ mB.genRun # (CASE run = "" -> 1 [] run = "k1" -> 2 [] run = "k2" -> 3 [] OTHER -> 9),
                    "C14:message-applied-to-wrong-run")
      \* C13: this is the main plan's own message if the plan has just yielded
      mC == IF mB2.genYielded THEN [mB2 EXCEPT !.genYielded = FALSE, !.planMsg = [cmd |-> cmd, obj |-> obj, run |-> run, a |-> a]] ELSE mB2
      mD == [mC EXCEPT !.curRun = run, !.curCmd = cmd, !.curA = a,
                       !.tsub = IF cmd = "subscribe" THEN @ + 1 ELSE IF cmd = "unsubscribe" /\ @ > 0 THEN @ - 1 ELSE @]     \* (C18)
      \* C14: open_run bookkeeping
      mE == IF cmd = "open_run" /\ run \in RunKeys
            THEN (IF mD.keyOrd[run] # 0 THEN [mD EXCEPT !.dupOpen = TRUE] ELSE [mD EXCEPT !.pendingOpen = run, !.dupOpen = FALSE])
            ELSE [mD EXCEPT !.dupOpen = FALSE]
      \* C15: bundle bookkeeping
      bk == IF run \in RunKeys THEN mE.bundle[run] ELSE [open |-> FALSE, mask |-> 0, n |-> 0, collide |-> FALSE]
      mF == IF run \notin RunKeys \/ mE.keyOrd[run] = 0 THEN mE
            ELSE IF cmd = "create" /\ ~bk.open THEN [mE EXCEPT !.bundle[run] = [open |-> TRUE, mask |-> 0, n |-> 0, collide |-> FALSE]]
            ELSE IF cmd = "save" /\ bk.open THEN [mE EXCEPT !.bundle[run].open = FALSE, !.gotEvent = FALSE,
                                                          !.expectEvent = IF bk.n = 0 THEN "no" ELSE ToString(bk.mask)]
            ELSE IF cmd = "drop" /\ bk.open THEN [mE EXCEPT !.bundle[run].open = FALSE, !.gotEvent = FALSE, !.expectEvent = "no"]
            ELSE mE
      m == mF
      \* C04: while replaying, the next message must be the next expected identity
      m1 == IF m.replaying THEN
               IF m.expect = <<>> THEN [m EXCEPT !.replaying = FALSE]
               ELSE IF Head(m.expect) = mid THEN [m EXCEPT !.expect = Tail(@), !.replaying = (Len(m.expect) > 1)]
               ELSE IF cmd \in {"rewindable", "wait_for", "_resume_from_suspender", "_start_suspender"} \/ m.suspWait THEN m
               ELSE ViolIf([m EXCEPT !.replaying = FALSE, !.expect = <<>>], ~m.c04off, "C04:replay-mismatch")
            ELSE \* not replaying: a message identity that was executed before must not come back
                 \* (C09: in particular not after the pause at the checkpoint that consumed a deferred pause)
                 ViolIf(ViolIf(m, mid <= m.maxMid /\ mid > 0 /\ ~m.c04off, "C04:unexpected-replay"),
                        mid <= m.maxMid /\ mid > 0 /\ ~m.c04off /\ m.deferPaused, "C09:replay-after-deferred-pause")
      \* a fresh (not replayed) identity while something is still expected is caught above
      m2 == IF cmd = "rewindable" /\ a # "" THEN
               (IF (a = "T") # m1.rewFlag /\ m1.ckpt THEN SinceReset([m1 EXCEPT !.rewFlag = (a = "T"), !.since = <<>>]) ELSE [m1 EXCEPT !.rewFlag = (a = "T")])
            ELSE IF cmd = "clear_checkpoint" THEN SinceReset([m1 EXCEPT !.ckpt = FALSE, !.since = <<>>])
            ELSE IF cmd = "checkpoint" /\ (\E k \in RunKeys : m1.keyOrd[k] # 0 /\ m1.bundle[k].open)
                 THEN \* rejected (C15): not a checkpoint; the attempt itself is part of what was executed since the last one
                      (IF m1.rewFlag /\ m1.ckpt THEN [m1 EXCEPT !.since = Append(@, mid)] ELSE m1)
            ELSE IF cmd = "checkpoint" THEN SinceReset([m1 EXCEPT !.ckpt = TRUE, !.since = <<>>, !.deferCkpt = m1.deferPending])
            ELSE IF cmd \in ImplicitCkptCmds THEN SinceReset([m1 EXCEPT !.since = <<>>])
            ELSE IF cmd \in Uncacheable \/ ~m1.rewFlag \/ ~m1.ckpt THEN m1
            ELSE [m1 EXCEPT !.since = Append(@, mid)]
      \* C09: after the checkpoint that consumes a deferred pause no further message may be executed before the pause
      \* (an accepted abort/stop/halt overrides the pending pause: the plan's clean-up messages then follow the checkpoint)
      m3a == ViolIf(m2, m.deferCkpt /\ m.term = {} /\ m.termLate = {}
                        /\ cmd \notin {"checkpoint", "_start_suspender", "rewindable", "wait_for", "_resume_from_suspender"},
                    "C09:message-after-deferred-checkpoint")
      m3 == ViolIf(m3a, m.failPending /\ cmd = "checkpoint", "C12:status-failure-after-checkpoint")
      \* C11: while a suspension holds the plan only the helper's own messages (pre-plan, wait) may run
      m4a == IF cmd = "wait_for" /\ m3.susp # {} THEN [m3 EXCEPT !.suspWait = TRUE] ELSE
             IF cmd = "_resume_from_suspender" THEN [m3 EXCEPT !.suspWait = FALSE] ELSE m3
      \* a suspension starts: the engine rewinds; what was executed since the last checkpoint is replayed after the release
      m4 == IF cmd = "_start_suspender" /\ m4a.ckpt
            THEN [SeqRewind(m4a) EXCEPT !.bundle = [k \in RunKeys |-> [m4a.bundle[k] EXCEPT !.open = FALSE]], !.rew = @ + 1, !.expect = m4a.since \o m4a.expect, !.replaying = (m4a.since \o m4a.expect # <<>>), !.since = <<>>,
                                        !.undo = [since |-> [o \in 1..MaxRuns |-> m4a.runs[o].since], bundle |-> m4a.bundle, expect |-> m4a.expect, rew |-> m4a.rew]]
            ELSE m4a
      \* a pause requested by the plan itself (Msg('pause')): same bookkeeping as an external request
      m4p == IF cmd = "pause" /\ m4.st = "running"
             THEN (IF a = "T" THEN [m4 EXCEPT !.deferPending = TRUE]
                   ELSE IF ~m4.ckpt THEN [m4 EXCEPT !.hardReq = TRUE, !.failedPause = TRUE, !.failedPauseSelf = TRUE]
                   ELSE [m4 EXCEPT !.hardReq = TRUE])
             ELSE m4
      \* a suspension starts: every moved device must be stopped (C11), one interruption record per open run (C40)
      m4s == IF cmd = "_start_suspender" /\ m4p.susUsed
             THEN ViolIf([m4p EXCEPT !.trips = IF @ > 0 THEN @ - 1 ELSE 0], m4p.trips = 0, "C31:suspended-without-tripped-suspender")
             ELSE m4p
      m5 == IF cmd = "_start_suspender"
            THEN [m4s EXCEPT !.suspEver = TRUE, !.suspStopDue = m4.movedEver,
                            !.runs = [o \in 1..MaxRuns |-> IF m4.runs[o].started /\ m4.runs[o].stopped = 0 /\ m4.recIntr
                                                            THEN [m4.runs[o] EXCEPT !.intrWant = @ + 1] ELSE m4.runs[o]]]
            ELSE m4s
  IN [m5 EXCEPT !.maxMid = IF mid > @ THEN mid ELSE @, !.lastCmd = cmd, !.deferPaused = (@ /\ mid <= m5.maxMid)]

UpdGen(mIn, e) ==
  LET inp == e[2] val == e[3] react == e[4]
      m0 == [mIn EXCEPT !.inObsClose = FALSE, !.curRun = "none", !.curCmd = ""]
      \* C15: a pending save expectation is settled when the plan is resumed
      m1 == IF m0.expectEvent = "none" THEN m0
            ELSE ViolIf([m0 EXCEPT !.expectEvent = "none", !.gotEvent = FALSE],
                        (m0.expectEvent = "no") = m0.gotEvent /\ inp = "send" /\ m0.planMsg.cmd = "save",
                        IF m0.gotEvent THEN "C15:event-from-empty-bundle" ELSE "C15:event-missing")
      \* C15: a save that closes a bundle the plan opened (and that nothing cancelled) is not answered "no bundle is open"
      m1s == ViolIf(m1, m0.expectEvent # "none" /\ inp = "throw" /\ val = "IMS" /\ m0.planMsg.cmd = "save", "C15:save-rejected-in-open-bundle")
      \* C12: a device error must be what the plan is resumed with
      \* (an abort/stop/halt accepted before the plan was resumed pre-empts it: the plan is resumed with that request's exception)
      m2 == IF m1s.devErrPending THEN ViolIf([m1s EXCEPT !.devErrPending = FALSE], ~(inp = "throw" /\ val = "DevErr") /\ m1s.term = {} /\ m1s.termLate = {},
                                            "C12:device-error-not-delivered") ELSE m1s
      m3x == IF inp = "throw" /\ val = "FailedStatus" THEN [m2 EXCEPT !.failPending = FALSE] ELSE m2
      \* C13: the value sent is the response to the plan's own message
      m3 == IF inp = "throw" /\ m3x.planMsg.cmd \in ImplicitCkptCmds THEN [m3x EXCEPT !.c04off = TRUE, !.replaying = FALSE, !.expect = <<>>] ELSE m3x
      m4x == IF inp = "send" /\ ExpectedResp(m3.planMsg) # {} /\ val \notin ExpectedResp(m3.planMsg)
             THEN Viol(m3, "C13:response-mismatch:" \o m3.planMsg.cmd) ELSE m3
      \* C12: `wait` must not report a group done while a status of that group is still in flight (in executions without
      \* external requests: a cancelled wait forgets its group -- KF-C13-1's neighbourhood)
      m4w == ViolIf(m4x, inp = "send" /\ val = "bool:True" /\ m3.planMsg.cmd = "wait" /\ m3.reqs = <<>>
                         /\ \E p \in m3.stPend : p[1] = m3.planMsg.a, "C12:wait-done-with-pending-status")
      \* C13: a message that a preprocessor dropped (the engine never saw it: no `msg` event since the yield) is answered None
      m4 == ViolIf(m4w, inp = "send" /\ m3.genYielded /\ m3.genCmd # "" /\ m3.planMsg.cmd = "?" /\ val # "None", "C13:response-mismatch:dropped")
      \* C14: a duplicate open_run must be rejected at that yield
      \* (answered with an exception: IllegalMessageSequence, or whatever interrupted the engine before it got to the message)
      m5 == IF m4.dupOpen THEN ViolIf([m4 EXCEPT !.dupOpen = FALSE], inp # "throw", "C14:duplicate-open-accepted") ELSE m4
      \* C15: colliding reads / checkpoint inside a bundle must be rejected
      m6 == IF m5.planMsg.cmd = "read" /\ m5.planMsg.run \in RunKeys /\ m5.bundle[m5.planMsg.run].collide
            THEN ViolIf([m5 EXCEPT !.bundle[m5.planMsg.run].collide = FALSE], inp # "throw", "C15:colliding-read-accepted") ELSE m5
      m7 == IF m6.planMsg.cmd \in {"checkpoint", "configure"} /\ (\E k \in RunKeys : m6.keyOrd[k] # 0 /\ m6.bundle[k].open)
               /\ (m6.planMsg.cmd = "checkpoint" \/ (m6.planMsg.run \in RunKeys /\ m6.bundle[m6.planMsg.run].open))
            THEN ViolIf(m6, inp # "throw", "C15:" \o m6.planMsg.cmd \o "-inside-bundle-accepted") ELSE m6
      \* C11: the plan itself must not run while a suspension holds it
      \* (an abort/stop/halt ends the suspension: the plan's clean-up then runs although nothing released the suspender)
      m8a == ViolIf(m7, m7.suspWait /\ inp = "send" /\ m7.term = {} /\ m7.termLate = {}, "C11:plan-resumed-during-suspension")
      \* C31 / C11: the plan does not run while an installed suspender's condition is tripped
      \* (C11 speaks about a suspension that is in effect: its clause needs one to have started in this call; a suspender
      \*  whose trip never led to a suspension at all is C31's "gates plan start")
      \* C10: after a failed pause the plan's clean-up runs: nobody asked for an abort, so no RequestAbort may be thrown into it
      m8b == ViolIf(m8a, inp = "throw" /\ val = "RequestAbort" /\ m8a.failedPause /\ m8a.term = {} /\ m8a.termLate = {},
                    IF m8a.failedPauseSelf THEN "C10:cleanup-interrupted:self-pause" ELSE "C10:cleanup-interrupted:request")
      m8 == ViolIf(m8b, inp = "send" /\ m8b.susEff # {} /\ m8b.term = {} /\ ~m8b.failedPause
                        /\ (m8b.planMsg.cmd = "" \/ m8b.suspEver),
                   IF m8b.planMsg.cmd = "" THEN "C31:plan-started-while-suspender-tripped" ELSE "C11:plan-ran-while-suspender-tripped")
      m9 == IF react = "yield" THEN [m8 EXCEPT !.genYielded = TRUE, !.planMsg = [cmd |-> "?", obj |-> "", run |-> "", a |-> ""], !.genCmd = e[5], !.genRun = e[6]]
            ELSE IF react = "return" THEN [m8 EXCEPT !.planDone = TRUE]
            ELSE [m8 EXCEPT !.planDone = TRUE, !.planRaised = react, !.faulty = (@ \/ react = "raise:PlanErr")]
  IN m9

\* dsc / cfg / dat / exp events (C03, C15, C16)
UpdDsc(m, e) ==
  LET stream == e[2] mask == e[3] ord == e[7] IN
  IF ord < 1 \/ ord > m.nruns THEN m ELSE [m EXCEPT !.runs[ord].dmask[stream] = mask]
UpdCfg(m, e) ==
  LET d == e[3] ver == e[6] IN
  IF d \notin Devices THEN m ELSE ViolIf(m, ver # m.cfgVer[d], "C16:stale-configuration")
UpdDat(m, e) ==
  LET stream == e[2] dig == e[3] mask == e[4] seq == e[6] ord == e[7] IN
  IF ord < 1 \/ ord > m.nruns \/ StreamClass(stream) # "bundle" THEN m
  ELSE LET m1 == ViolIf(m, m.expectEvent \notin {"none", "no"} /\ mask # m.expectEvent, "C15:event-keys-differ-from-bundle")
           m2 == ViolIf(m1, m.runs[ord].dmask[stream] # "none" /\ mask # m.runs[ord].dmask[stream], "C15:event-keys-differ-from-descriptor")
       IN [m2 EXCEPT !.gotData = {x \in @ : ~(x[1] = ord /\ x[2] = stream /\ x[3] = seq)} \cup {<<ord, stream, seq, dig>>}]
\* C42: span events ['span', 'start'|'end', exit_status, '', '', sid, 0]
NormStatus(x) == IF x = "aborted" THEN "abort" ELSE x
UpdSpan(m, e) ==
  LET op == e[2] status == e[3] sid == e[6] IN
  IF op = "start" THEN [m EXCEPT !.pendingSpan = sid, !.tracing = TRUE]
  ELSE LET os == {o \in 1..m.nruns : m.runs[o].span = sid} IN
       IF os = {} THEN m
       ELSE LET o == CHOOSE x \in os : TRUE IN
            [m EXCEPT !.runs[o].spanEnds = @ + 1, !.runs[o].spanStatus = NormStatus(status)]
UpdExp(m, e) == IF e[2] = "#outcome" THEN [m EXCEPT !.expOutcome = e[3]] ELSE [m EXCEPT !.expData = @ \cup {<<e[7], e[2], e[6], e[3]>>}]

UpdState(m, e) ==
  LET o == e[2] n == e[3]
      m1 == ViolIf(m, o \notin DOMAIN Table \/ n \notin Table[o], "C07:illegal-transition:" \o o \o "->" \o n)
      m1b == IF n = "pausing" /\ m1.recIntr
             THEN [m1 EXCEPT !.runs = [r \in 1..MaxRuns |-> IF m1.runs[r].started /\ m1.runs[r].stopped = 0
                                                            THEN [m1.runs[r] EXCEPT !.intrWant = @ + 1] ELSE m1.runs[r]]]
             ELSE m1
      \* a terminating request whose coroutine has run (state change seen) counts as accepted even if its caller is still blocked
      lastq == IF Len(m1b.reqs) > 0 THEN m1b.reqs[Len(m1b.reqs)] ELSE [kind |-> "", pc |-> "", st |-> "", res |-> TRUE, out |-> "x", after |-> ""]
      m1c == IF n \in {"aborting", "stopping", "halting"} /\ lastq.kind \in {"abort", "stop", "halt"} /\ lastq.out = ""
             THEN (IF lastq.pc = "tail" THEN [m1b EXCEPT !.termLate = @ \cup {lastq.kind}] ELSE [m1b EXCEPT !.term = @ \cup {lastq.kind}])
             ELSE m1b
      \* (C04: an accepted abort/stop/halt pre-empts a replay that was due: nothing more is expected to come back)
      m1d == IF n \in {"aborting", "stopping", "halting"} THEN [m1c EXCEPT !.replaying = FALSE, !.expect = <<>>] ELSE m1c
      m2 == [m1d EXCEPT !.pausedNow = (n = "paused"), !.st = n, !.curRun = "none", !.curCmd = ""]
      \* C09: the pause that follows a deferred request: nothing to replay
      \* C09: a deferred pause takes effect at a checkpoint only: the engine must not start pausing on its own anywhere else
      m2a == IF n = "pausing"
             THEN ViolIf([m2 EXCEPT !.hardReq = FALSE], m.deferPending /\ ~m.deferCkpt /\ ~m.hardReq, "C09:deferred-pause-not-at-checkpoint")
             ELSE m2
      m3 == IF n = "paused" /\ m.deferCkpt THEN ViolIf([m2a EXCEPT !.deferPending = FALSE, !.deferCkpt = FALSE, !.deferPaused = TRUE], m.since # <<>>, "C09:replay-after-deferred-pause")
            ELSE IF n = "pausing" /\ ~m.deferCkpt THEN [m2a EXCEPT !.deferPending = FALSE] ELSE m2a
      \* C10: never paused after an interruption in a non-resumable section
      m4 == ViolIf(m3, n = "paused" /\ m.failedPause, "C10:paused-after-failed-pause")
  IN m4

\* cause of the end of the call, for C02: what status must a run closed by the engine have
\* the call raised what the plan itself raised (an error of the plan / a device / an engine answer the plan did not handle)
ExcNames == {"PlanErr", "DevErr", "FailedStatus", "IMS", "InvalidCommand", "TransitionError", "WaitTimeout", "StopIteration",
             "Err:ValueError", "Err:RuntimeError", "Err:KeyError", "Err:TypeError", "Err:AssertionError", "Err:AttributeError"}
OwnErr(m, outcome) == \E x \in ExcNames : outcome = "exc:" \o x /\ m.planRaised = "raise:" \o x
ExpectedStatus(m, outcome) ==
  \* (an error that the plan did not raise, after a failed pause, is the engine's own: the run was to be aborted)
  IF outcome \notin ({"ok", "interrupted"} \cup ControlExc) /\ (OwnErr(m, outcome) \/ ~m.failedPause) THEN {"fail"}
  ELSE IF m.termLate # {} \/ m.failedPauseLate THEN {"abort", "success"}      \* the plan had already ended when the request landed
  ELSE IF m.term \cap {"abort", "halt"} # {} /\ "stop" \in m.term THEN {"abort", "success"}
  ELSE IF m.term \cap {"abort", "halt"} # {} \/ m.failedPause THEN {"abort"}
  ELSE {"success"}

UpdRet(m, e, s2) ==
  LET op == e[2] outcome == e[3] st == e[4] resumable == e[7]
      allStopped == \A o \in 1..m.nruns : m.runs[o].stopped = 1
      terminated == m.term # {} \/ m.termLate # {} \/ m.failedPause
      \* (C03 is about executions that were only paused/resumed or suspended/released: not about aborted / stopped / halted ones)
      \* C13: a call that returns hands back the uids of the runs it opened, in order (the recorder compares them: -1 = they differ)
      mmU == ViolIf(m, e[6] < 0, "C13:returned-uids-differ")
      mm0 == ViolIf(mmU, ~m.faulty /\ m.term = {} /\ m.termLate = {} /\ outcome \notin {"ok", "interrupted", m.expOutcome} /\ outcome # "exc:TransitionError",
                    "C03:unexpected-error")
      \* C03: an execution that was only paused/resumed or suspended/released records the same data as the uninterrupted one
      clean == m.term = {} /\ m.termLate = {} /\ ~m.failedPause /\ ~m.faulty /\ outcome = "ok" /\ st = "idle" /\ m.expData # {} /\ m.expOutcome = "ok"
      mm1 == IF clean THEN ViolIf(ViolIf(mm0, \E x \in m.expData : \A y \in m.gotData : <<y[1], y[2], y[3]>> # <<x[1], x[2], x[3]>>, "C03:data-point-lost"),
                                  \E y \in m.gotData : y \notin m.expData, IF \E y \in m.gotData : \A x \in m.expData : <<y[1], y[2], y[3]>> # <<x[1], x[2], x[3]>>
                                                                          THEN "C03:extra-data-point" ELSE "C03:data-differs")
             ELSE mm0
      \* C42: every run opened in this call has one span, ended exactly once, with the run's own exit status
      rs == (m.callRuns + 1)..m.nruns
      mmS == IF st = "idle" /\ m.tracing THEN
                ViolIf(ViolIf(ViolIf(ViolIf(mm1, \E o \in rs : m.runs[o].span = 0, "C42:run-without-span"),
                                     \E o \in rs : m.runs[o].span # 0 /\ m.runs[o].spanEnds = 0, "C42:span-not-ended"),
                              \E o \in rs : m.runs[o].spanEnds > 1, "C42:span-ended-twice"),
                       \* (also for a run the plan closes itself after an abort/stop/halt: the span carries what the RunStop carries)
                       \E o \in rs : m.runs[o].spanEnds = 1 /\ m.runs[o].stopped = 1 /\ m.runs[o].spanStatus # m.runs[o].status,
                       "C42:span-status-differs")
             ELSE mm1
      \* C09: a deferred pause that met no checkpoint stays reported as pending until the next plan starts
      mmD == ViolIf(mmS, st = "idle" /\ m.deferPending /\ ~m.deferCkpt /\ m.term = {} /\ m.termLate = {} /\ ~m.failedPause /\ e[5] # "D",
                    "C09:pending-deferred-pause-not-reported")
      \* C11: the caller stays blocked while a suspension is in effect
      mm2 == ViolIf(mmD, m.suspWait /\ m.term = {} /\ m.termLate = {} /\ ~m.failedPause /\ outcome \in {"ok", "interrupted"} /\ st # "paused", "C11:returned-during-suspension")
      \* C12: a failed status must not be lost; an unhandled plan/device error is what the call raises
      mm3 == ViolIf(mm2, m.failPending /\ outcome = "ok", "C12:status-failure-lost")
      m0 == ViolIf(mm3, m.planRaised \in {"raise:DevErr", "raise:PlanErr", "raise:FailedStatus", "raise:IMS"} /\ st = "idle"
                        /\ outcome # ("exc:" \o (CASE m.planRaised = "raise:DevErr" -> "DevErr" [] m.planRaised = "raise:PlanErr" -> "PlanErr"
                                                      [] m.planRaised = "raise:FailedStatus" -> "FailedStatus" [] OTHER -> "IMS")),
                   "C12:unhandled-exception-not-raised")
      m1 == ViolIf(m0, st \notin {"idle", "paused"}, "C07:not-settled:" \o st)
      m2 == IF outcome = "interrupted"
            THEN ViolIf(ViolIf(m1, ~((st = "paused" /\ resumable = 1) \/ (terminated /\ st = "idle" /\ allStopped)),
                               "C08:interrupted-but-" \o st),
                        \* an interruption requested in a non-resumable section must end idle, not paused
                        st = "paused" /\ m.failedPause, "C08:paused-in-non-resumable-section")
            ELSE IF outcome = "ok" /\ op \in {"run", "resume"}
            THEN ViolIf(m1, ~(st = "idle" /\ m.planDone), "C08:normal-return-without-completion")
            ELSE m1
      m3 == IF st = "idle" THEN
               LET a == ViolIf(m2, ~allStopped, "C01:run-not-stopped-at-idle")
                   b == ViolIf(a, \E d \in Devices : m.dev[d].stg # 0, "C06:stage-unbalanced")
                   c == ViolIf(b, \E d \in Devices : m.dev[d].dirty, "C06:moved-not-stopped")
                   dc == ViolIf(c, \E d \in Devices : m.dev[d].fly, "C06:flyer-not-collected")
                   dd == ViolIf(dc, \E d \in Devices : m.dev[d].subs # 0, "C06:subscription-left")
                   \* C02: runs closed by the engine in this call chain
                   ee == ViolIf(dd, \E o \in (m.callRuns + 1)..m.nruns :
                                      m.runs[o].engineClosed /\ m.runs[o].status \notin ExpectedStatus(m, outcome),
                                "C02:exit-status")
                   \* C02: a run the engine closes as failed carries the text of the exception as its reason (not nothing, not
                   \* the reason that was handed to abort()); exceptions without a text are exempt
                   er == ViolIf(ee, \E o \in (m.callRuns + 1)..m.nruns :
                                      m.runs[o].engineClosed /\ m.runs[o].status = "fail" /\ m.runs[o].reason # "exc"
                                      /\ outcome \notin {"exc:Err:ValueError", "exc:Err:AssertionError"},
                                "C02:fail-reason")
                   \* C10: after a failed pause the call must report the interruption
                   ff == ViolIf(er, m.failedPause /\ op \in {"run", "resume"}
                                    /\ (outcome = "ok" \/ (outcome \notin ({"interrupted"} \cup ControlExc) /\ ~OwnErr(m, outcome))), "C10:not-reported")
                   \* C05: num_events present for every stream that has events
                   Missing(kd) == \E o \in 1..m.nruns : \E sn \in Streams :
                                      StreamClass(sn) = kd /\ m.runs[o].stopped = 1 /\ m.runs[o].maxseq[sn] > 0 /\ m.runs[o].nev[sn] = 99
                   gg == ViolIf(ViolIf(ViolIf(ff, Missing("bundle"), "C05:num_events-missing"),
                                       Missing("monitor"), "C05:num_events-missing:monitor"),
                                Missing("interruptions"), "C05:num_events-missing:interruptions")
               IN gg
            ELSE m2
  IN [m3 EXCEPT !.reqs = IF Len(@) > 0 /\ @[Len(@)].out = "" /\ @[Len(@)].kind \in {"call:resume", "call:abort", "call:stop", "call:halt"}
                          THEN [@ EXCEPT ![Len(@)].out = outcome] ELSE @]

\* where a request landed, in terms of observable events only: "tail" = after the plan ended, "paused", else "run"
Where(m) == IF m.planDone THEN "tail" ELSE IF m.st = "paused" THEN "paused" ELSE "run"
MonSigOf(sus) == IF sus = "s1" THEN "sig1" ELSE IF sus = "s2" THEN "sig2" ELSE "sig3"
CanTrip(m) == m.st \in {"idle", "running", "suspending"}
UpdSus(m, e) ==
  LET op == e[2] name == e[3] v == e[6] IN
  CASE op = "sus_install" ->
         [m EXCEPT !.susInst = @ \cup {name}, !.susUsed = TRUE,
                   !.susEff = IF MonSigOf(name) \in m.sigHigh /\ CanTrip(m) THEN @ \cup {name} ELSE @,
                   !.trips = IF MonSigOf(name) \in m.sigHigh /\ m.st \in {"running", "suspending"} THEN @ + 1 ELSE @]
    [] op = "sus_remove" -> [m EXCEPT !.susInst = @ \ {name}, !.susEff = @ \ {name}]
    [] op = "sig_put" ->
         IF v = 2 THEN [m EXCEPT !.lastSig = name] ELSE          \* (a value inside a suspender's dead band: neither trips nor releases)
         IF v # 0 THEN [m EXCEPT !.lastSig = name, !.sigHigh = @ \cup {name},
                                 !.susEff = IF CanTrip(m) THEN @ \cup {x \in m.susInst : MonSigOf(x) = name} ELSE @,
                                 !.trips = IF m.st \in {"running", "suspending"} /\ name \notin m.sigHigh
                                           THEN @ + Cardinality({x \in m.susInst : MonSigOf(x) = name}) ELSE @]
         ELSE [m EXCEPT !.lastSig = name, !.sigHigh = @ \ {name}, !.susEff = {x \in @ : MonSigOf(x) # name}]
    [] OTHER -> m

UpdReq(m, e, s) ==
  IF e[2] \in {"sus_install", "sus_remove", "sig_put"}
  \* (a signal change is recorded with the direction of the change -- sig_put1 / sig_put0 -- so that findings can name it)
  THEN UpdSus([m EXCEPT !.curCmd = "", !.curRun = "none", !.cmdSave = IF m.curCmd # "" THEN <<m.curCmd, m.curRun>> ELSE @,
                        !.reqs = Append(@, [kind |-> IF e[2] = "sig_put" THEN (IF e[6] = 2 THEN "sig_put2" ELSE IF e[6] # 0 THEN "sig_put1" ELSE "sig_put0") ELSE e[2],
                                            pc |-> Where(m), st |-> m.st, res |-> m.ckpt, out |-> "", after |-> m.lastCmd])], e) ELSE
  LET kind == e[2]
      rec == [kind |-> kind, pc |-> Where(m), st |-> m.st, res |-> m.ckpt, out |-> "", after |-> m.lastCmd]
  IN [m EXCEPT !.reqs = Append(@, rec), !.curCmd = "", !.curRun = "none", !.hardReq = (@ \/ kind = "pause"),
               !.cmdSave = IF m.curCmd # "" THEN <<m.curCmd, m.curRun>> ELSE @]

UpdReqRet(m, e, s2) ==
  LET kind == e[2] out == e[3]
      \* the request this completion belongs to: the latest one of that kind still without an outcome (requests made back to
      \* back complete in any order)
      cand == {i \in 1..Len(m.reqs) : (m.reqs[i].kind = kind \/ (kind = "sig_put" /\ m.reqs[i].kind \in {"sig_put0", "sig_put1", "sig_put2"})) /\ m.reqs[i].out = ""}
      ix == IF cand = {} THEN Len(m.reqs) ELSE CHOOSE i \in cand : \A j \in cand : j <= i
      last == m.reqs[ix]
      m1 == [m EXCEPT !.reqs[ix].out = out]
      acc == out = "ok"
      \* a signal update whose delivery to the suspender raised (SuspenderBase.__make_event gives the loop 0.1 s of wall-clock time
      \* to create its event and gives up otherwise -- a loaded machine, DESIGN.md 8.3): that trip did not happen
      m1u == IF kind = "sig_put" /\ ~acc /\ Len(m.reqs) > 0 /\ last.kind = "sig_put1"
             THEN [m1 EXCEPT !.sigHigh = @ \ {m.lastSig}, !.susEff = {x \in @ : MonSigOf(x) # m.lastSig},
                             !.trips = IF @ >= Cardinality({x \in m.susInst : MonSigOf(x) = m.lastSig})
                                       THEN @ - Cardinality({x \in m.susInst : MonSigOf(x) = m.lastSig}) ELSE 0]
             ELSE m1
      m1x == ViolIf(m1u, kind = "sus_remove" /\ ~acc, "C31:remove-failed")
      m2 == IF acc /\ kind \in {"abort", "stop", "halt"} /\ last.st # "idle"
            THEN (IF last.pc = "tail" THEN [m1x EXCEPT !.termLate = @ \cup {kind}] ELSE [m1x EXCEPT !.term = @ \cup {kind}])
            ELSE m1x
      m3 == IF kind \in {"pause", "suspend"} /\ ~last.res /\ last.st \in {"running", "paused"} /\ acc
            THEN [m2 EXCEPT !.failedPause = TRUE, !.failedPauseLate = (@ \/ last.pc = "tail")] ELSE m2
      m4 == IF kind = "defer" /\ acc THEN [m3 EXCEPT !.deferPending = TRUE] ELSE m3
      m5 == IF kind = "suspend" /\ acc /\ last.res /\ last.st = "running" THEN [m4 EXCEPT !.susp = @ \cup {e[3]}] ELSE m4
      \* the command during which the request(s) arrived goes on (e.g. a collect that was awaiting describe_collect() emits its
      \* events afterwards): what is emitted from now on is its output again
      m6 == IF m5.cmdSave[1] # "" /\ \A i \in 1..Len(m5.reqs) : m5.reqs[i].out # "" \/ m5.reqs[i].kind \in {"call:resume", "call:abort", "call:stop", "call:halt"}
            THEN [m5 EXCEPT !.curCmd = m5.cmdSave[1], !.curRun = m5.cmdSave[2], !.cmdSave = <<"", "none">>] ELSE m5
  IN m6

UpdCall(m, e, s) ==
  LET op == e[2] IN
  IF op = "run" THEN [m EXCEPT !.movedEver = {}, !.curCmd = "", !.c04off = FALSE, !.recIntr = (e[3] = "ri"), !.genYielded = FALSE, !.planMsg = [cmd |-> "", obj |-> "", run |-> "", a |-> ""], !.stPend = {}, !.planRaised = "",
                               !.devErrPending = FALSE, !.failPending = FALSE, !.curRun = "none", !.pendingOpen = "none", !.dupOpen = FALSE,
                               !.bundle = [k \in RunKeys |-> [open |-> FALSE, mask |-> 0, n |-> 0, collide |-> FALSE]],
                               !.expectEvent = "none", !.gotEvent = FALSE, !.suspStopDue = {}, !.gotData = {},
                               !.keyOrd = [k \in RunKeys |-> 0],
                               !.term = {}, !.termLate = {}, !.failedPause = FALSE, !.failedPauseLate = FALSE, !.failedPauseSelf = FALSE, !.hardReq = FALSE, !.callRuns = m.nruns, !.deferPending = FALSE,
                               !.deferCkpt = FALSE, !.deferPaused = FALSE, !.since = <<>>, !.expect = <<>>, !.replaying = FALSE, !.ckpt = TRUE,
                               !.susp = {}, !.suspWait = FALSE, !.suspEver = FALSE, !.pausedNow = FALSE, !.faulty = FALSE, !.lastCmd = "", !.reqs = <<>>,
                               !.planDone = FALSE, !.tsub = 0, !.tOwe = 0,
                               !.dev = [d \in Devices |-> [@[d] EXCEPT !.lost = 0]]]
  ELSE LET rec == [kind |-> "call:" \o op, pc |-> Where(m), st |-> m.st, res |-> m.ckpt, out |-> "", after |-> m.lastCmd]
           m1 == [m EXCEPT !.reqs = Append(@, rec)]
       IN IF op = "resume" /\ m.noReplay /\ m.since = <<>> THEN [m1 EXCEPT !.noReplay = FALSE,      \* (nothing to rewind: open bundles go on)
                                  !.runs = [o \in 1..MaxRuns |-> IF m1.runs[o].started /\ m1.runs[o].stopped = 0 /\ m1.recIntr
                                                                  THEN [m1.runs[o] EXCEPT !.intrWant = @ + 1] ELSE m1.runs[o]]]
          ELSE IF op = "resume" THEN [m1 EXCEPT !.noReplay = FALSE, !.runs = [o \in 1..MaxRuns |-> IF m1.runs[o].started /\ m1.runs[o].stopped = 0 /\ m1.recIntr
                                                                          THEN [SeqRewind(m1).runs[o] EXCEPT !.intrWant = @ + 1] ELSE SeqRewind(m1).runs[o]],
                                         !.bundle = [k \in RunKeys |-> [m1.bundle[k] EXCEPT !.open = FALSE]],
                                         !.rew = @ + 1, !.expect = m.since \o m.expect, !.replaying = (m.since \o m.expect # <<>>), !.since = <<>>]
          ELSE [m1 EXCEPT !.term = @ \cup {op}]

\* C18: every document emitted while the plan's own subscriptions are live reaches each of them exactly once, before anything
\* else happens (records derived from the same document may come in between); none reaches a consumer that was unsubscribed or
\* belongs to an earlier call
DocAux == {"nev", "dsc", "cfg", "dat", "sdn", "exp"}
UpdTDoc(m, e) ==
  IF m.tOwe = 0 THEN Viol(m, IF m.tsub = 0 THEN "C18:document-delivered-to-dropped-subscription" ELSE "C18:document-delivered-twice")
  ELSE ViolIf([m EXCEPT !.tOwe = @ - 1], <<e[2], e[7]>> # m.tDoc, "C18:wrong-document-delivered")
Upd(m00, e, s, s2) ==
  LET k == e[1]
      m == IF k \notin DocAux \cup {"tdoc"} /\ m00.tOwe > 0 THEN Viol([m00 EXCEPT !.tOwe = 0], "C18:in-plan-subscriber-missed-document") ELSE m00
  IN
  CASE k = "doc" -> [UpdDoc(m, e) EXCEPT !.tOwe = m.tsub, !.tDoc = <<e[2], e[7]>>]
    [] k = "tdoc" -> UpdTDoc(m, e)
    [] k = "nev" -> UpdNev(m, e)
    [] k = "dev" -> UpdDev(m, e)
    [] k = "msg" -> UpdMsg([m EXCEPT !.inObsClose = (e[2] = "close_run")], e)
    [] k = "state" -> UpdState(m, e)
    [] k = "ret" -> UpdRet(m, e, s2)
    [] k = "req" -> UpdReq(m, e, s)
    [] k = "reqret" -> UpdReqRet(m, e, s2)
    [] k = "call" -> UpdCall(m, e, s)
    [] k = "stat" -> LET m1 == [m EXCEPT !.stPend = {p \in @ : p[2] # e[6]}] IN
                     IF e[7] = 0 THEN [m1 EXCEPT !.faulty = TRUE, !.failPending = ~m.planDone, !.replaying = FALSE, !.expect = <<>>, !.c04off = TRUE] ELSE m1
    [] k = "dsc" -> UpdDsc(m, e)
    [] k = "cfg" -> UpdCfg(m, e)
    [] k = "dat" -> UpdDat(m, e)
    [] k = "exp" -> UpdExp(m, e)
    [] k = "span" -> UpdSpan(m, e)
    [] k = "hang" -> ViolIf(m, m.susEff = {} /\ m.susp = {}, "C31:engine-hung-with-no-suspender-tripped")
    [] k = "gen" -> UpdGen(m, e)
    [] OTHER -> m

RECURSIVE FoldEv(_, _, _, _, _)
FoldEv(m, es, i, s, s2) == IF i > Len(es) THEN m ELSE FoldEv(Upd(m, es[i], s, s2), es, i + 1, s, s2)

\* suspension release: a rewind happens when _start_suspender ran (its helper replays the cache after the wait)
MonNext == mon' = FoldEv(mon, Deliver(S.tsubs, obs'), 1, S, S')

\* ---------------------------------------------------------------------------
C01Tags == {"C01:duplicate-uid", "C01:schema-invalid", "C01:start-order", "C01:no-run-start", "C01:second-stop", "C01:doc-after-stop", "C01:event-without-descriptor",
            "C01:run-not-stopped-at-idle"}
C02Tags == {"C02:exit-status", "C02:fail-reason"}
C03Tags == {"C03:unexpected-error", "C03:data-point-lost", "C03:extra-data-point", "C03:data-differs"}
C04Tags == {"C04:replay-mismatch", "C04:unexpected-replay"}
C05Tags == {"C05:gap:bundle", "C05:gap:monitor", "C05:gap:interruptions",
            "C05:duplicate-seq:bundle", "C05:duplicate-seq:monitor", "C05:duplicate-seq:interruptions",
            "C05:num_events:bundle", "C05:num_events:monitor", "C05:num_events:interruptions", "C05:num_events-missing", "C05:num_events-missing:monitor",
            "C05:num_events-missing:interruptions"}
C06Tags == {"C06:stage-unbalanced", "C06:moved-not-stopped", "C06:subscription-left", "C06:flyer-not-collected"}
C07Settled == {"C07:not-settled:running", "C07:not-settled:pausing", "C07:not-settled:suspending", "C07:not-settled:halting",
               "C07:not-settled:stopping", "C07:not-settled:aborting", "C07:not-settled:panicked"}
C08Tags == {"C08:interrupted-but-idle", "C08:interrupted-but-paused", "C08:interrupted-but-running", "C08:interrupted-but-pausing",
            "C08:interrupted-but-suspending", "C08:interrupted-but-aborting", "C08:interrupted-but-stopping", "C08:interrupted-but-halting",
            "C08:normal-return-without-completion", "C08:paused-in-non-resumable-section"}
C09Tags == {"C09:pending-deferred-pause-not-reported", "C09:message-after-deferred-checkpoint", "C09:replay-after-deferred-pause", "C09:deferred-pause-not-at-checkpoint"}
C10Tags == {"C10:paused-after-failed-pause", "C10:not-reported", "C10:cleanup-interrupted:self-pause", "C10:cleanup-interrupted:request"}
C11Tags == {"C11:plan-ran-while-suspender-tripped", "C11:moved-not-stopped-at-suspension", "C11:plan-resumed-during-suspension", "C11:returned-during-suspension"}
C12Tags == {"C12:device-error-not-delivered", "C12:status-failure-after-checkpoint", "C12:status-failure-lost", "C12:unhandled-exception-not-raised",
            "C12:wait-done-with-pending-status"}
C14Tags == {"C14:document-in-wrong-run", "C14:duplicate-open-accepted", "C14:message-applied-to-wrong-run"}
C15Tags == {"C15:save-rejected-in-open-bundle", "C15:event-from-empty-bundle", "C15:event-missing", "C15:colliding-read-accepted", "C15:checkpoint-inside-bundle-accepted",
            "C15:configure-inside-bundle-accepted", "C15:event-keys-differ-from-bundle", "C15:event-keys-differ-from-descriptor"}
C16Tags == {"C16:stale-configuration", "C16:event-references-old-descriptor"}
C31Tags == {"C31:remove-failed", "C31:plan-started-while-suspender-tripped", "C31:suspended-without-tripped-suspender",
            "C31:engine-hung-with-no-suspender-tripped"}
C18Tags == {"C18:in-plan-subscriber-missed-document", "C18:document-delivered-to-dropped-subscription", "C18:document-delivered-twice",
            "C18:wrong-document-delivered"}
C42Tags == {"C42:run-without-span", "C42:span-not-ended", "C42:span-ended-twice", "C42:span-status-differs"}
C40Tags == {"C40:count", "C40:stream-when-disabled", "C05:duplicate-seq:interruptions", "C05:num_events:interruptions", "C05:gap:interruptions"}
C41Tags == {"C41:update-while-paused", "C41:update-while-suspended", "C41:event-after-run-end", "C05:duplicate-seq:monitor", "C05:num_events:monitor"}

C03 == mon.viol \cap C03Tags = {}
C02 == mon.viol \cap C02Tags = {}
C04 == mon.viol \cap C04Tags = {}
C05 == mon.viol \cap C05Tags = {}
C06 == mon.viol \cap C06Tags = {}
C07 == mon.viol \cap C07Settled = {}
C08 == mon.viol \cap C08Tags = {}
C09 == mon.viol \cap C09Tags = {}
C10 == mon.viol \cap C10Tags = {}
C40 == mon.viol \cap C40Tags = {}
C41 == mon.viol \cap C41Tags = {}

\* reporting (used as ACTION_CONSTRAINT: always TRUE): print every newly violated clause with the request signature
Report(id) == mon'.viol = mon.viol \/ PrintT("PROPVIOL " \o ToString(<<id, mon'.viol \ mon.viol, mon'.reqs>>))

\* C07 (no stuck): once the run task is done the engine is idle
C07_TaskDoneIdle == S.pc = "done" => S.st = "idle"
=============================================================================
