"""Stub RunEngine / loop / signal used to drive the REAL bluesky suspender classes one callback at a time (C30).

Nothing of bluesky is patched: a suspender only needs `RE._loop` (call_soon_threadsafe / call_later),
`RE.state.is_running` and `RE.request_suspend`; the signal only needs subscribe / clear_sub / get / value / name.
The stub loop runs `call_soon_threadsafe` callbacks inline and keeps `call_later` callbacks on a virtual clock
(`advance()` runs everything that is due; the drivers below always advance past the sleep, i.e. the suspender's
`sleep` is abstracted to "eventually").
"""
import warnings

# class name in Suspenders.tla -> names of the bluesky classes that document that behaviour
IMPL = {
    "BoolHigh": ["SuspendBoolHigh"],
    "BoolLow": ["SuspendBoolLow"],
    "Floor": ["SuspendFloor"],
    "Ceil": ["SuspendCeil"],
    "WhenOutsideBand": ["SuspendWhenOutsideBand", "SuspendInBand"],
    "OutBand": ["SuspendOutBand"],
    "WhenChanged": ["SuspendWhenChanged"],
}


class _Handle:
    def __init__(self):
        self.cancelled = False

    def cancel(self):
        self.cancelled = True


class StubLoop:
    """call_soon_threadsafe: inline.  call_later: virtual clock."""

    def __init__(self):
        self.now = 0.0
        self.timers = []       # (when, n, fn, args, handle)
        self.delays = []       # every delay asked for (observed, not judged)
        self._n = 0

    def call_soon_threadsafe(self, fn, *args, **kw):
        h = _Handle()
        fn(*args)
        return h

    call_soon = call_soon_threadsafe

    def call_later(self, delay, fn, *args, **kw):
        h = _Handle()
        self._n += 1
        self.delays.append(delay)
        self.timers.append((self.now + delay, self._n, fn, args, h))
        return h

    def time(self):
        return self.now

    def advance(self):
        """run every timer, in time order (the sleep of the suspender elapses)"""
        while self.timers:
            self.timers.sort(key=lambda t: (t[0], t[1]))
            when, _, fn, args, h = self.timers.pop(0)
            self.now = max(self.now, when)
            if not h.cancelled:
                fn(*args)


class _State:
    def __init__(self, running):
        self.is_running = running
        self.is_idle = not running

    def __eq__(self, other):
        return other == ("running" if self.is_running else "idle")


class StubRE:
    """records request_suspend calls; the future factory handed over is `event.wait`"""

    def __init__(self, running=True):
        self._loop = StubLoop()
        self.loop = self._loop
        self.state = _State(running)
        self.requests = []     # dicts: event (object behind fut), pre_plan, post_plan, justification

    def request_suspend(self, fut, *, pre_plan=None, post_plan=None, justification=None):
        self.requests.append({"fut": fut, "event": getattr(fut, "__self__", None), "pre_plan": pre_plan,
                              "post_plan": post_plan, "justification": justification})


class FakeSignal:
    """the part of ophyd.Signal a suspender uses"""

    def __init__(self, value, name="sig"):
        self._value = value
        self.name = name
        self.subs = []

    @property
    def value(self):
        return self._value

    def get(self):
        return self._value

    def subscribe(self, cb, event_type=None, run=True):
        self.subs.append(cb)
        if run:
            cb(value=self._value, old_value=self._value, obj=self, sub_type=event_type or "value", timestamp=0.0)
        return len(self.subs)

    def clear_sub(self, cb, event_type=None):
        self.subs = [c for c in self.subs if c is not cb]

    def put(self, v):
        old, self._value = self._value, v
        for cb in list(self.subs):
            cb(value=v, old_value=old, obj=self, sub_type="value", timestamp=0.0)

    def __repr__(self):
        return f"FakeSignal({self.name})"


def make_signal(kind, value):
    if kind == "ophyd":
        from ophyd import Signal
        sig = Signal(name="sig", value=value)
        sig.put(value)      # ophyd replays the last *emitted* value on subscribe(run=True): emit one, as a live signal has
        return sig
    return FakeSignal(value)


def conv(x, rep):
    """TLA+ integer -> python value in the chosen representation.  rep: 'int' | 'float' | 'half' (x/2, for traces
    scaled by 2) | 'bool' (0/1 only)"""
    if rep == "float":
        return float(x)
    if rep == "half":
        return x / 2.0
    if rep == "bool":
        return bool(x)
    if rep == "npfloat":
        import numpy as np
        return np.float64(x)
    if rep == "npint":
        import numpy as np
        return np.int64(x)
    return int(x)


def build(cls, impl_name, p, sig, rep="int", sleep=0):
    """construct the real suspender for spec class `cls` with spec parameters p = {a, agiven, b, bgiven, allow}"""
    import bluesky.suspenders as S
    K = getattr(S, impl_name)
    a, b = conv(p["a"], rep), conv(p["b"], rep)
    with warnings.catch_warnings():
        warnings.simplefilter("ignore")
        if cls in ("BoolHigh", "BoolLow"):
            return K(sig, sleep=sleep)
        if cls in ("Floor", "Ceil"):
            if p["bgiven"]:
                return K(sig, a, resume_thresh=b, sleep=sleep)
            return K(sig, a, sleep=sleep)
        if cls in ("WhenOutsideBand", "OutBand"):
            return K(sig, a, b, sleep=sleep)
        if cls == "WhenChanged":
            if p["agiven"]:
                return K(sig, expected_value=a, allow_resume=bool(p["allow"]), sleep=sleep)
            return K(sig, allow_resume=bool(p["allow"]), sleep=sleep)
    raise ValueError(cls)


class Unobservable(RuntimeError):
    """the waitable handed out by the suspender is not `asyncio.Event.wait` -- the harness cannot observe its release"""


def _event_of(fut):
    e = getattr(fut, "__self__", None)
    if e is None or not hasattr(e, "is_set"):
        raise Unobservable(f"suspender handed out {fut!r}; expected the bound method wait of an asyncio.Event")
    return e


def drive(cls, impl_name, p, running, v0, values, rep="int", sigkind="fake", sleep=0):
    """Install the real suspender on a stub engine with the signal at v0, then put each value.
    Returns (observations, suspender); one observation per callback (the install callback first):
      {v, tripped, requested, released, pending}
    requested: number of request_suspend calls made during this callback
    released : number of events (handed out through request_suspend or get_futures) that became set during it
               (after the suspender's sleep has elapsed on the virtual clock)
    pending  : some event handed out so far is not set (get_futures() is consulted after every callback, so an
               event created while the engine was not running is known as well)
    """
    import contextlib
    import io
    RE = StubRE(running)
    sig = make_signal(sigkind, conv(v0, rep))
    sus = build(cls, impl_name, p, sig, rep, sleep)
    known = []      # events handed out so far
    obs = []

    def learn(e):
        if all(e is not k for k in known):
            known.append(e)

    def step(v, action):
        nreq = len(RE.requests)
        was_set = [e.is_set() for e in known]
        with contextlib.redirect_stdout(io.StringIO()):      # the suspender prints when it releases
            action()
            RE._loop.advance()                               # the sleep elapses
        nknown = len(known)
        for r in RE.requests[nreq:]:
            learn(_event_of(r["fut"]))
        released = sum(1 for e, w in zip(known[:nknown], was_set) if e.is_set() and not w)
        released += sum(1 for e in known[nknown:] if e.is_set())       # handed out and released in one callback
        futs, _just = sus.get_futures()
        for f in futs:
            learn(_event_of(f))
        obs.append({"v": v, "tripped": bool(sus.tripped), "requested": len(RE.requests) - nreq, "released": released,
                    "pending": any(not e.is_set() for e in known)})

    step(v0, lambda: sus.install(RE))
    for v in values:
        step(v, lambda v=v: sig.put(conv(v, rep)))
    return obs, sus


def predicates(cls, impl_name, p, v0, vals, rep="int"):
    """(_should_suspend(v), _should_resume(v)) of the real class for each v (the anchors of C30 name these methods)"""
    sig = FakeSignal(conv(v0, rep))
    sus = build(cls, impl_name, p, sig, rep)
    return [(bool(sus._should_suspend(conv(v, rep))), bool(sus._should_resume(conv(v, rep)))) for v in vals]
