\* quick-tier instance of harness/props/C29.py: tune_centroid(0, 2, min_step 1/2, num 3, step_factor 2), no bound on the
\* number of visits (MaxIter = TC_Bound + 1); the check adds CONSTRAINT DumpHist to print the histories it replays.
CONSTANTS
  Plan = "tune"
  Den = 2
  StartN = 0
  StopN = 4
  MinStepN = 1
  MaxStepN = 4
  TargetN = 4
  ThrN = 4
  ThrD = 5
  Num = 3
  SfN = 2
  SfD = 1
  Readings = {0, 1, 5}
  MaxIter = 7
  Fuzz = TRUE
  Flips = {FALSE, TRUE}
  Backsteps = {FALSE, TRUE}
  Snakes = {FALSE, TRUE}
SPECIFICATION Spec
INVARIANT TypeOK
INVARIANT TC_VisitedInRange
INVARIANT TC_ParkInRange
INVARIANT TC_PassInRange
INVARIANT IterBound
PROPERTY TC_StepShrinks
