"""C46 -- TiledWriter stores exactly the run it was given.

spec/tiled/TiledBatch.tla models the batching of _RunWriter: a row cache per stream written at the batch size and at
stop, one cached (merged) stream datum per stream resource with the not-adjacent fallback, and the row counters of the
arrays registered for the external keys.  TLC checks exhaustively (all batch sizes 0..3, all interleavings, contiguous
and non-contiguous index ranges) that at stop the written rows of each stream are its events in seq_num order, that
every received index range has been consumed exactly once and that each array is as long as the stream datums
received.  TLC-enumerated runs and random runs (two streams, event pages, several resources per key, gaps / repeated /
out-of-order ranges, batch sizes 0..5) are written by the real TiledWriter into the in-process Tiled catalog built as in
the repository's tests; afterwards the container is read back (metadata, table rows and values, array lengths, node
names) and compared with the TLC case and, as a `final` event of the recorded trace, validated by TLC.

Assurance: bounded-exhaustive model checking of the batching design plus conformance of the real TiledWriter + Tiled
server on every executed run (read-back compared with the specification by TLC); in the quick tier only a seeded sample
of the enumerated cases is executed because each run costs ~0.3 s of server round trips.
"""
import json
import random
import threading
import time

from harness.tlc import run_tlc, write_cfg, SPEC
from harness import tiled_helpers as th

SD = SPEC / "tiled"
DESIGN_REF = "DESIGN.md section 7 (C46); notes/C46.md"

JO = th.JO_FAST      # short runs: skip the optimizing JIT, small heap
INV = ["TypeOK", "C46_RowsAtStop", "C46_RowsConserved", "C46_CacheBelowBatch", "C46_ConsumedOnceAtStop", "C46_RangesConserved",
       "C46_ArrayLengthAtStop", "C46_RowsCountConsumed"]


def bcfg(ctx, name, ev, sd, idx, canonical=False, nres=2, constraints=()):
    return write_cfg(ctx.out / name, {"Batches": {0, 1, 2, 3}, "MaxEv": ev, "NStreams": 2, "MaxSD": sd, "NRes": nres, "MaxIdx": idx,
                                      "MaxLen": 2, "Canonical": canonical, "MaxRedesc": 1 if canonical else 0}, invariants=INV, constraints=constraints)


def ops_sig(ops):
    return "".join(f"e{o['d']}" if o["op"] == "event" else f"D{o['d']}" if o["op"] == "redesc" else f"s{o['r']}[{o['a']},{o['b']})" for o in ops)


def compare_final(final, exp_rows, exp_arr):
    """list of aspects of the read-back container that differ from what the specification says"""
    bad = []
    if [[(r["s"], r["v"]) for r in d] for d in final["rows"]] != [[(r["s"], r["v"]) for r in d] for d in exp_rows]:
        bad.append("rows")
    if list(final["arr"][:len(exp_arr)]) != list(exp_arr) or any(final["arr"][len(exp_arr):]):
        bad.append("arrays")
    if not final["meta"]:
        bad.append("metadata")
    if not final["nodes"]:
        bad.append("nodes")
    return bad


def run(ctx):
    q = ctx.quick
    rng = random.Random(ctx.seed)
    t0 = time.time()
    # ------------------------------------------------------------------ 1. TLC (in the background) while the Tiled server starts
    jobs = {
        "events": lambda: run_tlc("TiledBatch", bcfg(ctx, "events.cfg", 5, 0, 4), spec_dir=SD, tag="C46a", timeout=3000, workers=1, java_opts=JO),
        "stream_datums": lambda: run_tlc("TiledBatch", bcfg(ctx, "sd.cfg", 0, 3 if q else 4, 4), spec_dir=SD, tag="C46b", timeout=3000,
                                         workers=3 if q else "auto", java_opts=JO if q else th.JO_BIG),
        "combined": lambda: run_tlc("TiledBatch", bcfg(ctx, "comb.cfg", 3 if q else 5, 2 if q else 4, 3 if q else 4), spec_dir=SD, tag="C46c", timeout=3000,
                                    workers=3 if q else "auto", java_opts=JO if q else th.JO_BIG),
        "cases": lambda: run_tlc("TiledBatch", bcfg(ctx, "cases.cfg", 2 if q else 3, 2, 2 if q else 4, canonical=True, constraints=["DumpCase"]),
                                 spec_dir=SD, tag="C46d", timeout=3000, workers=1, java_opts=JO if q else th.JO_BIG),
        # events only, one mid-run re-description of a stream (two descriptors for one stream): rows stay in seq_num order
        "cases_redesc": lambda: run_tlc("TiledBatch", bcfg(ctx, "cases_redesc.cfg", 4 if q else 5, 0, 2, canonical=True, constraints=["DumpCase"]),
                                        spec_dir=SD, tag="C46e", timeout=3000, workers=1, java_opts=JO),
    }
    box = {}

    def bg():
        try:
            box["res"] = th.run_parallel(jobs)
        except Exception as ex:  # noqa
            box["exc"] = ex
    thr = threading.Thread(target=bg)
    thr.start()
    env = th.TiledEnv(ctx.out)
    try:
        env.__enter__()
        ctx.note(f"phase tiled start-up: {time.time() - t0:.1f}s")
        thr.join()
        if "exc" in box:
            raise box["exc"]
        res = box["res"]
        ctx.note(f"phase TLC done after {time.time() - t0:.1f}s")
        for nm, r in res.items():
            ctx.add_tlc(r, nm)
            if not r.ok:
                st = r.trace[-1][1] if r.trace else {}
                ctx.violation(f"spec:{nm}:{r.violated}", f"TiledBatch.tla run {nm}: {r.kind} {r.violated} violated: {str(st)[:1500]}",
                              {"tlc_trace": str(r.trace)[:4000]})
                return
        ctx.cov["exhaustive"] = True
        cases = th.printed_json(res["cases"].stdout, "CASE")
        if not cases:
            ctx.machinery("no cases printed by the TiledBatch replay configuration")
        ctx.rule = ("cases = complete canonical histories (events, then stream datums, then stop) of the replay configuration printed by "
                    f"TLC ({len(cases)} cases); a seeded sample of them (all of them would need ~0.3 s each) is written by a real "
                    "TiledWriter into the in-process Tiled catalog and the read-back container compared with the case; plus random runs "
                    "(pages, 1-3 resources, gaps/repeats/out-of-order ranges, batch 0..5); non-trivial = at least one event and one stream "
                    "datum or a batch boundary inside a stream; distinct by (batch, key map, operation sequence).")
        traces, labels = [], []
        nrun = [0]

        def execute(ops, keyof, batch, label, pages=False, exp=None):
            nrun[0] += 1
            uid = f"c46-{ctx.seed}-{nrun[0]}-{rng.randrange(10**9)}"
            try:
                trace, detail = th.execute_batch_run(env, uid, ops, keyof, batch, nres=3, rng=rng, pages=pages)
            except Exception as ex:  # a legal run must be written and be readable
                ctx.violation(f"writer-raised:{type(ex).__name__}:batch={batch}:{ops_sig(ops)}",
                              f"TiledWriter(batch_size={batch}) / read-back raised {ex!r} on run {ops_sig(ops)} keyof={keyof}",
                              {"ops": ops, "keyof": keyof, "batch": batch, "pages": pages})
                return
            nev = sum(o["op"] == "event" for o in ops)
            nsd = sum(o["op"] == "stream_datum" for o in ops)
            ctx.case((batch, tuple(keyof), ops_sig(ops), pages), (nev > 0 and nsd > 0) or nev > max(batch, 1))
            traces.append(trace)
            labels.append({"label": label, "ops": ops, "keyof": keyof, "batch": batch, "pages": pages, "read_back": detail})
            if exp is not None:
                bad = compare_final(trace[-1], exp["table"], exp["arr"])
                for aspect in bad:
                    ctx.violation(f"replay:{aspect}:batch={batch}:keyof={keyof}:{ops_sig(ops)}",
                                  f"TiledWriter(batch_size={batch}) on TLC case {ops_sig(ops)}: read-back {aspect} differ: got rows={trace[-1]['rows']} "
                                  f"arr={trace[-1]['arr']} meta={trace[-1]['meta']} nodes={trace[-1]['nodes']}; specified rows={exp['table']} arr={exp['arr']}",
                                  labels[-1])
            if nev > 2 and nsd > 1:
                ctx.sample({"batch": batch, "run": ops_sig(ops), "rows": trace[-1]["rows"], "arr": trace[-1]["arr"]})

        # ------------------------------------------------------------------ 2. TLC cases on the real TiledWriter
        t1 = time.time()
        nontriv = [c for c in cases if any(h["op"] == "stream_datum" for h in c["hist"]) and any(h["op"] == "event" for h in c["hist"])]
        def straddles(c):
            # the re-description falls inside a batch of its stream and a full batch follows it
            h = c["hist"]
            for i, e in enumerate(h):
                if e["op"] == "redesc" and c["batch"] >= 2:
                    before = sum(x["op"] == "event" and x["d"] == e["d"] for x in h[:i])
                    after = sum(x["op"] == "event" and x["d"] == e["d"] for x in h[i:])
                    if before % c["batch"] != 0 and after >= c["batch"]:
                        return True
            return False
        rcases = th.printed_json(res["cases_redesc"].stdout, "CASE")
        redesc = [c for c in rcases if straddles(c)]
        if not redesc:
            ctx.machinery("no re-description case straddling a batch printed by the cases_redesc configuration")
        pick = (rng.sample(nontriv, min(len(nontriv), 18 if q else 350)) + rng.sample(cases, min(len(cases), 4 if q else 40))
                + rng.sample(redesc, min(len(redesc), 6 if q else 60)))
        for c in pick:
            ops = [{"op": h["op"], "d": h["d"], "r": h["r"], "a": h["a"], "b": h["b"]} for h in c["hist"] if h["op"] != "stop"]
            execute(ops, list(c["keyof"]), c["batch"], "tlc-case", exp=c)
        ctx.note(f"phase replay of {len(pick)} of {len(cases)} TLC cases: {time.time() - t1:.1f}s")
        # ------------------------------------------------------------------ 3. random runs
        t1 = time.time()
        nrand = 20 if q else 210
        for i in range(nrand):
            ops, keyof = th.random_batch_ops(rng, max_ev=6 if q else 9, max_sd=5 if q else 7)
            execute(ops, keyof, rng.choice([0, 1, 2, 2, 3, 3, 5]), f"random:{i}", pages=rng.random() < 0.5)
        ctx.note(f"phase {nrand} random runs: {time.time() - t1:.1f}s")
    finally:
        thr.join()
        env.__exit__(None, None, None)
    # ------------------------------------------------------------------ 4. all executed runs validated by TLC
    t1 = time.time()
    problems, nacc, results = th.validate_iter("TiledBatchTrace", "TiledBatchTrace.cfg", traces, SD, ctx.out, tag="C46t", shards=2 if q else 4)
    for r in results:
        ctx.add_tlc(r, "TiledBatchTrace")
    ctx.traces(nacc)
    ctx.note(f"phase trace validation: {time.time() - t1:.1f}s")
    unfinished = [d for i, k, d in problems if i < 0]
    real = [p for p in problems if p[0] >= 0]
    if unfinished and not real:
        ctx.machinery(f"TiledBatchTrace: {unfinished}")
    for idx, kind, detail in real:
        lb = labels[idx]
        t = traces[idx]
        if kind == "readback":
            aspects = [nm for bit, nm in ((1, "rows"), (2, "arrays"), (4, "metadata"), (8, "nodes")) if detail & bit]
            for aspect in aspects:
                ctx.violation(f"read-back:{aspect}:batch={lb['batch']}:keyof={lb['keyof']}:{ops_sig(lb['ops'])}",
                              f"after stop the Tiled container of run {ops_sig(lb['ops'])} written with batch_size={lb['batch']} differs from what "
                              f"TiledBatch.tla specifies ({aspect}): read back {json.dumps(t[-1])[:700]}", dict(lb, trace=t))
        elif kind == "invariant":
            ctx.violation(f"trace-invariant:{detail}:batch={lb['batch']}:{ops_sig(lb['ops'])}",
                          f"{detail} violated on the recorded execution of run {ops_sig(lb['ops'])} (batch_size={lb['batch']})", dict(lb, trace=t))
        else:
            ctx.violation(f"trace-rejected:batch={lb['batch']}:{ops_sig(lb['ops'])}",
                          f"TiledWriter execution not explained by TiledBatch.tla at step {detail}: {t[detail] if detail < len(t) else None}", dict(lb, trace=t))
    if unfinished:
        ctx.note(f"trace validation stopped early: {unfinished}")
    ctx.assumptions += [
        "events of a stream arrive in seq_num order (1, 2, ...) as the RunEngine emits them; event values are floats/ints of one type per column",
        "external data: hdf5 stream resources, one number per index, `_validate` not requested (validation deliberately replaces the "
        "counted length by the length found in the file)",
        "Tiled 0.2.x server, catalog, adapters and client are trusted as the observation channel (contents are read back through the public client)",
        "row values are compared with relative tolerance 1e-9",
    ]
