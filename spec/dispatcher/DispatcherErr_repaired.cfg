CONSTANTS
  NCb = 3
  Names = {"all", "start", "descriptor", "event", "stop"}
  PlanIds = {1, 2, 5}
  MaxRaise = 1
  DeliverAll = TRUE
SPECIFICATION Spec
INVARIANT TypeOK
INVARIANT C19_OnceInOrder
INVARIANT C19_InvocationOrder
INVARIANT C19_IgnoreDeliversAll
INVARIANT C19_PropagateDelivers
INVARIANT C19_IgnoreDoesNotStopPlan
INVARIANT C19_PropagateEndsPlan
INVARIANT C19_RunClosedFail
INVARIANT C19_RunClosedForAll_Strict
