------------------------------ MODULE Adaptive ------------------------------
(***************************************************************************)
(* C29 -- bluesky.plans.adaptive_scan and bluesky.plans.tune_centroid.     *)
(*                                                                         *)
(* Both loops are transcribed over EXACT rationals.  Every real quantity   *)
(* is a BigNat numerator over the common denominator  Den * M  (M is a     *)
(* BigNat state variable; every division of the loop multiplies M and all  *)
(* live numerators by a small integer, so no gcd is ever needed).  The     *)
(* detector is the environment: at every visit it answers with any value   *)
(* of Readings.                                                            *)
(*                                                                         *)
(* adaptive_scan is run in the normalised coordinate u = (x - start)*dir   *)
(* (0 = start, L = |stop - start| = stop), so `pos` is never negative.     *)
(*   loop guard   while next_pos*dir < stop*dir            (AS_Visit/Exit) *)
(*   first visit  past_I = I ; next_pos += step*dir                        *)
(*   later        dI = |I - past_I| ; slope = dI / step                    *)
(*                new = clip(target/slope, min, max)  or  min(1.1 step,max)*)
(*                backstep /\ new < step*threshold -> go back one step and *)
(*                    retry with step = new ; else past_I = I and          *)
(*                    step = 0.2 new + 0.8 step ; next_pos += step*dir     *)
(* The documented meaning of a backward step is "go back to where the last *)
(* accepted point was and advance by the smaller step".  The code subtracts*)
(* `step` without the direction sign, which is the same thing for          *)
(* stop >= start but moves FORWARD by step + new for stop < start.  Both   *)
(* are modelled (opt.bsdir); C29 only demands range and termination, which *)
(* hold for both.                                                          *)
(*                                                                         *)
(* tune_centroid is run in absolute coordinates (parameters >= 0).         *)
(*                                                                         *)
(* Fuzz = TRUE lets every comparison that is an exact equality in the      *)
(* rationals go either way: the implementation works in binary floating    *)
(* point and may resolve such a tie in either direction (e.g. the last     *)
(* point of a tune_centroid pass, start + (num-1)*step == stop).  All      *)
(* invariants are checked on both outcomes.                                *)
(***************************************************************************)
EXTENDS Integers, Sequences, FiniteSets, TLC, Json, BigNat

CONSTANTS
  Plan,        \* "adaptive" | "tune"
  Den,         \* common denominator of the parameters below
  StartN, StopN,          \* start, stop = StartN/Den, StopN/Den  (0 <= StartN < StopN; opt.flip swaps them)
  MinStepN, MaxStepN,     \* min_step, max_step (max_step only for adaptive)
  TargetN,                \* target_delta  (adaptive)
  ThrN, ThrD,             \* threshold = ThrN/ThrD, 0 < threshold < 1  (adaptive)
  Num, SfN, SfD,          \* num, step_factor = SfN/SfD > 1  (tune)
  Readings,               \* set of integers the detector may answer
  MaxIter,                \* exploration bound on the number of visits (choose > bound for an unconstrained run)
  Fuzz,                   \* BOOLEAN, see above
  Flips, Backsteps, Snakes   \* subsets of BOOLEAN explored by Init

VARIABLES
  opt,      \* [flip, backstep, bsdir, snake]  chosen in Init, constant afterwards
  it,       \* number of visits so far
  phase,    \* "run" | "done"
  M,        \* BigNat: current common denominator is Den * M
  pos,      \* next position (numerator)
  step,     \* |step| (numerator)
  up,       \* tune: the current pass ascends
  past,     \* adaptive: [set, v]  past_I
  ps, pe,   \* tune: start / stop of the current pass (numerators)
  sumI,     \* tune: sum of readings of the pass (integer)
  sumXI,    \* tune: sum of position*reading of the pass (numerator)
  peak,     \* tune: [set, n]  last centroid (numerator over Den*M)
  pass,     \* tune: number of completed passes
  parked,   \* tune: [set, n, m]  final move
  under,    \* adaptive: a backward step would have gone before start (monitor)
  nback,    \* adaptive: number of backward steps taken (coverage: reported with each history)
  hist      \* visited positions: sequence of [n, m, I, gt]  (value n/(Den*m); gt: only visited because of a tie)

vars == <<opt, it, phase, M, pos, step, up, past, ps, pe, sumI, sumXI, peak, pass, parked, under, nback, hist>>

Abs(x) == IF x < 0 THEN 0 - x ELSE x
MinI(a, b) == IF a <= b THEN a ELSE b
MaxI(a, b) == IF a <= b THEN b ELSE a
Zero == <<>>
NoPark == [set |-> FALSE, n |-> Zero, m |-> Zero]
Clip(v, lo, hi) == MinB(MaxB(v, lo), hi)

L == StopN - StartN              \* length of the range (numerator over Den)
S0 == IF opt.flip THEN StopN ELSE StartN
E0 == IF opt.flip THEN StartN ELSE StopN

ASSUME /\ Plan \in {"adaptive", "tune"}
       /\ 0 <= StartN /\ StartN < StopN /\ Den > 0 /\ MinStepN > 0
       /\ Plan = "adaptive" => /\ MinStepN < MaxStepN /\ TargetN > 0
                               /\ 0 < ThrN /\ ThrN < ThrD
       /\ Plan = "tune" => Num >= 2 /\ SfN > SfD /\ SfD > 0 /\ \A r \in Readings : r >= 0

----------------------------------------------------------------------------
(* adaptive_scan *)

AS_Init ==
    /\ opt \in {o \in [flip : Flips, backstep : Backsteps, bsdir : BOOLEAN, snake : {FALSE}] :
                  (~(o.flip /\ o.backstep)) => o.bsdir}     \* bsdir only matters for descending + backstep
    /\ M = FromNat(2)
    /\ pos = Zero
    /\ step = FromNat(MaxStepN - MinStepN)        \* (max_step - min_step) / 2
    /\ past = [set |-> FALSE, v |-> 0]
    /\ up = TRUE /\ ps = Zero /\ pe = Zero /\ sumI = 0 /\ sumXI = Zero
    /\ peak = [set |-> FALSE, n |-> Zero] /\ pass = 0 /\ parked = NoPark

AS_Guard == Cmp(pos, MulS(M, L))       \* < 0: next_pos*dir < stop*dir

AS_Exit ==
    /\ Plan = "adaptive" /\ phase = "run"
    /\ AS_Guard >= 0
    /\ phase' = "done"
    /\ UNCHANGED <<opt, it, M, pos, step, up, past, ps, pe, sumI, sumXI, peak, pass, parked, under, nback, hist>>

AS_Visit(I) ==
    /\ Plan = "adaptive" /\ phase = "run" /\ it < MaxIter
    /\ AS_Guard < 0 \/ (Fuzz /\ AS_Guard = 0)
    /\ it' = it + 1
    /\ hist' = Append(hist, [n |-> pos, m |-> M, I |-> I, gt |-> AS_Guard = 0])
    /\ UNCHANGED <<opt, phase, up, ps, pe, sumI, sumXI, peak, pass, parked>>
    /\ IF ~past.set
       THEN /\ past' = [set |-> TRUE, v |-> I]
            /\ pos' = Add(pos, step)
            /\ UNCHANGED <<M, step, under, nback>>
       ELSE LET dI    == Abs(I - past.v)
                k1    == IF dI # 0 THEN Den * dI ELSE 10
                M1    == MulS(M, k1)
                step1 == MulS(step, k1)
                pos1  == MulS(pos, k1)
                mn1   == MulS(M1, MinStepN)
                mx1   == MulS(M1, MaxStepN)
                \* slope # 0: target_delta / slope = target * step / dI ;  slope = 0: 1.1 * step
                new1  == IF dI # 0 THEN Clip(MulS(step, TargetN), mn1, mx1)
                                   ELSE MinB(MulS(step, 11), mx1)
                cb    == Cmp(MulS(new1, ThrD), MulS(step1, ThrN))      \* < 0: new_step < step * threshold
                coded == opt.flip /\ ~opt.bsdir                        \* `next_pos -= step` on a descending scan
            IN \/ /\ opt.backstep /\ (cb < 0 \/ (Fuzz /\ cb = 0))       \* over-stepped: go back, retry with new1
                  /\ M' = M1
                  /\ step' = new1
                  /\ past' = past
                  /\ nback' = nback + 1
                  /\ IF coded
                     THEN pos' = Add(Add(pos1, step1), new1) /\ under' = under
                     ELSE IF Lt(pos1, step1)
                          THEN pos' = new1 /\ under' = TRUE
                          ELSE pos' = Add(Sub(pos1, step1), new1) /\ under' = under
               \/ /\ ~opt.backstep \/ cb >= 0
                  /\ M' = MulS(M1, 5)
                  /\ step' = Add(new1, MulS(step1, 4))                  \* 0.2 new + 0.8 step
                  /\ pos' = Add(MulS(pos1, 5), Add(new1, MulS(step1, 4)))
                  /\ past' = [set |-> TRUE, v |-> I]
                  /\ under' = under /\ nback' = nback

----------------------------------------------------------------------------
(* tune_centroid *)

Low == StartN
High == StopN

TC_Init ==
    /\ opt \in [flip : Flips, backstep : {FALSE}, bsdir : {TRUE}, snake : Snakes]
    /\ M = FromNat(Num - 1)
    /\ ps = FromNat(S0 * (Num - 1))
    /\ pe = FromNat(E0 * (Num - 1))
    /\ pos = ps
    /\ step = FromNat(L)                           \* |stop - start| / (num - 1)
    /\ up = ~opt.flip
    /\ sumI = 0 /\ sumXI = Zero
    /\ peak = [set |-> FALSE, n |-> Zero] /\ pass = 0 /\ parked = NoPark
    /\ past = [set |-> FALSE, v |-> 0]

TC_StepCmp == Cmp(step, MulS(M, MinStepN))            \* >= 0: abs(step) >= min_step
TC_PosOK == Le(MulS(M, Low), pos) /\ Le(pos, MulS(M, High))

TC_Exit ==
    /\ Plan = "tune" /\ phase = "run"
    /\ TC_StepCmp < 0 \/ ~TC_PosOK \/ (Fuzz /\ TC_StepCmp = 0)
    /\ phase' = "done"
    /\ parked' = IF peak.set THEN [set |-> TRUE, n |-> peak.n, m |-> M] ELSE NoPark
    /\ UNCHANGED <<opt, it, M, pos, step, up, past, ps, pe, sumI, sumXI, peak, pass, under, nback, hist>>

TC_Visit(I) ==
    /\ Plan = "tune" /\ phase = "run" /\ it < MaxIter
    /\ TC_StepCmp >= 0 /\ TC_PosOK
    /\ it' = it + 1
    /\ hist' = Append(hist, [n |-> pos, m |-> M, I |-> I, gt |-> FALSE])
    /\ UNCHANGED <<opt, past, under, nback>>
    /\ LET sI == sumI + I
           sX == Add(sumXI, MulS(pos, I))
           \* next_pos += step ; in_range = min(start, stop) <= next_pos <= max(start, stop)
           neg == ~up /\ Lt(pos, step)
           nx  == IF up THEN Add(pos, step) ELSE IF neg THEN Zero ELSE Sub(pos, step)
           c   == IF up THEN Cmp(nx, pe) ELSE IF neg THEN 1 ELSE Cmp(pe, nx)    \* < 0 inside, 0 exactly at stop, > 0 beyond
       IN \/ /\ c <= 0                                  \* in range: carry on with this pass
             /\ pos' = nx /\ sumI' = sI /\ sumXI' = sX
             /\ UNCHANGED <<phase, M, step, up, ps, pe, peak, pass, parked>>
          \/ /\ c > 0 \/ (Fuzz /\ c = 0)                 \* pass finished
             /\ IF sI = 0
                THEN /\ phase' = "done" /\ parked' = NoPark       \* `return`: no final move
                     /\ sumI' = 0 /\ sumXI' = Zero
                     /\ UNCHANGED <<M, pos, step, up, ps, pe, peak, pass>>
                ELSE LET M1 == MulS(M, sI)                        \* centroid = sX / sI
                         span1 == MulS(IF up THEN Sub(pe, ps) ELSE Sub(ps, pe), sI)
                         k23 == SfN * 2                           \* range / step_factor, then half of it
                         M3 == MulS(M1, k23)
                         h3 == MulS(span1, SfD)
                         pk3 == MulS(sX, k23)
                         lo3 == MulS(M3, Low)
                         hi3 == MulS(M3, High)
                         a3 == IF Le(pk3, Add(h3, lo3)) THEN lo3 ELSE MinB(Sub(pk3, h3), hi3)     \* clip(peak - h)
                         b3 == MaxB(lo3, MinB(Add(pk3, h3), hi3))                                 \* clip(peak + h)
                         nup == IF opt.snake THEN ~up ELSE up
                         k4 == Num - 1
                     IN /\ M' = MulS(M3, k4)
                        /\ step' = Sub(b3, a3)                                       \* (stop - start) / (num - 1)
                        /\ ps' = MulS(IF nup THEN a3 ELSE b3, k4)
                        /\ pe' = MulS(IF nup THEN b3 ELSE a3, k4)
                        /\ pos' = MulS(IF nup THEN a3 ELSE b3, k4)
                        /\ up' = nup
                        /\ peak' = [set |-> TRUE, n |-> MulS(pk3, k4)]
                        /\ sumI' = 0 /\ sumXI' = Zero
                        /\ pass' = pass + 1
                        /\ UNCHANGED <<phase, parked>>

----------------------------------------------------------------------------
Init == /\ it = 0 /\ phase = "run" /\ under = FALSE /\ nback = 0 /\ hist = <<>>
        /\ IF Plan = "adaptive" THEN AS_Init ELSE TC_Init

Next == \/ AS_Exit \/ TC_Exit
        \/ \E I \in Readings : AS_Visit(I) \/ TC_Visit(I)

Spec == Init /\ [][Next]_vars
\* weak fairness of the plan's own progress: used for the liveness formulation of termination
FairSpec == Spec /\ WF_vars(Next)

----------------------------------------------------------------------------
(* Properties *)

\* --- range -----------------------------------------------------------------
\* every visited position lies between start and stop, never beyond stop (a visit AT stop exists only
\* as the floating-point tie outcome)
\* (hist only grows, so checking its newest entry in every state checks every entry)
AS_VisitedInRange ==
    (Plan = "adaptive" /\ hist # <<>>) =>
        LET e == hist[Len(hist)]
            c == Cmp(e.n, MulS(e.m, L))
        IN c <= 0 /\ (c = 0 => e.gt)
AS_NotBeforeStart == ~under

TC_VisitedInRange ==
    (Plan = "tune" /\ hist # <<>>) =>
        LET e == hist[Len(hist)]
        IN /\ Le(MulS(e.m, Low), e.n)
           /\ Le(e.n, MulS(e.m, High))
\* the final move goes to a position between start and stop (all readings are >= 0 by ASSUME)
TC_ParkInRange ==
    (Plan = "tune" /\ parked.set) =>
        /\ Le(MulS(parked.m, Low), parked.n)
        /\ Le(parked.n, MulS(parked.m, High))
\* a pass never leaves the interval of the previous one... not claimed; it stays inside [low, high]
TC_PassInRange ==
    Plan = "tune" => /\ Le(MulS(M, Low), ps) /\ Le(ps, MulS(M, High))
                     /\ Le(MulS(M, Low), pe) /\ Le(pe, MulS(M, High))

\* --- termination -------------------------------------------------------------
\* adaptive_scan: the step never leaves [min(min_step, initial step), max_step]
M0N == MinI(2 * MinStepN, MaxStepN - MinStepN)          \* m0 = M0N / (2 Den)
AS_StepBounded ==
    Plan = "adaptive" => /\ Le(step, MulS(M, MaxStepN))
                         /\ Le(MulS(M, M0N), MulS(step, 2))

\* variant: with base = next_pos - step (the last accepted point), every iteration either advances the base
\* by at least the old step (>= m0), or keeps the base and shrinks the step by the factor threshold while
\* the step stays >= min_step.  Lexicographic order (base, step) => termination, with the bound below.
AS_Variant ==
    [][(Plan = "adaptive" /\ it' = it + 1 /\ past.set) =>
          \/ /\ Le(step', pos')
             /\ Le(Mul(pos, M'), Mul(Sub(pos', step'), M))                                  \* base' >= pos = base + step
          \/ /\ Le(step', pos') /\ Le(step, pos)
             /\ Mul(Sub(pos', step'), M) = Mul(Sub(pos, step), M')                          \* base' = base
             /\ Le(MulS(Mul(step', M), ThrD), MulS(Mul(step, M'), ThrN))                     \* step' <= thr * step
             /\ Le(MulS(M', MinStepN), step')]_vars                                          \* step' >= min_step

\* K = max number of consecutive shrinking retries: largest j with thr^j * max_step >= min_step
RECURSIVE KFrom(_, _, _)
KFrom(j, a, b) == IF Le(MulS(b, ThrD), MulS(a, ThrN)) THEN KFrom(j + 1, MulS(a, ThrN), MulS(b, ThrD)) ELSE j
AS_K == KFrom(0, FromNat(MaxStepN), FromNat(MinStepN))          \* (BigNat: ThrD^K leaves 32 bits for thresholds near 1)
CeilDiv(a, b) == (a + b - 1) \div b
\* iterations <= ceil((L + s0) / m0) * (K + 1) + K        (s0 = (max-min)/2, all over 2 Den)
AS_Bound == CeilDiv(2 * L + (MaxStepN - MinStepN), M0N) * (AS_K + 1) + AS_K
AS_IterBound == Plan = "adaptive" => it <= AS_Bound

\* tune_centroid: each new pass divides |step| by at least step_factor; a pass has at most num points
TC_StepShrinks ==
    [][(Plan = "tune" /\ pass' = pass + 1) =>
          Le(MulS(Mul(step', M), SfN), MulS(Mul(step, M'), SfD))]_vars
RECURSIVE PassesFrom(_, _, _)
PassesFrom(j, a, b) == IF Le(b, a) THEN PassesFrom(j + 1, MulS(a, SfD), MulS(b, SfN)) ELSE j
TC_Passes == PassesFrom(0, FromNat(L), FromNat(MinStepN * (Num - 1)))     \* passes whose |step| can still be >= min_step
TC_Bound == Num * TC_Passes
TC_IterBound == Plan = "tune" => it <= TC_Bound /\ pass <= TC_Passes

IterBound == AS_IterBound /\ TC_IterBound
\* liveness formulation (checked under FairSpec without constraint on a finite instance)
Terminates == <>(phase = "done")
\* the exploration bound never cut a behaviour (used by the unconstrained configurations)
NotCut == it < MaxIter

TypeOK == /\ it \in 0..MaxIter /\ phase \in {"run", "done"}
          /\ Len(hist) = it

----------------------------------------------------------------------------
\* replay generation: CONSTRAINT that prints every maximal (done or cut) history as JSON (run with workers = 1)
DumpHist ==
    (phase = "done" \/ it = MaxIter) =>
        PrintT(<<"HIST", ToJson([opt |-> opt, done |-> phase = "done", hist |-> hist, parked |-> parked,
                                 nback |-> nback, pass |-> pass])>>)
=============================================================================
