CONSTANTS
  Streams = {"primary", "baseline"}
  Keys = {"primary", "avg"}
  MaxEvents = 4
  MaxFree = 4
  MaxDesc = 2
  MaxRuns = 2
  Keyings = {"default", "byname", "free"}
  NameBys = {"raw", "key"}
  Choice = "both"
SPECIFICATION Spec
INVARIANT TypeOK
INVARIANT C39_SeqPerStream
INVARIANT C39_NumEvents
PROPERTY C39_EventNumbered
PROPERTY C39_StopCounts
PROPERTY C39_DescriptorFirst
PROPERTY C39_RunsIndependent
