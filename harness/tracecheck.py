"""Batch validation of implementation traces with TLC (DESIGN.md 4.4).

Convention for a trace module XTrace.tla (see spec/dispatcher/DispatcherTrace.tla):
  Traces == ndJsonDeserialize(IOEnv.TRACE_FILE)       one trace (sequence of events) per line
  VARIABLES tid, l ; TraceInit chooses tid and does TLCSet(tid, 1); TraceNext consumes event l and TLCSet(tid, l+1)
  POSTCONDITION TraceAccepted prints <<"REJECTED", tid, progress>> for each trace not consumed completely.
Run with -workers 1 (TLC registers are per worker).
"""
import json
import re
from dataclasses import dataclass, field

from harness.tlc import run_tlc


@dataclass
class TraceVerdict:
    ok: bool
    rejected: dict = field(default_factory=dict)      # trace index (0-based) -> number of events accepted
    invariant: str | None = None                      # violated invariant name, if any
    inv_trace_index: int | None = None
    inv_state: dict | None = None
    res: object = None


def validate_traces(module, cfg, traces, spec_dir, out_dir, tag="trace", timeout=1800, env=None, dfs=False):
    """traces: list of lists of JSON-able event dicts."""
    tf = out_dir / f"{tag}.ndjson"
    with open(tf, "w") as fh:
        for t in traces:
            fh.write(json.dumps(t) + "\n")
    e = {"TRACE_FILE": str(tf)}
    e.update(env or {})
    res = run_tlc(module, cfg, spec_dir=spec_dir, env=e, workers=1, tag=tag, timeout=timeout, dfs=dfs)
    v = TraceVerdict(ok=res.ok, res=res)
    for m in re.finditer(r'<<"REJECTED", (\d+), (\d+)>>', res.stdout):
        v.rejected[int(m.group(1)) - 1] = int(m.group(2)) - 1
    if res.violated and res.kind in ("invariant", "action"):
        v.invariant = res.violated
        if res.trace:
            st = res.trace[-1][1]
            v.inv_state = st
            if "tid" in st:
                v.inv_trace_index = st["tid"] - 1
    elif res.violated and not v.rejected and res.kind != "postcondition":
        v.invariant = res.violated
    return v
