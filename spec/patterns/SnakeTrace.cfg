CONSTANTS
  MaxAxes = 0
  MaxLen = 0
  MaxTotal = 0
SPECIFICATION TraceSpec
INVARIANT Conforms
INVARIANT Permutation
INVARIANT UnsnakedProductOrder
INVARIANT SnakedReverses
INVARIANT Continuous
INVARIANT FastestChanged
POSTCONDITION AllSeen
