------------------------------ MODULE PeakStats ------------------------------
(***************************************************************************)
(* C44 -- bluesky.callbacks.fitting.PeakStats.                             *)
(*                                                                         *)
(* Table-like: Init ranges over every (x, y, edge_count) of the bounded    *)
(* domain -- x strictly monotonic small integers (increasing and           *)
(* decreasing, uniform and non-uniform spacing), y in 0..YMax -- and `st`  *)
(* holds the SPECIFIED statistics in exact rationals <<num, den>> (den > 0,*)
(* reduced).  Definitions follow the class documentation:                  *)
(*   ys        y, or y minus the straight line through the means of the    *)
(*             first and last edge_count points ("quick and dirty          *)
(*             background subtraction")                                    *)
(*   max, min  x location of the ys maximum / minimum                      *)
(*   mid       (max ys + min ys) / 2                                       *)
(*   crossings where the polyline through (x, ys) crosses mid: one per     *)
(*             adjacent pair with exactly one member above mid, linearly   *)
(*             interpolated, in scan order                                 *)
(*   cen       mean of the crossings ; fwhm  |last - first crossing|       *)
(*   com       centre of mass: the mass-weighted mean INDEX, mapped to x   *)
(*             by linear interpolation and clamped to the ends (this is    *)
(*             what the code computes; it is the only reading of "centre   *)
(*             of mass" for which the claimed range property can hold once *)
(*             background subtraction makes ys negative); undefined for    *)
(*             zero total mass.                                            *)
(* The invariants are the statement of C44.                                *)
(***************************************************************************)
EXTENDS Integers, Sequences, SequencesExt, FiniteSets, TLC, Json, IOUtils

CONSTANTS MinN, MaxN,     \* number of points
          Gaps,           \* allowed |x[i+1] - x[i]|
          X0s,            \* allowed x[1]
          YMax,           \* y in 0..YMax
          Edges           \* edge_count values; 0 = None; e is used when 2e <= n

VARIABLES x, y, edge, st
vars == <<x, y, edge, st>>

----------------------------------------------------------------------------
(* exact rationals *)
Abs(a) == IF a < 0 THEN 0 - a ELSE a
RECURSIVE Gcd(_, _)
Gcd(a, b) == IF b = 0 THEN a ELSE Gcd(b, a % b)
Rat(n, d) == LET s == IF d < 0 THEN 0 - 1 ELSE 1
                 g == Gcd(Abs(n), Abs(d))
             IN <<(s * n) \div g, (s * d) \div g>>
R(n) == <<n, 1>>
RAdd(a, b) == Rat(a[1] * b[2] + b[1] * a[2], a[2] * b[2])
RSub(a, b) == Rat(a[1] * b[2] - b[1] * a[2], a[2] * b[2])
RMul(a, b) == Rat(a[1] * b[1], a[2] * b[2])
RDiv(a, b) == Rat(a[1] * b[2], a[2] * b[1])          \* b # 0
RLt(a, b) == a[1] * b[2] < b[1] * a[2]
RLe(a, b) == a[1] * b[2] <= b[1] * a[2]
RMin(a, b) == IF RLe(a, b) THEN a ELSE b
RMax(a, b) == IF RLe(a, b) THEN b ELSE a
RAbs(a) == <<Abs(a[1]), a[2]>>
RFloor(a) == a[1] \div a[2]                           \* TLC's \div rounds towards minus infinity

RECURSIVE RSum(_, _)
RSum(s, k) == IF k = 0 THEN R(0) ELSE RAdd(RSum(s, k - 1), s[k])          \* s[1] + ... + s[k]
RECURSIVE RMaxOf(_, _)
RMaxOf(s, k) == IF k = 1 THEN s[1] ELSE RMax(RMaxOf(s, k - 1), s[k])
RECURSIVE RMinOf(_, _)
RMinOf(s, k) == IF k = 1 THEN s[1] ELSE RMin(RMinOf(s, k - 1), s[k])
RMean(s) == RDiv(RSum(s, Len(s)), R(Len(s)))

RECURSIVE ISum(_, _)
ISum(s, k) == IF k = 0 THEN 0 ELSE ISum(s, k - 1) + s[k]

----------------------------------------------------------------------------
(* the specified statistics *)
Ys(xx, yy, e) ==
    IF e = 0 THEN [i \in 1..Len(xx) |-> R(yy[i])]
    ELSE LET n  == Len(xx)
             lx == Rat(ISum(xx, e), e)
             ly == Rat(ISum(yy, e), e)
             rx == Rat(ISum(xx, n) - ISum(xx, n - e), e)
             ry == Rat(ISum(yy, n) - ISum(yy, n - e), e)
             m  == RDiv(RSub(ry, ly), RSub(rx, lx))
             b  == RSub(ly, RMul(m, lx))
         IN [i \in 1..n |-> RSub(R(yy[i]), RAdd(RMul(m, R(xx[i])), b))]

MidOf(hi, lo) == RDiv(RAdd(hi, lo), R(2))
\* the pair (i, i+1) straddles the half-maximum: exactly one member lies above it
Straddles(ys, mid, i) == RLt(mid, ys[i]) # RLt(mid, ys[i + 1])
CrossIdx(ys, mid) == {i \in 1..(Len(ys) - 1) : Straddles(ys, mid, i)}
\* linear interpolation of the polyline at height mid
CrossAt(xx, ys, mid, i) ==
    RAdd(R(xx[i]), RDiv(RMul(RSub(mid, ys[i]), R(xx[i + 1] - xx[i])), RSub(ys[i + 1], ys[i])))

RECURSIVE SortedSeq(_)
SortedSeq(S) == IF S = {} THEN <<>>
                ELSE LET m == CHOOSE a \in S : \A b \in S : a <= b IN <<m>> \o SortedSeq(S \ {m})

\* mass-weighted mean index (0-based), mapped to x by interpolation, clamped to the ends
ComOf(xx, ys, S) ==
    LET n == Len(xx)
        c == RDiv(RSum([i \in 1..n |-> RMul(R(i - 1), ys[i])], n), S)
    IN IF RLe(c, R(0)) THEN R(xx[1])
       ELSE IF RLe(R(n - 1), c) THEN R(xx[n])
       ELSE LET k == RFloor(c)                       \* 0 <= k <= n - 2
            IN RAdd(R(xx[k + 1]), RMul(RSub(c, R(k)), R(xx[k + 2] - xx[k + 1])))

Stats(xx, yy, e) ==
    LET n    == Len(xx)
        ys   == Ys(xx, yy, e)
        hi   == RMaxOf(ys, n)
        lo   == RMinOf(ys, n)
        mid  == MidOf(hi, lo)
        cidx == SortedSeq(CrossIdx(ys, mid))
        cr   == [j \in 1..Len(cidx) |-> CrossAt(xx, ys, mid, cidx[j])]
        S    == RSum(ys, n)
    IN [ys     |-> ys,
        maxxs  |-> {xx[i] : i \in {j \in 1..n : ys[j] = hi}},         \* every x whose ys is the largest
        minxs  |-> {xx[i] : i \in {j \in 1..n : ys[j] = lo}},
        maxx   |-> xx[CHOOSE i \in 1..n : ys[i] = hi /\ \A j \in 1..(i - 1) : ys[j] # hi],      \* first one
        minx   |-> xx[CHOOSE i \in 1..n : ys[i] = lo /\ \A j \in 1..(i - 1) : ys[j] # lo],
        mid    |-> mid,
        cidx   |-> cidx,
        cr     |-> cr,
        cen    |-> IF Len(cr) > 0 THEN RMean(cr) ELSE R(0),
        fwhm   |-> IF Len(cr) >= 2 THEN RAbs(RSub(cr[Len(cr)], cr[1])) ELSE R(0),
        comdef |-> S # R(0),
        com    |-> IF S # R(0) THEN ComOf(xx, ys, S) ELSE R(0),
        midtie |-> \E i \in 1..n : ys[i] = mid]                     \* a sample exactly at the half-maximum

----------------------------------------------------------------------------
(* the bounded domain *)
RECURSIVE XFrom(_, _, _, _)
XFrom(x0, d, gaps, k) == IF k = 0 THEN <<x0>>
                         ELSE LET p == XFrom(x0, d, gaps, k - 1) IN Append(p, p[k] + d * gaps[k])
XSeqs(n) == {XFrom(x0, d, g, n - 1) : x0 \in X0s, d \in {1, 0 - 1}, g \in [1..(n - 1) -> Gaps]}
EdgesFor(n) == {e \in Edges : e = 0 \/ 2 * e <= n}
Inputs == UNION {XSeqs(n) \X [1..n -> 0..YMax] \X EdgesFor(n) : n \in MinN..MaxN}

Init == \E c \in Inputs : /\ x = c[1] /\ y = c[2] /\ edge = c[3]
                          /\ st = Stats(c[1], c[2], c[3])
Next == UNCHANGED vars
Spec == Init /\ [][Next]_vars

----------------------------------------------------------------------------
(* C44 *)
N == Len(x)
XLo == RMinOf([i \in 1..N |-> R(x[i])], N)
XHi == RMaxOf([i \in 1..N |-> R(x[i])], N)
InXRange(v) == RLe(XLo, v) /\ RLe(v, XHi)

StrictlyMonotonic == \/ \A i \in 1..(N - 1) : x[i] < x[i + 1]
                     \/ \A i \in 1..(N - 1) : x[i] > x[i + 1]

\* max / min are the x of the largest / smallest y
MaxIsArgmax == \E i \in 1..N : x[i] = st.maxx /\ \A j \in 1..N : RLe(st.ys[j], st.ys[i])
MinIsArgmin == \E i \in 1..N : x[i] = st.minx /\ \A j \in 1..N : RLe(st.ys[i], st.ys[j])
\* centre of mass and centre lie within the x range
ComInRange == st.comdef => InXRange(st.com)
CenInRange == Len(st.cr) > 0 => InXRange(st.cen)
\* every crossing lies between two adjacent samples that straddle the half-maximum ...
CrossingsStraddle ==
    \A j \in 1..Len(st.cr) :
        LET i == st.cidx[j]
        IN /\ i \in 1..(N - 1)
           /\ RLe(R(IF x[i] < x[i + 1] THEN x[i] ELSE x[i + 1]), st.cr[j])
           /\ RLe(st.cr[j], R(IF x[i] < x[i + 1] THEN x[i + 1] ELSE x[i]))
           /\ \/ (RLt(st.mid, st.ys[i]) /\ RLe(st.ys[i + 1], st.mid))
              \/ (RLe(st.ys[i], st.mid) /\ RLt(st.mid, st.ys[i + 1]))
\* ... and every such pair has its crossing
StraddlePair(i) == \/ (RLt(st.mid, st.ys[i]) /\ RLe(st.ys[i + 1], st.mid))
                   \/ (RLe(st.ys[i], st.mid) /\ RLt(st.mid, st.ys[i + 1]))
CrossingsComplete == Len(st.cr) = Cardinality({i \in 1..(N - 1) : StraddlePair(i)})
\* fwhm is the distance between the outermost crossings
FwhmOutermost ==
    Len(st.cr) >= 2 =>
        LET n == Len(st.cr) IN st.fwhm = RSub(RMaxOf(st.cr, n), RMinOf(st.cr, n))

----------------------------------------------------------------------------
\* case dump for the replay: one record per input
Case(c) == LET s == Stats(c[1], c[2], c[3])
           IN [x |-> c[1], y |-> c[2], edge |-> c[3], maxxs |-> s.maxxs, minxs |-> s.minxs, cr |-> s.cr,
               cen |-> s.cen, fwhm |-> s.fwhm, comdef |-> s.comdef, com |-> s.com, midtie |-> s.midtie,
               sumzero |-> ~s.comdef]
DumpCases ==
    TLCGet("stats").generated >= 0 /\ ndJsonSerialize(IOEnv.CASES_OUT, SetToSeq({Case(c) : c \in Inputs}))
=============================================================================
