CONSTANTS
  VNeg = 2
  VMax = 3
  MaxLen = 5
  MaxIdle = 5
  AllowKF = TRUE
  Classes = {"BoolHigh", "BoolLow", "Floor", "Ceil", "WhenOutsideBand", "OutBand", "WhenChanged"}
SPECIFICATION Spec
INVARIANT TypeOK
INVARIANT C30_Exclusive
INVARIANT C30_ExplicitHonoured
INVARIANT C30_DefaultsAsDocumented
INVARIANT C30_TrippedIffLastDecision
INVARIANT C30_TrippedDocumented
INVARIANT C30_PendingIffTripped
PROPERTY C30_ReleaseOnlyOnResume
PROPERTY C30_ResumeThreshold
PROPERTY C30_ReleaseWhenResume
PROPERTY C30_RequestOnTrip
POSTCONDITION DumpPreds
