CONSTANTS
  Batches = {0, 1, 2, 3}
  MaxEv = 5
  NStreams = 2
  MaxSD = 4
  NRes = 2
  MaxIdx = 4
  MaxLen = 2
  Canonical = FALSE
  MaxRedesc = 0
SPECIFICATION Spec
INVARIANT TypeOK
INVARIANT C46_RowsAtStop
INVARIANT C46_RowsConserved
INVARIANT C46_CacheBelowBatch
INVARIANT C46_ConsumedOnceAtStop
INVARIANT C46_RangesConserved
INVARIANT C46_ArrayLengthAtStop
INVARIANT C46_RowsCountConsumed
