CONSTANTS
  Keys = {"a", "b"}
  NV = 3
  MaxOps = 1000
  Mode = "repaired"
  Alphabet = {"set", "del", "pop", "popd", "popitem", "update", "setdefault", "clear", "mutate", "flush", "reload", "reopen", "crash"}
SPECIFICATION Spec
VIEW view
INVARIANT TypeOK
INVARIANT C43_Strict
INVARIANT C43_FilesAreLastWritten
INVARIANT C43_SameKeys
PROPERTY C43_SetIsDurable
