----------------------------- MODULE Suspenders -----------------------------
(***************************************************************************)
(* C30 -- the built-in suspenders of bluesky.suspenders.                    *)
(*                                                                         *)
(* Part 1: the DOCUMENTED suspend / resume predicate of every class, over  *)
(* integers (the harness scales real values).  They are written from the   *)
(* class docstrings, not from the code:                                    *)
(*   BoolHigh         suspend when the signal goes high, resume when low   *)
(*   BoolLow          suspend when low, resume when high                   *)
(*   Floor            suspend when v falls below suspend_thresh; resume    *)
(*                    when v rises above resume_thresh (default =          *)
(*                    suspend_thresh, must be >= suspend_thresh)           *)
(*   Ceil             suspend when v rises above suspend_thresh; resume    *)
(*                    when v is below resume_thresh (default = suspend,    *)
(*                    must be <= suspend_thresh)                           *)
(*   WhenOutsideBand  (= SuspendInBand) suspend when v leaves the open     *)
(*                    band (bottom, top), resume when it is inside         *)
(*   OutBand          suspend when v enters (bottom, top), resume outside  *)
(*   WhenChanged      suspend when v deviates from expected_value (default:*)
(*                    the signal's value at construction); resume only if  *)
(*                    allow_resume and v equals expected_value             *)
(* For Floor/Ceil the text says "rises above / below" the resume threshold *)
(* while the default resume threshold equals the suspend threshold, where  *)
(* "not below" is the only reading under which a value equal to the        *)
(* threshold is decided at all.  The specification therefore lets a value  *)
(* EQUAL to the resume threshold either resume or leave the decision       *)
(* unchanged (ResumeMay vs ResumeMust); both readings satisfy C30.         *)
(*                                                                         *)
(* Part 2: the tripped / pending-event machine of SuspenderBase: install   *)
(* delivers the current value, every later value is delivered once.  A    *)
(* value that satisfies the suspend condition trips the suspender; if no   *)
(* event is pending a new one is created and handed to request_suspend     *)
(* (when the engine is running).  A value that satisfies the resume        *)
(* condition releases the pending event (sleep abstracted to 0) and clears *)
(* tripped.  Any other value changes nothing.                              *)
(*                                                                         *)
(* Known finding KF-C30-1: SuspendWhenChanged(expected_value=0) uses the   *)
(* signal's current value (falsy test).  With AllowKF the constructor step *)
(* offers both the documented and the as-found choice; only the as-found   *)
(* one is exempted (kf = TRUE) from C30_ExplicitHonoured.                  *)
(***************************************************************************)
EXTENDS Integers, Sequences, SequencesExt, FiniteSets, TLC, Json, IOUtils

CONSTANTS VNeg, VMax,   \* signal values and thresholds explored: -VNeg..VMax, e.g. -2..3 (cfg files cannot hold negative numbers)
          MaxLen,       \* number of delivered values (the install callback included)
          MaxIdle,      \* the same bound for cases in which the engine is not running (only `requested` differs there)
          AllowKF,      \* BOOLEAN: offer the as-found constructor of KF-C30-1
          Classes       \* subset of AllClasses

Vals == (0 - VNeg)..VMax
AllClasses == {"BoolHigh", "BoolLow", "Floor", "Ceil", "WhenOutsideBand", "OutBand", "WhenChanged"}

\* parameters as given to the constructor.  a: suspend_thresh / band_bottom / expected_value (agiven: explicit);
\* b: resume_thresh / band_top (bgiven: explicit); allow: allow_resume
ParamsOf(c) ==
    CASE c \in {"BoolHigh", "BoolLow"} -> {[a |-> 0, agiven |-> FALSE, b |-> 0, bgiven |-> FALSE, allow |-> FALSE]}
      [] c = "Floor" -> {[a |-> s, agiven |-> TRUE, b |-> 0, bgiven |-> FALSE, allow |-> FALSE] : s \in Vals}
                        \cup {[a |-> s, agiven |-> TRUE, b |-> r, bgiven |-> TRUE, allow |-> FALSE] : s \in Vals, r \in Vals}
      [] c = "Ceil" -> {[a |-> s, agiven |-> TRUE, b |-> 0, bgiven |-> FALSE, allow |-> FALSE] : s \in Vals}
                        \cup {[a |-> s, agiven |-> TRUE, b |-> r, bgiven |-> TRUE, allow |-> FALSE] : s \in Vals, r \in Vals}
      [] c \in {"WhenOutsideBand", "OutBand"} ->
                        {[a |-> lo, agiven |-> TRUE, b |-> hi, bgiven |-> TRUE, allow |-> FALSE] : lo \in Vals, hi \in Vals}
      [] c = "WhenChanged" ->
                        {[a |-> e, agiven |-> TRUE, b |-> 0, bgiven |-> FALSE, allow |-> al] : e \in Vals, al \in BOOLEAN}
                        \cup {[a |-> 0, agiven |-> FALSE, b |-> 0, bgiven |-> FALSE, allow |-> al] : al \in BOOLEAN}

\* combinations the constructors document as legal
Valid(c, p) ==
    CASE c = "Floor" -> p.bgiven => p.b >= p.a
      [] c = "Ceil" -> p.bgiven => p.b <= p.a
      [] c \in {"WhenOutsideBand", "OutBand"} -> p.a < p.b
      [] OTHER -> TRUE

\* values a signal of the class takes: boolean signals are 0 / 1
ValsOf(c) == IF c \in {"BoolHigh", "BoolLow"} THEN {0, 1} ELSE Vals

----------------------------------------------------------------------------
(* Part 1.  Documented predicates.  q = effective parameters                *)
(*   [s: suspend threshold / band bottom / expected, r: resume threshold / band top, allow] *)
Effective(c, p, v0) ==
    [s |-> IF c = "WhenChanged" /\ ~p.agiven THEN v0 ELSE p.a,      \* default expected_value: signal value at construction
     r |-> IF c \in {"Floor", "Ceil"} /\ ~p.bgiven THEN p.a ELSE p.b,  \* default resume threshold: the suspend threshold
     allow |-> p.allow]

InBand(q, v) == q.s < v /\ v < q.r

ShouldSuspend(c, q, v) ==
    CASE c = "BoolHigh" -> v # 0
      [] c = "BoolLow" -> v = 0
      [] c = "Floor" -> v < q.s
      [] c = "Ceil" -> v > q.s
      [] c = "WhenOutsideBand" -> ~InBand(q, v)
      [] c = "OutBand" -> InBand(q, v)
      [] c = "WhenChanged" -> v # q.s

\* resume condition holds under every reading of the documentation
ResumeMust(c, q, v) ==
    CASE c = "BoolHigh" -> v = 0
      [] c = "BoolLow" -> v # 0
      [] c = "Floor" -> v > q.r
      [] c = "Ceil" -> v < q.r
      [] c = "WhenOutsideBand" -> InBand(q, v)
      [] c = "OutBand" -> ~InBand(q, v)
      [] c = "WhenChanged" -> q.allow /\ v = q.s

\* resume condition holds under some reading (value equal to the resume threshold, and not in the suspend region)
ResumeMay(c, q, v) ==
    \/ ResumeMust(c, q, v)
    \/ c = "Floor" /\ v = q.r /\ ~(v < q.s)
    \/ c = "Ceil" /\ v = q.r /\ ~(v > q.s)

ShouldResume(c, q, v) == ResumeMay(c, q, v)

----------------------------------------------------------------------------
(* Part 2.  The machine.                                                    *)
VARIABLES
  cls, par, v0,     \* the case: class, constructor parameters, signal value at construction / install
  running,          \* RE.state.is_running (fixed during a case)
  eff,              \* effective parameters chosen by the constructor
  kf,               \* the constructor took the as-found branch of KF-C30-1
  tripped,          \* SuspenderBase.tripped
  pending,          \* an event is pending (SuspenderBase._ev is not None)
  vals,             \* values delivered so far (vals[1] = v0, delivered by install)
  out,              \* observable result of the last delivery
  hist              \* outs of all deliveries (part of the state: every history is explored and printed for replay)

vars == <<cls, par, v0, running, eff, kf, tripped, pending, vals, out, hist>>

NoOut == [v |-> 0, tripped |-> FALSE, requested |-> 0, released |-> 0, pending |-> FALSE]

\* KF-C30-1: expected_value = 0 given explicitly, but the signal's value is used
AsFoundEff(c, p, v) == [Effective(c, p, v) EXCEPT !.s = v]
KFApplies(c, p, v) == c = "WhenChanged" /\ p.agiven /\ p.a = 0 /\ v # 0

Init ==
    /\ cls \in Classes
    /\ par \in {p \in ParamsOf(cls) : Valid(cls, p)}
    /\ v0 \in ValsOf(cls)
    /\ running \in BOOLEAN
    /\ \/ eff = Effective(cls, par, v0) /\ kf = FALSE
       \/ AllowKF /\ KFApplies(cls, par, v0) /\ eff = AsFoundEff(cls, par, v0) /\ kf = TRUE
    /\ tripped = FALSE
    /\ pending = FALSE
    /\ vals = <<>>
    /\ out = NoOut
    /\ hist = <<>>

Emit(v, t, req, rel, pend) ==
    LET o == [v |-> v, tripped |-> t, requested |-> req, released |-> rel, pending |-> pend]
    IN out' = o /\ hist' = Append(hist, o)

\* SuspenderBase.__call__ with a value in the suspend region
Trip(v) ==
    /\ ShouldSuspend(cls, eff, v)
    /\ tripped' = TRUE
    /\ pending' = TRUE
    /\ Emit(v, TRUE, IF ~pending /\ running THEN 1 ELSE 0, 0, TRUE)

\* ... with a value in the resume region: the pending event (if any) is released
Release(v) ==
    /\ ~ShouldSuspend(cls, eff, v)
    /\ ResumeMay(cls, eff, v)
    /\ tripped' = FALSE
    /\ pending' = FALSE
    /\ Emit(v, FALSE, 0, IF pending THEN 1 ELSE 0, FALSE)

\* ... with a value that decides nothing
Ignore(v) ==
    /\ ~ShouldSuspend(cls, eff, v)
    /\ ~ResumeMust(cls, eff, v)
    /\ UNCHANGED <<tripped, pending>>
    /\ Emit(v, tripped, 0, 0, pending)

Deliver(v) ==
    /\ vals' = Append(vals, v)
    /\ UNCHANGED <<cls, par, v0, running, eff, kf>>
    /\ (Trip(v) \/ Release(v) \/ Ignore(v))

\* install(): the signal's current value is delivered at once (subscribe(..., run=True))
Install == vals = <<>> /\ Deliver(v0)
Change(v) == vals # <<>> /\ Deliver(v)

Bound == IF running THEN MaxLen ELSE MaxIdle
Next == /\ Len(vals) < Bound
        /\ (Install \/ \E v \in ValsOf(cls) : Change(v))

Spec == Init /\ [][Next]_vars

----------------------------------------------------------------------------
(* The property, clause by clause.  D = documented effective parameters.    *)
D == Effective(cls, par, v0)

\* "the two conditions are never true together" -- for every value, not only the delivered ones
C30_Exclusive == \A v \in Vals \cup ValsOf(cls) : ~(ShouldSuspend(cls, D, v) /\ ShouldResume(cls, D, v))

\* "every explicitly given threshold or expected value is honoured, including falsy ones such as 0"
Honoured == /\ par.agiven => eff.s = par.a
            /\ par.bgiven => eff.r = par.b
            /\ eff.allow = par.allow
C30_ExplicitHonoured == kf \/ Honoured
C30_DefaultsAsDocumented == kf \/ eff = D

\* "tripped exactly when its documented suspend condition held at the most recent value that changed its decision":
\* stated over the delivered values alone.  i is the last value in the suspend region;
\* tripped  => such an i exists and nothing after it had to resume
\* ~tripped => no such i, or some later value may resume
LastSuspend == IF \E i \in 1..Len(vals) : ShouldSuspend(cls, eff, vals[i])
               THEN CHOOSE i \in 1..Len(vals) : /\ ShouldSuspend(cls, eff, vals[i])
                                                /\ \A j \in (i + 1)..Len(vals) : ~ShouldSuspend(cls, eff, vals[j])
               ELSE 0
C30_TrippedIffLastDecision ==
    LET i == LastSuspend
    IN /\ tripped => i > 0 /\ \A j \in (i + 1)..Len(vals) : ~ResumeMust(cls, eff, vals[j])
       /\ ~tripped => i = 0 \/ \E j \in (i + 1)..Len(vals) : ResumeMay(cls, eff, vals[j])

\* the same clause in terms of the documented parameters (differs from the previous one only on the kf branch)
C30_TrippedDocumented ==
    kf \/ LET i == IF \E k \in 1..Len(vals) : ShouldSuspend(cls, D, vals[k])
                   THEN CHOOSE k \in 1..Len(vals) : /\ ShouldSuspend(cls, D, vals[k])
                                                    /\ \A j \in (k + 1)..Len(vals) : ~ShouldSuspend(cls, D, vals[j])
                   ELSE 0
          IN /\ tripped => i > 0 /\ \A j \in (i + 1)..Len(vals) : ~ResumeMust(cls, D, vals[j])
             /\ ~tripped => i = 0 \/ \E j \in (i + 1)..Len(vals) : ResumeMay(cls, D, vals[j])

\* an event is pending exactly while tripped
C30_PendingIffTripped == pending <=> tripped

\* "grants resumption only when its documented resume condition holds (respecting the separate resume threshold)"
C30_ReleaseOnlyOnResume ==
    [][out'.released > 0 => /\ pending
                            /\ (kf \/ ShouldResume(cls, D, out'.v))
                            /\ ~ShouldSuspend(cls, eff, out'.v)]_vars
C30_ResumeThreshold ==
    [][out'.released > 0 => /\ cls = "Floor" => out'.v >= eff.r
                            /\ cls = "Ceil" => out'.v <= eff.r]_vars
\* a pending event is released as soon as the resume condition certainly holds
C30_ReleaseWhenResume ==
    [][(pending /\ ResumeMust(cls, eff, out'.v) /\ ~ShouldSuspend(cls, eff, out'.v)) => out'.released = 1 /\ ~pending']_vars

\* request_suspend is called exactly when a value in the suspend region arrives while nothing is pending (engine running)
C30_RequestOnTrip ==
    [][out'.requested = (IF ShouldSuspend(cls, eff, out'.v) /\ ~pending /\ running THEN 1 ELSE 0)]_vars

TypeOK == /\ tripped \in BOOLEAN /\ pending \in BOOLEAN
          /\ Len(vals) = Len(hist)
          /\ Len(vals) <= Bound

\* reachability witnesses (negated in a config to show the antecedents are not vacuous)
NeverKF == ~kf
NeverReleased == out.released = 0
NeverBoundaryIgnored == ~(\E i \in 1..Len(vals) : ResumeMay(cls, eff, vals[i]) /\ ~ResumeMust(cls, eff, vals[i]) /\ tripped)

\* CONSTRAINT of the replay-generation config: print every maximal history as JSON
\* (outputs as tuples <<v, tripped, requested, released, pending>> to keep the lines short)
Case == [cls |-> cls, par |-> par, v0 |-> v0, running |-> running, kf |-> kf,
         hist |-> [i \in 1..Len(hist) |-> <<hist[i].v, hist[i].tripped, hist[i].requested, hist[i].released, hist[i].pending>>]]
DumpHist == (Len(vals) = Bound) => PrintT(<<"HIST", ToJson(Case)>>)

\* POSTCONDITION of the exhaustive configs: the documented predicate table, one row per (class, parameters, v0, value),
\* compared by the harness with _should_suspend / _should_resume of the real classes
V0Of(c) == IF c = "WhenChanged" THEN Vals ELSE {0}
Row(c, p, w, v) == LET q == Effective(c, p, w)
                       k == AsFoundEff(c, p, w)        \* meaningful when kf: the as-found alternative of KF-C30-1
                   IN [cls |-> c, par |-> p, v0 |-> w, v |-> v, susp |-> ShouldSuspend(c, q, v),
                       must |-> ResumeMust(c, q, v), may |-> ResumeMay(c, q, v),
                       kf |-> KFApplies(c, p, w), ksusp |-> ShouldSuspend(c, k, v), kmust |-> ResumeMust(c, k, v)]
PredRows == UNION {UNION {UNION {{Row(c, p, w, v) : v \in ValsOf(c)} : w \in V0Of(c)} : p \in {x \in ParamsOf(c) : Valid(c, x)}} : c \in Classes}
DumpPreds == TLCGet("stats").generated >= 0 /\ ndJsonSerialize(IOEnv.CASES_OUT, SetToSeq(PredRows))
=============================================================================
