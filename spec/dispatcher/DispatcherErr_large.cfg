CONSTANTS
  NCb = 3
  Names = {"all", "start", "descriptor", "event", "stop"}
  PlanIds = {1, 2, 3, 4, 5}
  MaxRaise = 1
  DeliverAll = FALSE
SPECIFICATION Spec
INVARIANT TypeOK
INVARIANT C19_OnceInOrder
INVARIANT C19_InvocationOrder
INVARIANT C19_IgnoreDeliversAll
INVARIANT C19_PropagateDelivers
INVARIANT C19_IgnoreDoesNotStopPlan
INVARIANT C19_PropagateEndsPlan
INVARIANT C19_RunClosedFail
INVARIANT C19_RunClosedForAll
