"""Regenerate section 9 of DESIGN.md (between the SEEDED markers) from seeded/*/meta.json."""
import json
from pathlib import Path

ROOT = Path(__file__).resolve().parent.parent


def main():
    rows = []
    for d in sorted((ROOT / "seeded").iterdir()):
        m = json.loads((d / "meta.json").read_text())
        c = m.get("confirmed_by_coordinator", {})
        summ = " ".join(str(m.get("summary", "")).split())[:230]
        needs = " ".join(str(m.get("needs", "")).split())[:200]
        rows.append(f"| `seeded/{d.name}` | {summ} | {needs} | {c.get('check_result', '?')} | {c.get('detection', '')} |")
    nb = sum(1 for r in rows if "| caught as built |" in r)
    by_round = {}
    for d in sorted((ROOT / "seeded").iterdir()):
        c = json.loads((d / "meta.json").read_text()).get("confirmed_by_coordinator", {})
        rd = d.name.split("-")[1]
        a, b = by_round.get(rd, (0, 0))
        by_round[rd] = (a + 1, b + (c.get("detection", "") == "caught as built"))
    stats = "; ".join(f"round {rd}: {a} changes, {b} caught as built, {a - b} missed at first and caught after strengthening" for rd, (a, b) in sorted(by_round.items()))
    text = (f"**Summary.** {len(rows)} confirmed seeded changes ({stats}).  Every one of them is detected by the committed machinery\n"
            "(`python -m harness.seeded_regress` re-runs them all).\n\n" +
            "Independent sub-agents were given only the text of one property and a scratch worktree of bluesky (nothing from /verif)\n"
            "and asked for a change that breaks the property while the existing tests still pass, with a demonstration.  Each change\n"
            "below was confirmed (demo fails with it, passes without it) and then run against the checks\n"
            "(`git -C /repo apply seeded/<id>/patch.diff; ./check <Cxx>; git -C /repo checkout -- .`, or equivalently\n"
            "`VERIF_REPO_SRC=<worktree>/src ./check <Cxx>`).  Where a change was missed at first the last column says what was\n"
            "strengthened; all listed changes are caught by the committed machinery.\n\n"
            "| change | what it does | what it needs to manifest | check result | detection / strengthening |\n|---|---|---|---|---|\n"
            + "\n".join(rows) + "\n")
    p = ROOT / "DESIGN.md"
    s = p.read_text()
    a, b = "<!-- SEEDED:BEGIN -->", "<!-- SEEDED:END -->"
    if a not in s:
        s = s.replace("SEEDED_TABLE", a + "\n" + b)
    i, j = s.index(a) + len(a), s.index(b)
    s = s[:i] + "\n" + text + s[j:]
    p.write_text(s)
    print(f"{len(rows)} seeded changes listed")


if __name__ == "__main__":
    main()
