"""C39 -- the documents a LiveDispatcher re-emits form a valid run.

spec/livedispatcher/LiveDispatcher.tla models the core of bluesky.callbacks.stream.LiveDispatcher (descriptor cache
keyed by stream_name/desc_id, counters, re-emitted stop, per-run reset) with monitors in the statement's vocabulary:
per emitted stream the seq_nums emitted, and the num_events of the emitted stop.  TLC checks "events of every stream
are numbered 1..N" and "stop.num_events[stream] = N" over all interleavings of <= 2 raw streams x <= 4 events with
descriptor changes, 2 runs, pass-through / by-name / free stream_name keying.  Binding:
  * every history printed by TLC is replayed on real LiveDispatcher (sub)classes fed with event_model documents and
    the re-emitted documents are compared step by step,
  * document streams produced by a real RunEngine (ophyd.sim devices; baseline, monitor, configuration changes,
    consecutive runs) and random synthetic streams are fed through pass-through and transforming subclasses; the
    re-emitted documents are validated by TLC (LiveDispatcherTrace, batch) with every invariant evaluated.
The specification offers the documented and the as-found step for the two known findings; an execution that is only
explained by an as-found step is reported under that finding's signature, anything else as a violation.
"""
import json
import random
import re

from harness.tlc import SPEC, run_tlc, write_cfg
from harness.tracecheck import validate_traces

SD = SPEC / "livedispatcher"
# few GC threads: the JVMs are short-lived and the machine is shared (16 parallel-GC threads per JVM thrash under load)
JENV = {"_JAVA_OPTIONS": "-XX:ParallelGCThreads=2"}
DESIGN_REF = "DESIGN.md section 7 (C39), section 8"
KF = {"seq": "LiveDispatcher:seq_num:global-seq_count",            # KF-C39-1
      "tally": "LiveDispatcher:num_events:counts-descriptors"}     # KF-C39-2
INVS = ["C39_SeqPerStream", "C39_NumEvents"]
PROPS = ["C39_EventNumbered", "C39_StopCounts", "C39_DescriptorFirst", "C39_RunsIndependent"]
E0 = {"op": "", "key": "", "name": "", "d": 0, "newdesc": False, "ename": "", "seq": 0, "ne": []}


# ----------------------------------------------------------------------------------------------------------------
# real LiveDispatcher (sub)classes under test
def classes():
    from bluesky.callbacks.stream import LiveDispatcher

    class Rec:
        """mixin: logs every process_event call (arguments only) before the real implementation runs"""
        def process_event(self, doc, stream_name="primary", id_args=None, config=None):
            self.calls.append({"key": stream_name, "raw": doc["descriptor"], "keys": tuple(doc["data"].keys()),
                               "id_args": id_args})
            return super().process_event(doc, stream_name=stream_name, id_args=id_args, config=config)

    class Pass(Rec, LiveDispatcher):
        """pass-through: nothing overridden except the logging hook"""
        def __init__(self):
            self.calls = []
            super().__init__()

    class ByName(Pass):
        """transforming: passes the raw stream's name as stream_name"""
        def event(self, doc):
            self.process_event(doc, stream_name=self.raw_descriptors[doc["descriptor"]].get("name", "primary"))

    class Scripted(Pass):
        """transforming: stream_name dictated by the harness (self.next_key)"""
        next_key = "primary"

        def event(self, doc):
            self.process_event(doc, stream_name=self.next_key)

    class Negative(Pass):
        """transforming: renames and negates the data (as in the repository's test_streams)"""
        def event(self, doc):
            doc = dict(doc)
            doc["data"] = {f"modified_{k}": (-abs(v) if isinstance(v, (int, float)) else v) for k, v in doc["data"].items()}
            return super().event(doc)

    class Decimate(Pass):
        """transforming: forwards every second raw event, under stream_name 'avg'"""
        def start(self, doc):
            self.k = 0
            super().start(doc)

        def event(self, doc):
            self.k += 1
            if self.k % 2 == 0:
                self.process_event(doc, stream_name="avg")

    class Duplicate(ByName):
        """transforming: forwards every raw event twice, the copy under stream_name 'copy'"""
        def event(self, doc):
            super().event(doc)
            self.process_event(doc, stream_name="copy")

    class VaryKeys(ByName):
        """transforming: drops one data key on every third event (output descriptor changes and comes back)"""
        def start(self, doc):
            self.k = 0
            super().start(doc)

        def event(self, doc):
            self.k += 1
            if self.k % 3 == 0 and len(doc["data"]) > 1:
                doc = dict(doc)
                doc["data"] = dict(list(doc["data"].items())[1:])
            super().event(doc)

    return {"Pass": Pass, "ByName": ByName, "Scripted": Scripted, "Negative": Negative, "Decimate": Decimate,
            "Duplicate": Duplicate, "VaryKeys": VaryKeys}


class InjectedConsumerFault(Exception):
    pass


class Session:
    """feeds raw documents one at a time into a dispatcher and turns what it re-emits into trace steps"""

    def __init__(self, ld, fail_at=0):
        self.ld = ld
        self.emitted = []
        ld.subscribe(lambda name, doc: self.emitted.append((name, doc)))
        # a second subscriber (registered after the recording one) that fails on the fail_at-th re-emitted event: what the
        # recording subscriber sees must stay a valid run (the RunEngine ignores / logs consumer exceptions)
        self.fail_at, self._nev = fail_at, 0
        if fail_at:
            ld.subscribe(self._failing)
        self.steps = []
        self.raw_desc = {}      # raw descriptor uid -> name
        self.out_desc = {}      # emitted descriptor uid -> name   (this run only)
        self.out_start = None
        self.idents = {}        # (raw uid, data keys, id_args) -> d   (per run)
        self.problems = []

    def _failing(self, name, doc):
        if name == "event":
            self._nev += 1
            if self._nev == self.fail_at:
                raise InjectedConsumerFault(f"consumer fails on re-emitted event #{self._nev}")

    def feed(self, name, doc):
        n0, c0 = len(self.emitted), len(self.ld.calls)
        try:
            self.ld(name, doc)
        except InjectedConsumerFault:
            pass
        new, calls = self.emitted[n0:], self.ld.calls[c0:]
        if name == "start":
            self.out_desc, self.idents = {}, {}
            ok = len(new) == 1 and new[0][0] == "start"
            self.out_start = new[0][1]["uid"] if ok else None
            self.steps.append(dict(E0, op="start") if ok else dict(E0, op="start", ename="?"))
            if ok and new[0][1].get("uid") == doc["uid"]:
                self.problems.append("re-emitted start reuses the raw uid")
        elif name == "descriptor":
            self.raw_desc[doc["uid"]] = doc.get("name", "primary")
            if new:
                self.problems.append(f"documents emitted on a raw descriptor: {[n for n, _ in new]}")
        elif name == "event":
            i = 0
            for c in calls:
                ident = (c["raw"], c["keys"], c["id_args"])
                d = self.idents.setdefault(ident, len(self.idents) + 1)
                st = dict(E0, op="proc", key=c["key"], name=self.raw_desc.get(c["raw"], "?"), d=d, ename="?")
                if i < len(new) and new[i][0] == "descriptor":
                    dd = new[i][1]
                    st["newdesc"] = True
                    if dd.get("run_start") == self.out_start:
                        self.out_desc[dd["uid"]] = dd.get("name", "?")
                    i += 1
                if i < len(new) and new[i][0] == "event":
                    ev = new[i][1]
                    st["ename"] = self.out_desc.get(ev["descriptor"], "?")
                    st["seq"] = ev["seq_num"] if isinstance(ev["seq_num"], int) and 0 <= ev["seq_num"] < 10 ** 6 else -1
                    i += 1
                self.steps.append(st)
            if i != len(new):
                self.problems.append(f"unexpected documents emitted on a raw event: {[n for n, _ in new[i:]]}")
        elif name == "stop":
            ok = len(new) == 1 and new[0][0] == "stop" and new[0][1].get("run_start") == self.out_start
            ne = new[0][1].get("num_events", {}) if new else {}
            self.steps.append(dict(E0, op="stop", ne=sorted([str(k), int(v)] for k, v in ne.items()),
                                   ename="" if ok else "?"))
        return new


class RawRun:
    """valid raw documents (event_model.compose_run) for synthetic streams"""

    def __init__(self):
        import event_model
        self.b = event_model.compose_run()
        self.desc = {}          # (name, d) -> bundle
        self.start = self.b.start_doc

    def descriptor(self, name, d, keys=("x", "y")):
        if (name, d) not in self.desc:
            dk = {k: {"dtype": "number", "shape": [], "source": f"sim:{k}"} for k in keys}
            self.desc[(name, d)] = self.b.compose_descriptor(name=name, data_keys=dk, configuration={"dev": {"data": {"c": d}, "timestamps": {"c": 0.0}, "data_keys": {}}})
            return self.desc[(name, d)].descriptor_doc
        return None

    def event(self, name, d, keys=("x", "y")):
        return self.desc[(name, d)].compose_event(data={k: 1.5 for k in keys}, timestamps={k: 0.0 for k in keys})

    def stop(self):
        return self.b.compose_stop()


def run_script(cls_name, ops, K, fail_at=0):
    """ops: list of ("start",) | ("proc", key, name, d) | ("stop",) -> trace steps observed on the real class"""
    ld = K[cls_name]()
    s = Session(ld, fail_at=fail_at)
    raw = None
    for op in ops:
        if op[0] == "start":
            raw = RawRun()
            s.feed("start", raw.start)
        elif op[0] == "proc":
            _, key, name, d = op
            dd = raw.descriptor(name, d)
            if dd is not None:
                s.feed("descriptor", dd)
            ld.next_key = key
            s.feed("event", raw.event(name, d))
        else:
            s.feed("stop", raw.stop())
    return s


def step_key(st):
    return (st["op"], st["key"], st["name"], st["d"], st["newdesc"], st["ename"], st["seq"], tuple(map(tuple, st["ne"])))


# ----------------------------------------------------------------------------------------------------------------
def replay(ctx, cases, K):
    groups = {}
    for c in cases:
        h = c["hist"]
        inp = (c["keying"], tuple((o[0], o[1], o[2], o[3]) for o in h))
        outs = tuple((o[5], o[6], tuple(sorted(map(tuple, o[7])))) for o in h)     # newdesc (o[4]) is not judged
        groups.setdefault(inp, {}).setdefault(frozenset(c["seen"]), set()).add(outs)
    vac = {"seq": 0, "tally": 0, "two_runs": 0, "desc_change": 0, "interleaved": 0}
    for (keying, ins), alts in groups.items():
        ops = [(o[0],) if o[0] != "proc" else o for o in ins]
        cls = {"default": "Pass", "byname": "ByName", "free": "Scripted"}[keying]
        for s_ in alts:
            for t in s_:
                vac[t] += 1
        procs = [o for o in ins if o[0] == "proc"]
        vac["two_runs"] += sum(o[0] == "start" for o in ins) > 1
        vac["desc_change"] += len({(o[2], o[3]) for o in procs}) > len({o[2] for o in procs})
        vac["interleaved"] += len({o[2] for o in procs}) > 1
        nontriv = len(procs) >= 2
        ctx.case((cls, ins), nontriv)
        try:
            sess = run_script(cls, ops, K)
        except Exception as ex:  # noqa
            ctx.violation(f"replay-exc:{cls}:{type(ex).__name__}:{ins}", f"{cls} raised {ex!r} on {ins}", {"class": cls, "ops": ins})
            continue
        got = tuple((st["ename"], st["seq"], tuple(sorted((a, b) for a, b in st["ne"] if b > 0))) for st in sess.steps)
        info = {"class": cls, "ops": [list(o) for o in ins], "observed(stream,seq_num,num_events)": [list(g) for g in got],
                "problems": sess.problems}
        if sess.problems:
            ctx.violation(f"replay-shape:{cls}:{sess.problems[0]}:{ins}", f"{cls} on {ins}: {sess.problems}", info)
        hit = [s_ for s_, outs in alts.items() if got in outs]
        if frozenset() in hit:
            pass
        elif hit:
            for tag in sorted(min(hit, key=len)):
                ctx.violation(f"{KF[tag]}:replay", f"{cls} on {ins}: observed {got}; only the as-found {tag} alternative explains it", info)
        else:
            info["specified_one_of"] = [[list(x) for x in o] for s_ in alts for o in alts[s_]][:4]
            ctx.violation(f"replay:{cls}:{ins}", f"{cls} fed {ins} re-emitted (stream, seq_num, num_events) = {got}, not a behaviour of LiveDispatcher.tla", info)
        if nontriv and len({o[2] for o in procs}) > 1:
            ctx.sample({"class": cls, "ops": [list(o) for o in ins], "observed": [list(g) for g in got]}, limit=3)
    return vac


# ----------------------------------------------------------------------------------------------------------------
_RE = {}


def get_re():
    import asyncio
    from bluesky import RunEngine
    if "re" not in _RE:
        _RE["re"] = RunEngine({}, loop=asyncio.new_event_loop(), context_managers=[])
    return _RE["re"]


def get_hw():
    import contextlib
    import io
    if "hw" not in _RE:
        from ophyd.sim import hw
        with contextlib.redirect_stdout(io.StringIO()), contextlib.redirect_stderr(io.StringIO()):
            _RE["hw"] = hw()
    return _RE["hw"]


def re_plans(rng):
    """small plans on ophyd.sim devices: several streams, descriptor changes, consecutive runs"""
    import bluesky.plan_stubs as bps
    import bluesky.plans as bp
    import bluesky.preprocessors as bpp
    h = get_hw()
    n = rng.randint(1, 4)

    def monitored():
        # a monitored signal changed from inside the plan: the monitor event is emitted synchronously in the engine's thread
        yield from bps.open_run()
        yield from bps.monitor(h.signal, name="mon")
        for i in range(n):
            h.signal.put(i + 10)
            yield from bps.trigger_and_read([h.det])
        yield from bps.unmonitor(h.signal)
        yield from bps.close_run()

    def reconfigure():
        yield from bps.open_run()
        for i in range(rng.randint(2, 4)):
            yield from bps.trigger_and_read([h.det])
            if rng.random() < 0.6:
                yield from bps.configure(h.det, {"noise_multiplier": i + 2})
            yield from bps.trigger_and_read([h.det1], name="other")
        yield from bps.close_run()

    def two_streams():
        yield from bps.open_run()
        for i in range(n):
            yield from bps.trigger_and_read([h.det1], name="a")
            if i % 2 == 0:
                yield from bps.trigger_and_read([h.det2], name="b")
        yield from bps.close_run()

    def empty_run():
        yield from bps.open_run()
        yield from bps.close_run()

    return {
        "count": lambda: bp.count([h.det], n),
        "scan": lambda: bp.scan([h.det], h.motor, 0, 1, n + 1),
        "scan+baseline": lambda: bpp.baseline_wrapper(bp.scan([h.det], h.motor, 0, 1, n + 1), [h.det1, h.motor1]),
        "monitored": monitored,
        "reconfigure": reconfigure,
        "two_streams": two_streams,
        "empty": empty_run,
        "grid+baseline": lambda: bpp.baseline_wrapper(bp.grid_scan([h.det4], h.motor1, 0, 1, 2, h.motor2, 0, 1, n), [h.det2]),
    }


def traces_from_re(ctx, rng, K, n):
    RE = get_re()
    out = []
    for _ in range(n):
        cls = rng.choice(sorted(set(K) - {"Scripted"}))
        ld = K[cls]()
        s = Session(ld, fail_at=rng.choice([0, 0, 1, 2, 3, 5]))
        tok = RE.subscribe(lambda name, doc, s=s: s.feed(name, doc) if name in ("start", "descriptor", "event", "stop") else None)
        names = []
        try:
            for _k in range(rng.choice([1, 1, 2, 3])):
                plans = re_plans(rng)
                nm = rng.choice(sorted(plans))
                names.append(nm)
                RE(plans[nm]())
        except Exception as ex:  # noqa
            ctx.violation(f"re-exc:{cls}:{type(ex).__name__}:{names}", f"{cls} subscribed to a RunEngine raised {ex!r} during plans {names}", {"class": cls, "plans": names})
            continue
        finally:
            RE.unsubscribe(tok)
        out.append((s, {"source": "RunEngine", "class": cls, "plans": names}))
    return out


def traces_synthetic(ctx, rng, K, n):
    out = []
    for _ in range(n):
        cls = rng.choice(sorted(K))
        streams = rng.sample(["primary", "baseline", "mon", "aux"], rng.randint(1, 3))
        ops = []
        for _r in range(rng.choice([1, 1, 2])):
            ops.append(("start",))
            cur = {s_: 1 for s_ in streams}
            for _e in range(rng.randint(0, 14)):
                nm = rng.choice(streams)
                if rng.random() < 0.15:
                    cur[nm] += 1        # descriptor change in that stream
                ops.append(("proc", rng.choice(["primary", nm, "avg"]), nm, cur[nm]))
            ops.append(("stop",))
        try:
            s = run_script(cls, ops, K, fail_at=rng.choice([0, 0, 1, 2, 4, 7]))
        except Exception as ex:  # noqa
            ctx.violation(f"synthetic-exc:{cls}:{type(ex).__name__}", f"{cls} raised {ex!r} on {ops}", {"class": cls, "ops": ops})
            continue
        out.append((s, {"source": "synthetic", "class": cls, "ops": [list(o) for o in ops]}))
    return out


def run(ctx):
    K = classes()
    # 1. exhaustive model checking (+ in the quick tier the same run prints the histories for the replay)
    hist_re = re.compile(r'<<"HIST", "((?:[^"\\]|\\.)*)">>')
    consts = {"Streams": {"primary", "baseline"}, "Keys": {"primary", "avg"}, "MaxEvents": 3, "MaxFree": 2 if ctx.quick else 3, "MaxDesc": 2,
              "MaxRuns": 2, "Keyings": {"default", "byname", "free"}, "NameBys": {"raw", "key"}, "Choice": "both"}
    if ctx.quick:
        cfgp = write_cfg(ctx.out / "small_replay.cfg", consts, invariants=["TypeOK"] + INVS, properties=PROPS, constraints=["DumpHist"])
        runs = [("LiveDispatcher exhaustive + replay generation (documented + as-found alternatives) MaxEvents=3 (2 for free keying)", cfgp, 1)]
    else:
        cfgp = write_cfg(ctx.out / "replay.cfg", dict(consts, MaxEvents=4, MaxFree=0, Keys={"primary"}, Keyings={"default", "byname"}),
                         invariants=INVS, constraints=["DumpHist"])
        runs = [("LiveDispatcher exhaustive LiveDispatcher_large.cfg (documented + as-found alternatives)", "LiveDispatcher_large.cfg", "auto"),
                ("LiveDispatcher exhaustive LiveDispatcher_doc.cfg (documented design only, no exemption)", "LiveDispatcher_doc.cfg", "auto"),
                ("LiveDispatcher replay generation MaxEvents=3, all keyings", write_cfg(ctx.out / "replay3.cfg", consts, invariants=INVS, constraints=["DumpHist"]), 1),
                ("LiveDispatcher replay generation MaxEvents=4, default/byname keying", cfgp, 1)]
    out = ""
    for label, c, w in runs:
        res = run_tlc("LiveDispatcher", c, spec_dir=SD, tag="C39", timeout=3000, workers=w, env=JENV)
        ctx.add_tlc(res, label)
        if not res.ok:
            st = res.trace[-1][1] if res.trace else {}
            ctx.violation(f"spec:{res.violated}", f"LiveDispatcher.tla {res.kind} {res.violated} violated on the specification itself: hist={st.get('hist')}",
                          {"tlc_trace": str(res.trace)[:3000]})
            return
        out += res.stdout
    ctx.cov["exhaustive"] = True
    # the as-found design alone violates both clauses: TLC's refutations of KF-C39-1 / KF-C39-2 (the corresponding histories are
    # among those replayed below)
    res = run_tlc("LiveDispatcher", "LiveDispatcher_asfound.cfg", spec_dir=SD, tag="C39a", timeout=600, extra=["-continue"], workers=1, env=JENV)
    ctx.add_tlc(res)
    refuted = set(re.findall(r"Invariant (\S+) is violated", res.stdout))
    if refuted != {"C39_SeqPerStream_Strict", "C39_NumEvents_Strict"}:
        ctx.machinery(f"LiveDispatcher_asfound.cfg: expected TLC to refute both strict invariants for the as-found design, got {refuted}")
    ctx.note("as-found design (Choice = asfound) refuted by TLC for C39_SeqPerStream_Strict and C39_NumEvents_Strict")

    # 2. every history that ends with a stop, replayed on the real classes
    cases = [json.loads(json.loads('"' + m.group(1) + '"')) for m in hist_re.finditer(out)]
    if not cases:
        ctx.machinery("no histories printed by the replay configuration")
    vac = replay(ctx, cases, K)
    if any(v == 0 for v in vac.values()):
        ctx.machinery(f"vacuous replay set: {vac}")
    ctx.note(f"replayed histories by feature: {vac}")
    ctx.rule = ("cases = every history of the replay configuration that ends with a stop (keying, start / process_event(key, raw stream, "
                "descriptor) / stop sequence) printed by TLC and executed on the real pass-through / by-name / scripted LiveDispatcher "
                "subclass; non-trivial = at least two events; distinct by (class, input sequence); plus re-emitted streams of RunEngine "
                "runs and random synthetic streams through six subclasses, validated by TLC")

    # 3. code -> spec: re-emitted documents of real runs and synthetic streams validated by TLC
    rng = random.Random(ctx.seed)
    sessions = traces_from_re(ctx, rng, K, 25 if ctx.quick else 250) + traces_synthetic(ctx, rng, K, 60 if ctx.quick else 1500)
    traces = [s.steps for s, _ in sessions]
    for s, m in sessions:
        ctx.case((m["class"], tuple(step_key(st)[:4] for st in s.steps)), sum(st["op"] == "proc" for st in s.steps) >= 2)
        if s.problems:
            ctx.violation(f"shape:{m['class']}:{s.problems[0]}", f"{m['class']}: {s.problems}", {"case": m, "trace": s.steps})
    names = {x for t in traces for st in t for x in (st["key"], st["name"], st["ename"])} | {p[0] for t in traces for st in t for p in st["ne"]}
    tcfg = write_cfg(ctx.out / "trace.cfg", {"Streams": names - {""}, "Keys": names - {""}, "MaxEvents": 100000, "MaxFree": 100000, "MaxDesc": 100000, "MaxRuns": 100000,
                                             "Keyings": {"free"}, "NameBys": {"raw", "key"}, "Choice": "both"},
                     spec="TraceSpec", invariants=INVS, properties=PROPS, postcondition="TraceAccepted")
    v = validate_traces("LiveDispatcherTrace", tcfg, traces, SD, ctx.out, tag="C39t", env=JENV)
    ctx.add_tlc(v.res, "LiveDispatcherTrace")
    if v.invariant:
        i = v.inv_trace_index
        m = sessions[i][1] if i is not None else {}
        ctx.violation(f"trace-invariant:{v.invariant}:{m.get('class')}:{m.get('plans', m.get('ops'))}",
                      f"{v.invariant} violated on documents re-emitted by {m.get('class')} ({m.get('source')})",
                      {"case": m, "trace": traces[i] if i is not None else None, "state": str(v.inv_state)[:1500]})
    for idx, upto in sorted(v.rejected.items()):
        m, t = sessions[idx][1], traces[idx]
        ev = t[upto] if upto < len(t) else None
        what = "?"
        if ev:
            what = {"proc": f"event re-emitted for process_event(stream_name={ev['key']!r}) of raw stream {ev['name']!r}: descriptor emitted={ev['newdesc']}, "
                            f"stream={ev['ename']!r}, seq_num={ev['seq']}", "stop": f"stop with num_events={ev['ne']}", "start": "start"}[ev["op"]]
        pre = [(e["op"], e["key"], e["name"], e["d"], e["seq"]) for e in t[:upto]]
        ctx.violation(f"trace-rejected:{m['class']}:{ev['op'] if ev else '?'}:{pre[-8:]}:{step_key(ev) if ev else ''}",
                      f"documents re-emitted by {m['class']} ({m['source']}) are not a behaviour of LiveDispatcher.tla at step {upto}: {what}; before: {pre}",
                      {"case": m, "trace": t, "accepted_prefix": upto})
    kfseen = {int(a) - 1: int(b) for a, b in re.findall(r'<<"KFSEEN", (\d+), (\d+)>>', v.res.stdout)}
    for idx, code in sorted(kfseen.items()):
        if idx in v.rejected:
            continue
        m = sessions[idx][1]
        for tag, bit in (("seq", 1), ("tally", 2)):
            if (code - 1) & bit:
                ctx.violation(f"{KF[tag]}:trace", f"documents re-emitted by {m['class']} ({m['source']}) are explained only by the as-found {tag} step",
                              {"case": m, "trace": traces[idx]})
    ctx.traces(len(traces) - len(v.rejected) - (1 if v.invariant else 0))
    ctx.assumptions += [
        "a stream of the re-emitted run = the name carried by the re-emitted descriptor an event refers to",
        "raw documents are valid (event_model.compose_run / a real RunEngine); only start, descriptor, event, stop reach the dispatcher",
        "subclasses interact with the base class through start/descriptor/event/process_event/stop only",
        "num_events entries with count 0 are ignored when comparing",
    ]
