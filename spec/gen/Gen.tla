-------------------------------- MODULE Gen --------------------------------
(***************************************************************************)
(* The Python generator protocol (PEP 342 / language reference 6.2.9) as   *)
(* seen by the CALLER of a generator object.  Shared by PlanMutator.tla    *)
(* (C20, C21) and GenBare.tla.  Pure definitions, no variables.            *)
(*                                                                         *)
(* A generator is an environment process.  Caller side operations          *)
(*     send(v) | throw(e) | close()                                        *)
(* and what comes back to the caller (the "outcome")                       *)
(*     yield m | return r  (= StopIteration(r)) | raise e | closed         *)
(*                                                                         *)
(* status: "fresh" (created, not started), "susp" (suspended at a yield),  *)
(*         "done" (returned / raised / closed).                            *)
(* All values, messages and exceptions are labels (strings); "None" is     *)
(* Python's None.  An outcome / reaction is a record [op, a].              *)
(***************************************************************************)
EXTENDS Naturals, Sequences

R(op, a) == [op |-> op, a |-> a]

GenStatus == {"fresh", "susp", "done"}
CallOps   == {"send", "throw", "close"}

\* Does the operation run code of the generator body?  Only then does the environment (the plan's code) choose.
CodeRuns(st, op) == (st = "fresh" /\ op = "send") \/ st = "susp"

\* A just-started generator only accepts send(None) (TypeError otherwise: excluded as a driver precondition).
SendOK(st, op, a) == (st = "fresh" /\ op = "send") => a = "None"

\* Outcome when no code runs:
\*   throw into an unstarted generator raises the exception immediately (and finishes the generator);
\*   throw into a finished generator re-raises it; close() on either is a no-op;
\*   send to a finished generator raises StopIteration (indistinguishable from "return None").
Forced(st, op, a) ==
    CASE op = "throw" -> R("raise", a)
      [] op = "close" -> R("closed", "None")
      [] op = "send"  -> R("return", "None")

\* Reactions the running code can have, as the caller sees them.
\*   send / throw : yield m | return r | raise e
\*   close        : GeneratorExit is raised at the yield.  The body may return or let GeneratorExit propagate
\*                  (both: close() returns, "closed"), raise another exception e (close() raises e), or yield
\*                  again, in which case close() raises RuntimeError("generator ignored GeneratorExit").
LegalReaction(op, r) ==
    IF op = "close" THEN r.op \in {"closed", "raise"} ELSE r.op \in {"yield", "return", "raise"}

IgnoredExit == "RuntimeError"      \* label of the exception close() raises when the body yields on GeneratorExit

\* r is a possible outcome of  op(a)  on a generator in status st
Allowed(st, op, a, r) ==
    IF CodeRuns(st, op) THEN LegalReaction(op, r) ELSE r = Forced(st, op, a)

NextSt(st, op, r) ==
    IF CodeRuns(st, op)
    THEN IF r.op = "yield" \/ (op = "close" /\ r = R("raise", IgnoredExit))
         THEN "susp"            \* (a generator that ignored GeneratorExit is still suspended at its new yield)
         ELSE "done"
    ELSE "done"

(***************************************************************************)
(* Transparency (C20), stated on ONE driver operation ("round") against    *)
(* the bare generator as reference.  rd describes the round:               *)
(*   ref0   status the bare generator would have had before the operation  *)
(*   op, a  the driver's operation on the wrapper                          *)
(*   n      how many operations that run code reached the parent (sat. 2)  *)
(*   pop,pa the (last) operation that reached the parent                   *)
(*   r      the parent's reaction to it                                    *)
(* out is what the wrapper answered to the driver.                         *)
(***************************************************************************)
\* every driver operation reaches the parent's code exactly once, unchanged (and not at all when the bare
\* generator would not have run any code either)
SameOpsReachParent(rd) ==
    IF CodeRuns(rd.ref0, rd.op)
    THEN rd.n = 1 /\ rd.pop = rd.op /\ rd.pa = rd.a
    ELSE rd.n = 0

\* what the parent did is what the wrapper does
RefOutcome(rd) == IF CodeRuns(rd.ref0, rd.op) THEN rd.r ELSE Forced(rd.ref0, rd.op, rd.a)
SameOutcome(rd, out) == out = RefOutcome(rd)
=============================================================================
