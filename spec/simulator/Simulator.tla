----------------------------- MODULE Simulator -----------------------------
(***************************************************************************)
(* C32 -- RunEngineSimulator.simulate_plan and check_limits                *)
(* (bluesky/simulators.py).                                                *)
(*                                                                         *)
(* mode = "sim": a sequence `hs` of add_handler operations                  *)
(*   [cmds (sequence of command names), flt (object name or "*" = no       *)
(*    filter), idx (insertion index, END = append), res (what the handler  *)
(*    returns)]                                                            *)
(* and a plan (sequence of messages [cmd, obj, val]).  Implementation-     *)
(* shaped: the handler list is built by list.insert(idx, handler); for each*)
(* message the FIRST handler of the list whose predicate holds answers,    *)
(* its result is sent into the plan's yield (None = 0 when nobody answers);*)
(* the plan returns the tuple of what it received, which simulate_plan     *)
(* records as return_value; the returned list is the yielded messages.     *)
(*                                                                         *)
(* mode = "limits": devices `lims` = sequence of [dev, has, lo, hi] (has = *)
(* the device is Checkable and enforces lo <= v <= hi) and a plan of set / *)
(* other messages; check_limits walks the plan, calls check_value for every*)
(* set on a Checkable device, remembers (and warns about) the others.      *)
(*                                                                         *)
(* The invariants state C32 in the vocabulary of the statement.  In model  *)
(* checking the outputs (msgs, sent, ret, raised) are the specified ones;  *)
(* SimulatorTrace.tla puts the outputs RECORDED from the implementation in *)
(* their place and checks Conforms and the same invariants.                *)
(***************************************************************************)
EXTENDS Integers, Sequences, SequencesExt, FiniteSets, TLC, Json, IOUtils

CONSTANTS Cmds, Objs,        \* commands and object names of the simulate_plan domain
          HA, PA,            \* sub-domain A: <= HA handlers, plans of <= PA messages over Cmds x Objs
          HB, PB, BCmds, BObjs,   \* sub-domain B: <= HB handlers, plans of <= PB messages over BCmds x BObjs
          HC, PC,            \* sub-domain C: <= HC handlers, plans of <= PC messages over Cmds x Objs
          LimPlan,           \* check_limits domain: plans of <= LimPlan messages
          LimR,              \* limits range over -LimR..LimR (lo <= hi)
          SetR               \* set values range over -SetR..SetR

LimVals == (0 - LimR)..LimR
SetVals == (0 - SetR)..SetR

END == 99          \* index "end"
NoneVal == 0       \* Python None sent into the yield

VARIABLES stage,                       \* "pick" (plan not chosen yet) | "done" (a complete case)
          mode, hs, plan, lims,        \* inputs
          msgs, sent, ret, raised      \* outputs: returned messages (serial numbers), values received by the plan,
                                       \* recorded return value, check_limits raised
vars == <<stage, mode, hs, plan, lims, msgs, sent, ret, raised>>

----------------------------------------------------------------------------
(* simulate_plan *)
Insert(list, i, h) == IF i >= Len(list) THEN Append(list, h)
                      ELSE SubSeq(list, 1, i) \o <<h>> \o SubSeq(list, i + 1, Len(list))
RECURSIVE BuildUpTo(_, _)
BuildUpTo(ops, n) == IF n = 0 THEN <<>> ELSE Insert(BuildUpTo(ops, n - 1), ops[n].idx, ops[n])
Build(ops) == BuildUpTo(ops, Len(ops))                  \* RunEngineSimulator.message_handlers

Matches(h, m) == /\ \E j \in DOMAIN h.cmds : h.cmds[j] = m.cmd
                 /\ (h.flt = "*" \/ h.flt = m.obj)
Answer(list, m) == LET c == {i \in 1..Len(list) : Matches(list[i], m)}
                   IN IF c = {} THEN NoneVal ELSE list[CHOOSE i \in c : \A j \in c : i <= j].res
SentFor(ops, p) == LET list == Build(ops) IN [i \in 1..Len(p) |-> Answer(list, p[i])]
Serial(p) == [i \in 1..Len(p) |-> i]

(* check_limits *)
Limited(d) == \E i \in DOMAIN lims : lims[i].dev = d /\ lims[i].has
OutOf(d, v) == \E i \in DOMAIN lims : lims[i].dev = d /\ lims[i].has /\ (v < lims[i].lo \/ v > lims[i].hi)
RECURSIVE Scan(_, _, _)
Scan(p, i, ignore) ==
    IF i > Len(p) THEN FALSE
    ELSE LET m == p[i]
         IN IF m.cmd = "set" /\ m.obj \notin ignore
            THEN IF Limited(m.obj) THEN (IF OutOf(m.obj, m.val) THEN TRUE ELSE Scan(p, i + 1, ignore))
                 ELSE Scan(p, i + 1, ignore \cup {m.obj})
            ELSE Scan(p, i + 1, ignore)

----------------------------------------------------------------------------
(* bounded domains (constant definitions: evaluated once) *)
CmdSeqs == {<<c>> : c \in Cmds} \cup {SetToSeq(Cmds)}
IdxFor(k) == IF k = 1 THEN {0} ELSE (0..(k - 2)) \cup {END}
HKinds(k) == {[cmds |-> c, flt |-> f, idx |-> i, res |-> k] : c \in CmdSeqs, f \in Objs \cup {"*"}, i \in IdxFor(k)}
RECURSIVE HS(_)
HS(n) == IF n = 0 THEN {<<>>} ELSE {Append(s, h) : s \in HS(n - 1), h \in HKinds(n)}
RECURSIVE Seqs(_, _)
Seqs(S, n) == IF n = 0 THEN {<<>>} ELSE {Append(p, m) : p \in Seqs(S, n - 1), m \in S}
UpTo(F(_), n) == UNION {F(k) : k \in 0..n}
AMsgs == {[cmd |-> c, obj |-> o, val |-> 0] : c \in Cmds, o \in Objs}
BMsgs == {[cmd |-> c, obj |-> o, val |-> 0] : c \in BCmds, o \in BObjs}
APlans(n) == Seqs(AMsgs, n)
BPlans(n) == Seqs(BMsgs, n)
PlansA == UpTo(APlans, PA)
PlansB == UpTo(BPlans, PB)
PlansC == UpTo(APlans, PC)
MaxH == CHOOSE n \in {HA, HB, HC} : \A m \in {HA, HB, HC} : m <= n
Heads == UpTo(HS, MaxH)
SimPlansFor(h) == (IF Len(h) <= HA THEN PlansA ELSE {}) \cup (IF Len(h) <= HB THEN PlansB ELSE {})
                      \cup (IF Len(h) <= HC THEN PlansC ELSE {})

LimMsgs == {[cmd |-> "set", obj |-> d, val |-> v] : d \in {"m1", "m2", "n"}, v \in SetVals}
             \cup {[cmd |-> "read", obj |-> d, val |-> 0] : d \in {"m1", "m2", "n"}}
LPlans(n) == Seqs(LimMsgs, n)
LimPlans == UpTo(LPlans, LimPlan)
Ranges == {r \in LimVals \X LimVals : r[1] <= r[2]}
MaxOf(S) == CHOOSE x \in S : \A y \in S : y <= x
MinOf(S) == CHOOSE x \in S : \A y \in S : x <= y
LimSets == {<<[dev |-> "m1", has |-> TRUE, lo |-> r[1], hi |-> r[2]],
              [dev |-> "m2", has |-> TRUE, lo |-> q[1], hi |-> q[2]],
              [dev |-> "n", has |-> FALSE, lo |-> 0, hi |-> 0]>> :
                r \in Ranges, q \in {<<MinOf(LimVals), MaxOf(LimVals)>>, <<0, 0>>}}

(* two steps, so that TLC's workers share the enumeration: Init picks the handlers / the devices, Pick the plan *)
Init ==
    /\ stage = "pick" /\ plan = <<>> /\ msgs = <<>> /\ sent = <<>> /\ ret = <<>> /\ raised = FALSE
    /\ \/ mode = "sim" /\ hs \in Heads /\ lims = <<>>
       \/ mode = "limits" /\ hs = <<>> /\ lims \in LimSets /\ LimPlan >= 0
Pick ==
    /\ stage = "pick" /\ stage' = "done"
    /\ UNCHANGED <<mode, hs, lims>>
    /\ IF mode = "sim"
       THEN \E p \in SimPlansFor(hs) :
               LET s == SentFor(hs, p) IN plan' = p /\ msgs' = Serial(p) /\ sent' = s /\ ret' = s /\ raised' = FALSE
       ELSE \E p \in LimPlans :
               plan' = p /\ msgs' = <<>> /\ sent' = <<>> /\ ret' = <<>> /\ raised' = Scan(p, 1, {})
Next == Pick \/ (stage = "done" /\ UNCHANGED vars)
Spec == Init /\ [][Next]_vars

----------------------------------------------------------------------------
(* C32 in the vocabulary of the statement *)
Sim == stage = "done" /\ mode = "sim"
MatchingOps(i) == {k \in DOMAIN hs : Matches(hs[k], plan[i])}      \* by order of registration

\* "returns exactly the messages the plan yields, in order"
C32_MessagesReturned == Sim => msgs = Serial(plan)

\* "sends each matching handler's result into the corresponding yield"; nothing is sent when no handler matches
C32_MatchingHandlerAnswers ==
    Sim => /\ Len(sent) = Len(plan)
           /\ \A i \in DOMAIN plan :
                 /\ (MatchingOps(i) = {}) <=> (sent[i] = NoneVal)
                 /\ sent[i] # NoneVal => \E k \in MatchingOps(i) : hs[k].res = sent[i]

\* "newest matching handler wins" (default index 0: every handler is prepended)
C32_NewestWins ==
    Sim /\ (\A k \in DOMAIN hs : hs[k].idx = 0) =>
        \A i \in DOMAIN plan : MatchingOps(i) # {} => sent[i] = hs[MaxOf(MatchingOps(i))].res

\* index END appends: the oldest matching handler keeps winning
C32_AppendedLoses ==
    Sim /\ (\A k \in DOMAIN hs : hs[k].idx = END \/ k = 1) =>
        \A i \in DOMAIN plan : MatchingOps(i) # {} => sent[i] = hs[MinOf(MatchingOps(i))].res

\* mixed indices: a prepended matching handler overrides every handler registered before it
C32_PrependedOverridesOlder ==
    Sim => \A i \in DOMAIN plan :
              LET z == {k \in MatchingOps(i) : hs[k].idx = 0}
              IN z # {} => \E k \in MatchingOps(i) : k >= MaxOf(z) /\ hs[k].res = sent[i]

\* "records the plan's return value" (the plan returns the tuple of values it received)
C32_ReturnRecorded == Sim => ret = sent

\* "check_limits raises exactly when some set targets a limit-checked device with an out-of-limits value"
Offending(i) == plan[i].cmd = "set" /\ OutOf(plan[i].obj, plan[i].val)
C32_LimitsRaiseIffOffending == stage = "done" /\ mode = "limits" => (raised <=> \E i \in DOMAIN plan : Offending(i))

TypeOK == mode \in {"sim", "limits"} /\ raised \in BOOLEAN

----------------------------------------------------------------------------
\* case dump for the replay (one JSON record per case)
SimCase(h, p) == LET s == SentFor(h, p)
                 IN [mode |-> "sim", hs |-> h, plan |-> p, lims |-> <<>>, msgs |-> Serial(p), sent |-> s, ret |-> s, raised |-> FALSE]
LimCase(ls, p) == [mode |-> "limits", hs |-> <<>>, plan |-> p, lims |-> ls, msgs |-> <<>>, sent |-> <<>>, ret |-> <<>>,
                   raised |-> \E i \in DOMAIN p : p[i].cmd = "set" /\
                                 \E j \in DOMAIN ls : ls[j].dev = p[i].obj /\ ls[j].has /\ (p[i].val < ls[j].lo \/ p[i].val > ls[j].hi)]
\* (TLC normalizes big sets of nested values slowly: the cases are enumerated by index arithmetic over sequences of
\* handler lists of one length / plans / limit sets, so that only those small sets have to be normalized)
HeadSeqN == [n \in 0..MaxH |-> SetToSeq(HS(n))]
PlanSeqN == [n \in 0..MaxH |-> SetToSeq(SimPlansFor([i \in 1..n |-> 0]))]      \* SimPlansFor looks at the length only
SimCasesN(n) == LET H == HeadSeqN[n]
                    P == PlanSeqN[n]
                    np == Len(P)
                IN [k \in 1..(Len(H) * np) |-> SimCase(H[((k - 1) \div np) + 1], P[((k - 1) % np) + 1])]
RECURSIVE SimCasesFrom(_)
SimCasesFrom(n) == IF n > MaxH THEN <<>> ELSE SimCasesN(n) \o SimCasesFrom(n + 1)
LimSetSeq == SetToSeq(LimSets)
LimPlanSeq == SetToSeq(LimPlans)
LimCases == LET np == Len(LimPlanSeq)
            IN IF LimPlan < 0 THEN <<>>
               ELSE [k \in 1..(Len(LimSetSeq) * np) |-> LimCase(LimSetSeq[((k - 1) \div np) + 1], LimPlanSeq[((k - 1) % np) + 1])]
DumpCases ==
    TLCGet("stats").generated >= 0 /\ ndJsonSerialize(IOEnv.CASES_OUT, SimCasesFrom(0) \o LimCases)
=============================================================================
