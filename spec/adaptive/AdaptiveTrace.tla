--------------------------- MODULE AdaptiveTrace ---------------------------
(***************************************************************************)
(* C29, code -> spec: position traces recorded from the REAL adaptive_scan  *)
(* and tune_centroid plans (random response functions, random parameters)   *)
(* are validated against the loop semantics of Adaptive.tla, re-stated in   *)
(* 10^-6 fixed point (TLC has no reals; the recorded values are floats      *)
(* rounded to 10^-6).  Batch scheme: TRACE_FILE holds one trace per line,   *)
(*   [plan, p (parameters), ev (sequence of [x, I]), done, park [set, x]]   *)
(* Init picks the trace, every step consumes one visit, and the visit must  *)
(* be within Eps of the position the loop semantics computes from the       *)
(* RECORDED previous visits (positions are re-synchronised at every visit,  *)
(* the adaptive step is derived from recorded positions, so rounding does   *)
(* not accumulate).  A comparison closer than TieEps to equality may go     *)
(* either way.  The C29 invariants (range, park, iteration bound) are       *)
(* evaluated on the recorded values in every state.                         *)
(* Readings are integers (detector counts), |I| <= 1000; |x| <= 1000.       *)
(***************************************************************************)
EXTENDS Integers, Sequences, TLC, Json, IOUtils

Traces == ndJsonDeserialize(IOEnv.TRACE_FILE)

SC == 1000000
Eps == 100          \* 1e-4
TieEps == 300

VARIABLES tid, l,
          tr,        \* the trace being validated (constant; Traces is parsed once, in TraceInit, not at every reference)
          nx,        \* position the loop visits next (as computed by the specification)
          base,      \* adaptive: last accepted position ; tune: start of the current pass
          pend,      \* tune: stop of the current pass
          stp,       \* tune: signed step of the current pass
          past, hasPast,      \* adaptive: past_I
          sI, mean,           \* tune: sum of readings of the pass, running centroid
          peak, hasPeak,      \* tune: last centroid
          lastx, seen         \* last consumed visit (for the invariants)
tvars == <<tid, l, tr, nx, base, pend, stp, past, hasPast, sI, mean, peak, hasPeak, lastx, seen>>

T == tr
P == T.p
N == Len(T.ev)

Abs(x) == IF x < 0 THEN 0 - x ELSE x
MinI(a, b) == IF a <= b THEN a ELSE b
MaxI(a, b) == IF a <= b THEN b ELSE a
ClipI(v, lo, hi) == MinI(MaxI(v, lo), hi)
SDiv(a, b) == IF a >= 0 THEN a \div b ELSE 0 - ((0 - a) \div b)         \* b > 0, rounds towards 0

\* floor(a * b / c) for a, b >= 0, 0 < c < 2^30 without leaving 32 bits: <<quotient, remainder>>
RECURSIVE MD(_, _, _)
MD(a, b, c) ==
    IF b = 0 THEN <<0, 0>>
    ELSE LET h  == MD(a, b \div 2, c)
             r2 == 2 * h[2]
             q3 == IF r2 >= c THEN 2 * h[1] + 1 ELSE 2 * h[1]
             r3 == IF r2 >= c THEN r2 - c ELSE r2
         IN IF b % 2 = 0 THEN <<q3, r3>>
            ELSE LET r4 == r3 + (a % c)
                     q4 == q3 + (a \div c)
                 IN IF r4 >= c THEN <<q4 + 1, r4 - c>> ELSE <<q4, r4>>
MulDiv(a, b, c) == MD(a, b, c)[1]
SMulDiv(a, b, c) == IF a >= 0 THEN MulDiv(a, b, c) ELSE 0 - MulDiv(0 - a, b, c)      \* b >= 0

Dir == IF P.stop >= P.start THEN 1 ELSE 0 - 1
LowX == MinI(P.start, P.stop)
HighX == MaxI(P.start, P.stop)
S0 == (P.max - P.min) \div 2

Progress(t) == TLCGet(t)
Mark(k) == TLCSet(tid, MaxI(TLCGet(tid), k))

TraceInit ==
    /\ LET all == Traces IN \E i \in 1..Len(all) : tid = i /\ tr = all[i]
    /\ l = 1
    /\ TLCSet(tid, 1)
    /\ nx = P.start
    /\ base = IF T.plan = "adaptive" THEN P.start - S0 * Dir ELSE P.start
    /\ pend = P.stop
    /\ stp = IF T.plan = "tune" THEN SDiv(P.stop - P.start, P.num - 1) ELSE 0
    /\ past = 0 /\ hasPast = FALSE
    /\ sI = 0 /\ mean = 0 /\ peak = 0 /\ hasPeak = FALSE
    /\ lastx = P.start /\ seen = FALSE

E == T.ev[l]

----------------------------------------------------------------------------
(* adaptive_scan *)
A_Consume ==
    /\ T.plan = "adaptive" /\ l <= N
    /\ Abs(E.x - nx) <= Eps
    /\ lastx' = E.x /\ seen' = TRUE /\ l' = l + 1 /\ Mark(l + 1)
    /\ UNCHANGED <<tid, tr, pend, stp, sI, mean, peak, hasPeak>>
    /\ IF ~hasPast
       THEN /\ nx' = E.x + S0 * Dir /\ base' = E.x /\ past' = E.I /\ hasPast' = TRUE
       ELSE LET s    == (E.x - base) * Dir                   \* the step that led here, from recorded positions
                dI   == Abs(E.I - past)
                new  == IF dI # 0 THEN ClipI(MulDiv(P.target, MaxI(s, 0), SC * dI), P.min, P.max)
                                  ELSE MinI((s * 11) \div 10, P.max)
                thrS == MulDiv(MaxI(s, 0), P.thr, SC)
            IN /\ hasPast' = TRUE
               /\ \/ /\ P.backstep /\ new < thrS + TieEps              \* go back and retry with the smaller step
                     /\ past' = past
                     /\ \/ nx' = base + new * Dir /\ base' = base                                  \* documented
                        \/ Dir < 0 /\ nx' = E.x - s - new /\ base' = E.x - s                       \* as coded (descending)
                  \/ /\ ~P.backstep \/ new >= thrS - TieEps
                     /\ past' = E.I
                     /\ base' = E.x
                     /\ nx' = E.x + ((new + 4 * s) \div 5) * Dir

A_End ==
    /\ T.plan = "adaptive" /\ l = N + 1
    /\ T.done => (nx - P.stop) * Dir >= 0 - Eps            \* the loop guard failed
    /\ l' = l + 1 /\ Mark(l + 1)
    /\ UNCHANGED <<tid, tr, nx, base, pend, stp, past, hasPast, sI, mean, peak, hasPeak, lastx, seen>>

----------------------------------------------------------------------------
(* tune_centroid *)
T_Consume ==
    /\ T.plan = "tune" /\ P.nonneg /\ l <= N
    /\ Abs(stp) >= P.min - TieEps                           \* while abs(step) >= min_step
    /\ Abs(E.x - nx) <= Eps
    /\ lastx' = E.x /\ seen' = TRUE
    /\ UNCHANGED <<tid, tr, past, hasPast>>
    /\ LET S2  == sI + E.I
           m2  == IF S2 = 0 THEN E.x ELSE mean + SMulDiv(E.x - mean, E.I, S2)
           nx0 == E.x + stp
           lo  == MinI(base, pend)
           hi  == MaxI(base, pend)
       IN \/ /\ lo - TieEps <= nx0 /\ nx0 <= hi + TieEps                 \* in range: next point of the pass
             /\ nx' = nx0 /\ sI' = S2 /\ mean' = m2
             /\ l' = l + 1 /\ Mark(l + 1)
             /\ UNCHANGED <<base, pend, stp, peak, hasPeak>>
          \/ /\ nx0 < lo + TieEps \/ nx0 > hi - TieEps                   \* pass finished
             /\ IF S2 = 0
                THEN /\ l = N /\ T.done /\ ~T.park.set                   \* `return`: nothing more happens
                     /\ l' = N + 2 /\ Mark(N + 2)
                     /\ UNCHANGED <<nx, base, pend, stp, sI, mean, peak, hasPeak>>
                ELSE LET r  == IF pend >= base THEN MulDiv(pend - base, SC, P.sf)
                                               ELSE 0 - MulDiv(base - pend, SC, P.sf)     \* (stop - start) / step_factor
                         h  == SDiv(r, 2)
                         a  == ClipI(m2 - h, LowX, HighX)
                         b  == ClipI(m2 + h, LowX, HighX)
                         ns == IF P.snake THEN b ELSE a
                         ne == IF P.snake THEN a ELSE b
                     IN /\ base' = ns /\ pend' = ne
                        /\ stp' = SDiv(ne - ns, P.num - 1)
                        /\ nx' = ns /\ sI' = 0 /\ mean' = 0
                        /\ peak' = m2 /\ hasPeak' = TRUE
                        /\ l' = l + 1 /\ Mark(l + 1)

T_End ==
    /\ T.plan = "tune" /\ P.nonneg /\ l = N + 1
    /\ T.done => /\ Abs(stp) < P.min + TieEps                            \* the loop guard failed
                 /\ IF hasPeak THEN T.park.set /\ Abs(T.park.x - peak) <= Eps ELSE ~T.park.set
    /\ l' = l + 1 /\ Mark(l + 1)
    /\ UNCHANGED <<tid, tr, nx, base, pend, stp, past, hasPast, sI, mean, peak, hasPeak, lastx, seen>>

\* signals of either sign: only range and termination are claimed, the centroid is not followed
T_Free ==
    /\ T.plan = "tune" /\ ~P.nonneg /\ l <= N + 1
    /\ IF l <= N THEN lastx' = E.x /\ seen' = TRUE ELSE UNCHANGED <<lastx, seen>>
    /\ l' = l + 1 /\ Mark(l + 1)
    /\ UNCHANGED <<tid, tr, nx, base, pend, stp, past, hasPast, sI, mean, peak, hasPeak>>

TraceNext == A_Consume \/ A_End \/ T_Consume \/ T_End \/ T_Free
TraceSpec == TraceInit /\ [][TraceNext]_tvars

TraceAccepted ==
    LET all == Traces IN
    \A t \in 1..Len(all) :
        \/ Progress(t) = Len(all[t].ev) + 2
        \/ PrintT(<<"REJECTED", t, Progress(t)>>) /\ FALSE

----------------------------------------------------------------------------
(* C29 on the recorded values *)
\* adaptive_scan: start <= x (one unit of rounding) and x not beyond stop, direction-aware
TR_AdaptiveInRange ==
    (T.plan = "adaptive" /\ seen) => /\ (lastx - P.start) * Dir >= 0 - 1
                                     /\ (P.stop - lastx) * Dir >= 0
TR_TuneInRange ==
    (T.plan = "tune" /\ seen) => LowX <= lastx /\ lastx <= HighX
TR_ParkInRange ==
    (T.plan = "tune" /\ P.nonneg /\ T.park.set) => LowX - 1 <= T.park.x /\ T.park.x <= HighX + 1

\* iteration bounds of Adaptive.tla (AS_Bound, TC_Bound) in fixed point, with one retry / pass of slack for rounding
RECURSIVE KFrom(_, _)
KFrom(j, a) == IF a >= P.min /\ j < 400 THEN KFrom(j + 1, MulDiv(a, P.thr, SC)) ELSE j
M0 == MinI(P.min, S0)
A_Bound == LET K == KFrom(0, P.max) + 1
           IN ((Abs(P.stop - P.start) + S0) \div M0 + 2) * (K + 1) + K
RECURSIVE PassesFrom(_, _)
PassesFrom(j, a) == IF a >= P.min - 1 /\ j < 400 THEN PassesFrom(j + 1, MulDiv(a, SC, P.sf)) ELSE j
T_Bound == P.num * (PassesFrom(0, Abs(SDiv(P.stop - P.start, P.num - 1))) + 1)
TR_IterBound == N <= (IF T.plan = "adaptive" THEN A_Bound ELSE T_Bound)
=============================================================================
