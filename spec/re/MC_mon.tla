------------------------------- MODULE MC_mon -------------------------------
EXTENDS REMon
XD == {"det", "det2", "pdet", "npdet", "motor", "motor2", "mon1", "amotor", "apdet"}
ReadValDef == [d \in XD |-> CASE d = "motor" -> "dict:motor,motor_setpoint" [] d = "motor2" -> "dict:motor2,motor2_setpoint"
                                   [] d = "amotor" -> "dict:amotor,amotor_setpoint" [] d = "apdet" -> "dict:apdet" [] d = "det" -> "dict:det" [] d = "det2" -> "dict:det2" [] d = "pdet" -> "dict:pdet" [] d = "npdet" -> "dict:npdet" [] OTHER -> "dict:mon1"]
DataKeysDef == [d \in XD |-> {d}]
StreamOrderDef == <<"baseline", "fly1_stream", "fly2_stream", "interruptions", "mon1", "primary">>
DevOrderDef == <<"det", "det2", "mon1", "motor", "motor2", "pdet", "amotor", "apdet", "fly1", "fly2", "npdet">>
FlyStreamDef == [f \in {"fly1", "fly2"} |-> f \o "_stream"]
FlyNDef == [f \in {"fly1", "fly2"} |-> 2]
XSus == {"s1", "s2", "s3"}
SigOfDef == [x \in XSus |-> IF x = "s1" THEN "sig1" ELSE IF x = "s2" THEN "sig2" ELSE "sig3"]
SusFutsDef == [x \in XSus |-> IF x = "s1" THEN <<"s1a", "s1b", "s1c", "s1d">> ELSE IF x = "s2" THEN <<"s2a", "s2b", "s2c", "s2d">> ELSE <<"s3a", "s3b", "s3c", "s3d">>]
=============================================================================
