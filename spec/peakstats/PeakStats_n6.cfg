CONSTANTS
  MinN = 6
  MaxN = 6
  Gaps = {1}
  X0s = {1}
  YMax = 3
  Edges = {0, 2, 3}
SPECIFICATION Spec
INVARIANT StrictlyMonotonic
INVARIANT MaxIsArgmax
INVARIANT MinIsArgmin
INVARIANT ComInRange
INVARIANT CenInRange
INVARIANT CrossingsStraddle
INVARIANT CrossingsComplete
INVARIANT FwhmOutermost
POSTCONDITION DumpCases
