CONSTANTS
  Fns = {"f", "g"}
  Sigs = {"start", "stop"}
  MaxOps = 5
  MaxTok = 3
  RefCount = TRUE
SPECIFICATION Spec
INVARIANT TypeOK
INVARIANT C18_DeliveryMatchesLiveTokens
INVARIANT C18_TempDropped
PROPERTY C18_TempDroppedAtCall
PROPERTY C18_OnlyOwnToken
