--------------------------- MODULE SuspendersTrace ---------------------------
(* Batch validation of implementation traces against Suspenders.tla.           *)
(* TRACE_FILE: ndjson, one trace per line:                                      *)
(*   [cls, par, v0, running, obs: <<[v, tripped, requested, released, pending], ...>>] *)
(* recorded by the harness from the REAL suspender classes (stub engine, real   *)
(* or fake signal).  obs[1] is the install callback.  Every observation must be *)
(* explained by a step of the machine with exactly the observed outputs, and    *)
(* every invariant / action property of C30 is evaluated along the trace.       *)
(* With AllowKF the as-found constructor of KF-C30-1 is offered next to the     *)
(* documented one; register Len(Traces)+tid tells which explains the trace:     *)
(* 0 = none, 1 = the documented constructor does, 2 = only the as-found one.    *)
EXTENDS Suspenders

Traces == ndJsonDeserialize(IOEnv.TRACE_FILE)

VARIABLES tid, l
tvars == <<vars, tid, l>>

T == Traces[tid]
NT == Len(Traces)

TraceInit ==
    /\ tid \in 1..Len(Traces)
    /\ l = 1
    /\ TLCSet(tid, 1)
    /\ TLCSet(NT + tid, 0)
    /\ cls = T.cls /\ par = T.par /\ v0 = T.v0 /\ running = T.running
    /\ cls \in AllClasses /\ Valid(cls, par)
    /\ \/ eff = Effective(cls, par, v0) /\ kf = FALSE
       \/ AllowKF /\ KFApplies(cls, par, v0) /\ eff = AsFoundEff(cls, par, v0) /\ kf = TRUE
    /\ tripped = FALSE /\ pending = FALSE /\ vals = <<>> /\ out = NoOut /\ hist = <<>>

Ev == T.obs[l]

TraceNext ==
    /\ l <= Len(T.obs)
    /\ IF l = 1 THEN Install /\ v0 = Ev.v ELSE Change(Ev.v)
    /\ out' = [v |-> Ev.v, tripped |-> Ev.tripped, requested |-> Ev.requested, released |-> Ev.released, pending |-> Ev.pending]
    /\ l' = l + 1
    /\ UNCHANGED tid
    /\ TLCSet(tid, IF TLCGet(tid) > l + 1 THEN TLCGet(tid) ELSE l + 1)
    /\ (l = Len(T.obs)) => TLCSet(NT + tid, IF ~kf \/ TLCGet(NT + tid) = 1 THEN 1 ELSE 2)

TraceSpec == TraceInit /\ [][TraceNext]_tvars

Progress(t) == TLCGet(t)
Bad == {t \in 1..NT : Progress(t) # Len(Traces[t].obs) + 1}
TraceAccepted ==
    /\ \A t \in 1..NT : TLCGet(NT + t) = 2 => PrintT(<<"KFONLY", t>>)
    /\ \A t \in Bad : PrintT(<<"REJECTED", t, Progress(t)>>)      \* all of them (PrintT is TRUE)
    /\ Bad = {}
=============================================================================
