------------------------------ MODULE MC_smoke ------------------------------
EXTENDS REMC
M(c, o, r, a) == Msg(c, o, r, a)
ProgDef == [msgs |-> <<M("open_run", "", "", ""), M("checkpoint", "", "", ""), M("create", "", "", "primary"),
                       M("read", "det", "", ""), M("save", "", "", ""), M("close_run", "", "", "")>>,
            t0 |-> 0, t1 |-> 0, c0 |-> 1, c1 |-> 0, kind |-> "none", raiseAt |-> 0]
ReadValDef == [d \in {"det"} |-> "dict:det"]
DataKeysDef == [d \in {"det"} |-> {"det"}]
StreamOrderDef == <<"interruptions", "primary">>
DevOrderDef == <<"det">>
SuspPreDef == <<>>
SuspPostDef == <<>>
FlyStreamDef == [f \in {"fly1", "fly2"} |-> f \o "_stream"]
FlyNDef == [f \in {"fly1", "fly2"} |-> 2]
XSus == {"s1"}
SigOfDef == [x \in XSus |-> "sig1"]
SusFutsDef == [x \in XSus |-> <<"s1a", "s1b">>]
=============================================================================
