"""C35 -- document normalization never alters its inputs and loses nothing; the conditional backup is complete.

spec/tiled/Normalizer.tla models RunNormalizer (datum cache, cached external references, converted-resource cache,
frame/carry index bookkeeping, emitted stream resources/datums) together with the caller's view of the documents it
handed over, so that "never modifies its inputs" is the frame condition UNCHANGED input; spec/tiled/Backup.tla models
_ConditionalBackup with the primary failing at any set of document indices.  TLC checks both exhaustively over the
bounded domain; every TLC history / case is replayed on the real classes and compared document by document; the
repository's example streams, seeded re-orderings of them and random legacy/current runs (with pages) are executed on
the real RunNormalizer under a recorder that deep-snapshots every input before/after and validates every emitted
document with the event_model schema validators, and all recorded traces are validated by TLC.

Assurance: bounded-exhaustive model checking of the two specifications plus conformance of the real RunNormalizer and
_ConditionalBackup in both directions (all enumerated histories replayed, all recorded executions accepted by TLC with
every invariant evaluated in every state); two open findings (shallow copies; frame bookkeeping in conversion order)
are exempted by scenario signature only.
"""
import json
import logging
import random
import tempfile
import time

from harness.tlc import run_tlc, write_cfg, SPEC
from harness import tiled_helpers as th

SD = SPEC / "tiled"
DESIGN_REF = "DESIGN.md section 7 (C35), section 8; notes/C35.md"

INV_KF = ["TypeOK", "C35_InputsNeverModified_KF", "C35_ExactlyOneStreamDatum", "C35_RangesMatchEvent_KF",
          "C35_InternalValuesKept", "C35_SchemaValid", "C35_ResourceBeforeDatum"]
INV_STRICT = ["TypeOK", "C35_InputsNeverModified", "C35_ExactlyOneStreamDatum", "C35_RangesMatchEvent",
              "C35_InternalValuesKept", "C35_SchemaValid", "C35_ResourceBeforeDatum"]
BACKUP_INV = ["TypeOK", "C35_BackupCompleteInOrder", "C35_BackupNoDupOrdered", "C35_PushIffFailed", "C35_SilentBeforeFailure",
              "C35_PrimarySeesAll", "C35_BufferAccounting"]


def ncfg(ctx, name, ev, keys, mut, frame, slots, hist, inv, props=(), constraints=(), modern=True):
    return write_cfg(ctx.out / name, {"MaxEv": ev, "MaxKeys": keys, "MutMode": mut, "FrameMode": frame, "LateSlots": set(slots),
                                      "WithModern": modern, "WithHist": hist},
                     invariants=inv, properties=props, constraints=constraints)


def replay_history(ctx, conf, hist, max_keys, label):
    """one TLC history on the real RunNormalizer; returns (recorder, mismatch text or None)"""
    kmap, rmap, idmap = th.case_maps(conf, max_keys)
    rec = th.NormRecorder(kmap=kmap, rmap=rmap, idmap=idmap, val_key="x")
    mism = None
    for i, e in enumerate(hist):
        name, doc = th.case_doc(conf, e["h"])
        rec.feed(name, doc)
        got = rec.trace[-1]["out"]
        exp = th.norm_out_json(e["out"])
        gchg = sorted((c["t"], c["n"]) for c in rec.changed_steps[-1])
        echg = sorted((c["t"], c["n"]) for c in e["chg"])
        if mism is None and (got != exp or gchg != echg):
            mism = (f"step {i} ({e['h']['op']} s={e['h']['s']} k={e['h']['k']}): specified out={exp} changed={echg}; "
                    f"implementation out={got} changed={gchg}")
    return rec, mism


def report_sigs(ctx, rec, replay_obj, where):
    """direct observations of the recorder -> verdicts (open findings are matched by signature in ctx.violation)"""
    seen = set()
    for sig, what in rec.sigs:
        if sig in seen:
            continue
        seen.add(sig)
        ctx.violation(sig, f"{what} [{where}]", replay_obj)


def run(ctx):
    logging.getLogger("bluesky.callbacks.tiled_writer").setLevel(logging.CRITICAL)
    q = ctx.quick
    rng = random.Random(ctx.seed)
    both = ["after", "end"]
    # ------------------------------------------------------------------ 1. TLC: design, witnesses, replay generation
    ex_ev = 3 if q else 4
    hist_cfgs = [("h1", 2, 2, both)] if q else [("h1", 3, 2, both), ("h2", 4, 2, ["end"])]
    jobs = {
        "repaired": lambda: run_tlc("Normalizer", ncfg(ctx, "repaired.cfg", 2 if q else 4, 2, "repaired", "repaired", both, False, INV_STRICT,
                                                       props=["C35_InputsUnchangedStep"]), spec_dir=SD, tag="C35a", timeout=3000,
                                   workers=2 if q else "auto", java_opts=th.JO_FAST if q else th.JO_BIG),
        "asfound": lambda: run_tlc("Normalizer", ncfg(ctx, "asfound.cfg", ex_ev, 2, "asfound", "asfound", both, False, INV_KF),
                                   spec_dir=SD, tag="C35b", timeout=3000, java_opts=th.JO_BIG),
        "wit_mut": lambda: run_tlc("Normalizer", ncfg(ctx, "wit_mut.cfg", 1, 1, "asfound", "asfound", both, True, ["W_InputsNeverModified"], modern=False),
                                   spec_dir=SD, tag="C35c", timeout=600, workers=1, java_opts=th.JO_FAST),
        "wit_rng": lambda: run_tlc("Normalizer", ncfg(ctx, "wit_rng.cfg", 2, 1, "asfound", "asfound", both, True, ["W_RangesMatchEvent"], modern=False),
                                   spec_dir=SD, tag="C35d", timeout=600, workers=1, java_opts=th.JO_FAST),
        "backup": lambda: run_tlc("Backup", write_cfg(ctx.out / "backup.cfg", {"MaxDocs": 5 if q else 6, "NBackups": 2, "MaxLens": {2, 6}, "MaxBFails": 1},
                                                      invariants=BACKUP_INV), spec_dir=SD, tag="C35e", timeout=3000, workers=2, java_opts=th.JO_FAST),
        "backup_cases": lambda: run_tlc("Backup", write_cfg(ctx.out / "backup_cases.cfg", {"MaxDocs": 4 if q else 5, "NBackups": 2, "MaxLens": {2, 6}, "MaxBFails": 1},
                                                            invariants=BACKUP_INV, constraints=["DumpCase"]), spec_dir=SD, tag="C35f", timeout=3000, workers=1, java_opts=th.JO_FAST),
    }
    for nm, ev, keys, slots in hist_cfgs:
        jobs[nm] = (lambda nm=nm, ev=ev, keys=keys, slots=slots:
                    run_tlc("Normalizer", ncfg(ctx, f"{nm}.cfg", ev, keys, "asfound", "asfound", slots, True, INV_KF, constraints=["DumpHist"]),
                            spec_dir=SD, tag="C35" + nm, timeout=3000, workers=1, java_opts=th.JO_FAST if q else th.JO_BIG))
    t0 = time.time()
    res = th.run_parallel(jobs)
    ctx.note(f"phase TLC (parallel): {time.time() - t0:.1f}s")
    t0 = time.time()
    for nm, r in res.items():
        ctx.add_tlc(r, f"{nm}")
    for nm in ("repaired", "asfound", "backup", "backup_cases") + tuple(h[0] for h in hist_cfgs):
        r = res[nm]
        if not r.ok:
            st = r.trace[-1][1] if r.trace else {}
            ctx.violation(f"spec:{nm}:{r.violated}", f"specification run {nm}: {r.kind} {r.violated} violated: {str(st)[:1500]}",
                          {"tlc_trace": str(r.trace)[:4000]})
            return
    ctx.cov["exhaustive"] = True
    ctx.rule = ("Normalizer: every complete history of the replay configs (run shape x canonical datum-before/after-event "
                "orders) printed by TLC and replayed on a real RunNormalizer, compared per input document (emitted documents and "
                "changed inputs); non-trivial = has an external datum; distinct by (run shape, order). Backup: every case "
                "(n, failing indices of the primary, failing backup delivery, capacity) replayed on a real _ConditionalBackup; "
                "non-trivial = the primary fails. Plus example streams of the repository, seeded re-orderings, random runs and "
                "random backup schedules, all validated by TLC (NormalizerTrace / BackupTrace).")

    # ------------------------------------------------------------------ 2. witnesses of the open findings, replayed on the real class
    for nm, strict in (("wit_mut", "W_InputsNeverModified"), ("wit_rng", "W_RangesMatchEvent")):
        r = res[nm]
        wit = th.printed_json(r.stdout, "WITNESS")
        if r.ok or r.violated != strict or not wit:
            ctx.note(f"{nm}: the as-found specification no longer violates {strict} ({r.violated})")
            continue
        conf, hist = wit[0]["conf"], wit[0]["hist"]
        rec, _ = replay_history(ctx, conf, hist, 1, nm)
        if not rec.sigs:
            ctx.note(f"{nm}: the TLC counterexample of {strict} does not reproduce on the implementation (repaired tree?)")
        report_sigs(ctx, rec, {"conf": conf, "ops": [e["h"] for e in hist], "max_keys": 1, "trace": rec.clean_trace()},
                    f"replay of the TLC counterexample of {strict[2:]}")
        ctx.case(("witness", nm))

    # ------------------------------------------------------------------ 3. every TLC history replayed on the real RunNormalizer
    traces, labels = [], []
    nh = 0
    for nm, ev, keys, slots in hist_cfgs:
        for case in th.printed_json(res[nm].stdout, "HIST"):
            conf, hist = case["conf"], case["hist"]
            nh += 1
            key = (json.dumps(conf, sort_keys=True), tuple((e["h"]["op"], e["h"]["k"], e["h"]["s"]) for e in hist))
            ctx.case(key, not conf["modern"] or conf["rkind"] != "plain")
            rec, mism = replay_history(ctx, conf, hist, keys, nm)
            obj = {"conf": conf, "ops": [e["h"] for e in hist], "max_keys": keys}
            if mism:
                # the history is the as-found behaviour; a repaired tree differs from it legitimately -- TLC decides below
                # (NormalizerTrace offers both); an unexplained difference is reported there and here
                rec.replay_mismatch = mism
            report_sigs(ctx, rec, obj, "replay of a TLC history")
            traces.append(rec.clean_trace())
            labels.append(("hist", obj, getattr(rec, "replay_mismatch", None)))
            if len(hist) > 8 and conf["frames"]:
                ctx.sample({"conf": conf, "ops": [(e["h"]["op"], e["h"]["k"], e["h"]["s"]) for e in hist]})
    if not nh:
        ctx.machinery("no histories printed by the Normalizer replay configuration")

    ctx.note(f"phase replay of {nh} histories: {time.time() - t0:.1f}s")
    t0 = time.time()
    # ------------------------------------------------------------------ 4. example streams, re-orderings, random runs
    def record(docs, label):
        rec = th.run_normalizer(docs)
        obj = {"label": label, "docs": [[n, d] for n, d in docs]}
        report_sigs(ctx, rec, obj, label)
        traces.append(rec.clean_trace())
        labels.append(("run", obj, None))
        ctx.case((label, tuple(n for n, _ in docs)))

    for f in ("external_assets_legacy.json", "external_assets.json", "external_assets_single_key.json", "internal_events.json"):
        record(th.example_stream(f), f"example:{f}")
    record(th.reorder_datums(th.example_stream("external_assets_legacy.json"), rng, "late"), "example:legacy:datums-late")
    for i in range(10 if q else 40):
        record(th.reorder_datums(th.example_stream("external_assets_legacy.json"), rng), f"example:legacy:reordered:{i}")
    for i in range(200 if q else 4000):
        record(th.random_norm_run(rng, i, max_events=6 if q else 9), f"random:{i}")

    ctx.note(f"phase recorded runs: {time.time() - t0:.1f}s")
    t0 = time.time()
    # ------------------------------------------------------------------ 5. backup: every case replayed, random schedules validated
    btraces, blabels = [], []
    ncases = 0
    for c in th.printed_json(res["backup_cases"].stdout, "CASE"):
        ncases += 1
        n, cap, fails, bfails = c["n"], c["cap"], c["fails"], c["bfails"]
        trace, got, prim, rz = th.run_backup(n, fails, bfails, cap=cap)
        key = (n, cap, tuple(fails), tuple(map(tuple, bfails)))
        ctx.case(("backup",) + key, bool(fails))
        exp = {b + 1: list(c["bk"][b]) for b in range(2)}
        if rz:
            ctx.violation(f"backup-raised:n={n}:fails={fails}", f"_ConditionalBackup let an exception escape at document {rz[0]}: {rz[1]}", {"case": c})
        if got != exp or prim != list(c["prim"]):
            ctx.violation(f"backup-replay:n={n}:cap={cap}:fails={fails}:bfails={bfails}",
                          f"backups were handed {got} (primary {prim}); specified {exp} (primary {list(c['prim'])})", {"case": c, "got": got})
        btraces.append(trace)
        blabels.append(c)
        if fails and n >= 3 and min(fails) > 1:
            ctx.sample({"n": n, "cap": cap, "primary_fails_at": fails, "backup_fails": bfails, "handed_to_backups": got})
    if not ncases:
        ctx.machinery("no cases printed by the Backup replay configuration")
    ctx.note(f"{ncases} Backup cases replayed on a real _ConditionalBackup")
    for i in range(60 if q else 1500):
        n = rng.randint(1, 30)
        fails = sorted(set(rng.sample(range(1, n + 1), rng.choice([0, 1, 1, 2, 3]) if n >= 3 else rng.randint(0, 1))))
        bf = [[rng.randint(1, 2), rng.randint(1, n)]] if rng.random() < 0.4 else []
        cap = rng.choice([None, None, 3, 8])
        trace, got, prim, rz = th.run_backup(n, fails, bf, cap=cap)
        if rz:
            ctx.violation(f"backup-raised:n={n}:fails={fails}", f"_ConditionalBackup let an exception escape at document {rz[0]}: {rz[1]}", {"trace": trace})
        btraces.append(trace)
        blabels.append({"n": n, "cap": cap, "fails": fails, "bfails": bf})
        ctx.case(("backup-random", n, cap, tuple(fails), tuple(map(tuple, bf))), bool(fails))
    # real RunNormalizer as primary (failing consumer), real JSONLinesWriter as first backup, on the repository's streams
    for f in ("internal_events.json", "external_assets_legacy.json", "external_assets.json"):
        docs = th.example_stream(f, uuid=f"bk{rng.randrange(10**6)}")
        for fail_at in ([2, 4, len(docs)] if q else range(1, len(docs) + 1)):
            t, what = integrated_backup(docs, fail_at, ctx.out)
            btraces.append(t)
            blabels.append({"stream": f, "fail_at": fail_at})
            ctx.case(("backup-jsonl", f, fail_at))
            if what:
                ctx.violation(f"backup-jsonl:{f}:fail_at={fail_at}", what, {"stream": f, "fail_at": fail_at, "trace": t})
    ctx.note(f"phase backup executions: {time.time() - t0:.1f}s")
    t0 = time.time()
    # ------------------------------------------------------------------ 6. all recorded executions validated by TLC (in parallel)
    vres = th.run_parallel({
        "norm": lambda: th.validate_iter("NormalizerTrace", "NormalizerTrace.cfg", traces, SD, ctx.out, tag="C35t", shards=3 if q else 8),
        "backup": lambda: th.validate_iter("BackupTrace", "BackupTrace.cfg", btraces, SD, ctx.out, tag="C35bt"),
    })
    ctx.note(f"phase trace validation: {time.time() - t0:.1f}s")
    problems, nacc, results = vres["norm"]
    for r in results:
        ctx.add_tlc(r, "NormalizerTrace")
    ctx.traces(nacc)
    bad = set()
    if any(i < 0 for i, _, _ in problems) and not any(i >= 0 for i, _, _ in problems):
        ctx.machinery(f"NormalizerTrace: {problems}")
    for idx, kind, detail in problems:
        if idx < 0:
            ctx.note(f"NormalizerTrace: validation stopped early: {kind} {detail}")
            continue
        bad.add(idx)
        t = traces[idx]
        if kind == "rejected":
            ev = t[detail] if detail < len(t) else None
            pre = [(e["op"], e["k"], e["s"]) for e in t[max(0, detail - 4):detail]]
            ctx.violation(f"trace-rejected:{ev['op'] if ev else '?'}:{labels[idx][0]}",
                          f"RunNormalizer execution not explained by Normalizer.tla at document {detail}: {json.dumps(ev)[:600]}; before: {pre}"
                          + (f"; replay: {labels[idx][2]}" if labels[idx][2] else ""),
                          {"case": labels[idx][1], "accepted_prefix": detail, "trace": t})
        else:
            ctx.violation(f"trace-invariant:{detail}:{labels[idx][0]}", f"{detail} violated on a recorded RunNormalizer execution",
                          {"case": labels[idx][1], "trace": t})
    nm_mis = 0
    for i, (kind, obj, mism) in enumerate(labels):
        if mism and i not in bad:
            nm_mis += 1
    if nm_mis:
        ctx.note(f"{nm_mis} replayed histories differ from the as-found specification but are accepted as the repaired alternative")

    problems, nacc, results = vres["backup"]
    for r in results:
        ctx.add_tlc(r, "BackupTrace")
    ctx.traces(nacc)
    if any(i < 0 for i, _, _ in problems) and not any(i >= 0 for i, _, _ in problems):
        ctx.machinery(f"BackupTrace: {problems}")
    for idx, kind, detail in problems:
        if idx < 0:
            ctx.note(f"BackupTrace: validation stopped early: {kind} {detail}")
            continue
        c = blabels[idx]
        hd = btraces[idx][0]
        ctx.violation(f"backup-trace-{kind}:{detail if kind == 'invariant' else 'step'}:n={hd['n']}:cap={hd['cap']}:fails={hd['fails']}",
                      f"_ConditionalBackup execution {c} " + (f"violates {detail}" if kind == "invariant" else f"not explained by Backup.tla at document {detail}: {btraces[idx][detail] if detail < len(btraces[idx]) else None}"),
                      {"case": c, "trace": btraces[idx]})
    ctx.assumptions += [
        "modelled input domain: resources precede their datums, every datum is referenced by exactly one event, datum_kwargs.frame (if present) "
        "is in step with the events (frame = seq_num - 1), events carry `filled`, external keys are not filled",
        "schema validity is decided by event_model.schema_validators (used as a predicate, not modelled)",
        "backup: runs shorter than the buffer capacity (default maxlen 1 000 000); overflow behaviour is modelled and bound but the property is not claimed for it",
        "patches (user callables) are not used",
    ]


def _ident(name, doc):
    return json.dumps([name, doc.get("uid", doc.get("datum_id"))], sort_keys=True, default=str)


def integrated_backup(docs, fail_at, out_dir):
    """_ConditionalBackup(primary = real RunNormalizer feeding a consumer that fails while input document `fail_at` is
    processed, backups = [real JSONLinesWriter, recorder]); returns (BackupTrace trace, text of a direct discrepancy or None)"""
    import copy
    import shutil
    from bluesky.callbacks.json_writer import JSONLinesWriter
    from bluesky.callbacks.tiled_writer import RunNormalizer, _ConditionalBackup
    tmp = tempfile.mkdtemp(dir=str(out_dir))
    try:
        norm = RunNormalizer()
        state = {"i": 0, "raised": False}

        def consumer(name, doc):
            if state["i"] == fail_at:
                raise RuntimeError("writer failed")
        norm.subscribe(consumer)
        sent = [(nm, copy.deepcopy(d)) for nm, d in docs]
        index = {_ident(nm, d): i for i, (nm, d) in enumerate(sent, start=1)}
        seen = []

        def primary(name, doc):
            try:
                norm(name, doc)
            except Exception:
                state["raised"] = True
                raise

        def recorder(name, doc):
            seen.append(index.get(_ident(name, doc), 0))
        jw = JSONLinesWriter(tmp)
        cb = _ConditionalBackup(primary, [jw, recorder])
        n = len(sent)
        trace = [{"n": n, "cap": 1000000, "fails": [], "bfails": []}]
        nlines = 0
        lines = []
        for i, (nm, d) in enumerate(sent, start=1):
            state["i"], state["raised"] = i, False
            nseen = len(seen)
            cb(nm, d)
            lines = []
            if jw.filename and (jw.dirname / jw.filename).exists():
                lines = [json.loads(ln) for ln in open(jw.dirname / jw.filename) if ln.strip()]
            if state["raised"]:
                trace[0]["fails"].append(i)
            trace.append({"raised": state["raised"], "to": [[index.get(_ident(ln["name"], ln["doc"]), 0) for ln in lines[nlines:]], seen[nseen:]],
                          "prim": list(range(1, i + 1))})
            nlines = len(lines)
        what = None
        got = [index.get(_ident(ln["name"], ln["doc"]), 0) for ln in lines]
        if trace[0]["fails"] and got != list(range(1, n + 1)):
            what = f"after the primary failed at document {trace[0]['fails'][0]} the JSONL backup holds documents {got} instead of 1..{n}"
        return trace, what
    finally:
        shutil.rmtree(tmp, ignore_errors=True)
