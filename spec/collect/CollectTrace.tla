---------------------------- MODULE CollectTrace ----------------------------
(***************************************************************************)
(* C45, code -> spec.  TRACE_FILE: ndjson, one run per line = sequence of  *)
(* events (format E0 of Collect.tla) recorded from a real RunEngine driving *)
(* protocol-only stream-asset detectors: event 1 = init (greedy detectors, *)
(* lazy), then declare / env / collect / checkpoint / pause / close, where *)
(* a collect carries what the detectors answered (rep), were asked (cap),  *)
(* the stream_resource / stream_datum documents emitted and whether an     *)
(* exception left the engine, and close carries the stop document.         *)
(*                                                                         *)
(* Mode = "conform": every event must be the corresponding Collect.tla     *)
(* action with exactly the recorded results (after a pause the collects of *)
(* the message cache must come again, in order).  Both alternatives are    *)
(* offered at a rewind; a run explained only by the as-found one ends with *)
(* kf set and is printed as KFSEEN.                                         *)
(* Mode = "monitor": no mechanics at all -- only the monitors of Collect   *)
(* are run over the recorded documents, so that the property itself is     *)
(* decided even for an implementation that has drifted from the model      *)
(* (kf there = a pause arrived after a collect handed out frames and       *)
(* before the next checkpoint, the scenario of KF-C45-1).                   *)
(* All C45 invariants are evaluated in every state of every run.           *)
(***************************************************************************)
EXTENDS Collect, IOUtils

CONSTANT Mode

Traces == ndJsonDeserialize(IOEnv.TRACE_FILE)      \* not cached by TLC: bound once in TraceInit / TraceAccepted

VARIABLES tid, l,
          tr       \* the run being validated
tvars == <<vars, tid, l, tr>>

KFBASE == 100000                                    \* register KFBASE + tid: 2 iff every complete behaviour of the run has kf

TraceInit ==
    /\ LET all == Traces IN \E i \in 1..Len(all) : tid = i /\ tr = all[i]
    /\ l = 2
    /\ InitWith(Range(tr[1].ds), tr[1].lz)
    /\ TLCSet(tid, 2)
    /\ TLCSet(KFBASE + tid, 1)

Ev == tr[l]

Conform ==
    \/ Ev.op = "declare" /\ Declare(Ev.s, Range(Ev.ds))
    \/ Ev.op = "env" /\ Len(Ev.f) = ND /\ Env([d \in Dets |-> Ev.f[d]])
    \/ /\ Ev.op = "collect" /\ Collect(Ev.s, Ev.ds)
       /\ out'.docs = Ev.docs /\ out'.err = Ev.err /\ out'.rep = Ev.rep /\ out'.cap = Ev.cap
    \/ Ev.op = "checkpoint" /\ Checkpoint
    \/ Ev.op = "configure" /\ Len(Ev.ds) = 1 /\ Configure(Ev.ds[1])
    \/ Ev.op = "pause" /\ Pause
    \/ /\ Ev.op = "close" /\ Close
       /\ out'.status = Ev.status
       /\ Ev.status = "success" => \A s \in Streams : out'.ne[s] = Ev.ne[s]

\* monitors only: ctr / copy are used as "a collect handed out frames since the last checkpoint" marks
HasDatum(docs) == \E i \in 1..Len(docs) : docs[i].k = "datum"
Monitor ==
    /\ out' = Ev /\ UNCHANGED <<avail, last, res, greedy, lazy, cache, pend, cnt, hist>>
    /\ \/ /\ Ev.op = "declare"
          /\ decl' = [decl EXCEPT ![Ev.s] = Range(Ev.ds)]
          /\ UNCHANGED <<ctr, copy, phase, failed, kf, mIdx, mSeq, viol>>
       \/ /\ Ev.op \in {"env", "configure"}
          /\ UNCHANGED <<decl, ctr, copy, phase, failed, kf, mIdx, mSeq, viol>>
       \/ /\ Ev.op = "collect"
          /\ LET m == MonCollect(Ev.ds, Ev.rep, Ev.cap, Ev.docs, Ev.err, decl[Ev.s])
             IN mIdx' = m.mi /\ mSeq' = m.ms /\ viol' = m.v
          /\ failed' = (failed \/ Ev.err)
          /\ ctr' = [ctr EXCEPT ![Ev.s] = IF HasDatum(Ev.docs) THEN @ + 1 ELSE @]
          /\ UNCHANGED <<decl, copy, phase, kf>>
       \/ /\ Ev.op = "checkpoint"
          /\ copy' = ctr
          /\ UNCHANGED <<decl, ctr, phase, failed, kf, mIdx, mSeq, viol>>
       \/ /\ Ev.op = "pause"
          /\ kf' = (kf \/ ctr # copy)
          /\ UNCHANGED <<decl, ctr, copy, phase, failed, mIdx, mSeq, viol>>
       \/ /\ Ev.op = "close"
          /\ phase' = "closed"
          /\ viol' = MonClose(Ev.ne, decl, failed \/ Ev.status # "success")
          /\ UNCHANGED <<decl, ctr, copy, failed, kf, mIdx, mSeq>>

TraceNext ==
    /\ l <= Len(tr)
    /\ IF Mode = "monitor" THEN Monitor ELSE Conform
    /\ l' = l + 1
    /\ UNCHANGED <<tid, tr>>
    /\ TLCSet(tid, IF TLCGet(tid) > l + 1 THEN TLCGet(tid) ELSE l + 1)
    \* a complete behaviour without kf dominates (3); only-kf behaviours leave 2
    /\ l = Len(tr) => TLCSet(KFBASE + tid, IF ~kf' THEN 3 ELSE IF TLCGet(KFBASE + tid) = 1 THEN 2 ELSE TLCGet(KFBASE + tid))

TraceSpec == TraceInit /\ [][TraceNext]_tvars

\* every run consumed completely; ALL rejected runs are reported with how far they got
TraceAccepted ==
    LET all == Traces
        bad == {t \in 1..Len(all) : TLCGet(t) # Len(all[t]) + 1}
    IN /\ \A t \in 1..Len(all) : TLCGet(KFBASE + t) = 2 => PrintT(<<"KFSEEN", t, 2>>)
       /\ \A t \in bad : PrintT(<<"REJECTED", t, TLCGet(t)>>)
       /\ bad = {}
=============================================================================
