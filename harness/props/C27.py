"""C27 -- spirals stay in bounds; square spirals cover the grid.

spec/patterns/Spiral.tla (i) models the documented square ring walk on the integer lattice; TLC explores it for every
x_num, y_num of the bound and checks that each lattice point of the grid is produced exactly once; every enumerated
grid is replayed against bluesky.plan_patterns.spiral_square_pattern (points mapped to lattice indices) and the
implementation's index sequences (also for random larger grids) are judged by TLC (SpiralTrace: exact cover).
(ii) states InRect (inside the requested, possibly tilted, rectangle; 10^-6 fixed point); the points produced by
spiral / spiral_fermat on parameter grids and seeded random requests are logged and TLC evaluates the predicate on
every logged point.  Part (ii) is predicate checking on logged points, not state exploration.
"""
import json
import math
import random
import re
from fractions import Fraction

from harness.pattern_helpers import last_state
from harness.tlc import SPEC, run_tlc

SD = SPEC / "patterns"
DESIGN_REF = "DESIGN.md section 7 (C27), section 8"
TECHNIQUE = ("TLA+ ring-walk specification explored exhaustively by TLC and replayed against spiral_square_pattern; "
             "in-rectangle predicate of the specification evaluated by TLC on every point logged from spiral / spiral_fermat")
LEVEL_NOTE = ("square spiral: bounded-exhaustive model checking + conformance; spiral / spiral_fermat bounds: TLC evaluates the "
              "specification's predicate on logged implementation points (no state exploration, trigonometry is outside TLC)")
MICRO = 10 ** 6


class M:
    def __init__(self, name):
        self.name = name

    def __repr__(self):
        return self.name


X, Y = M("x"), M("y")


# ------------------------------------------------------------------------------------------ square spiral
def square_indices(xc, yc, xr, yr, xn, yn):
    """spiral_square_pattern's points mapped to 0-based lattice indices ([-1, -1] when a point is off the lattice)"""
    from bluesky.plan_patterns import spiral_square_pattern
    cyc = spiral_square_pattern(X, Y, xc, yc, xr, yr, xn, yn)
    dx, dy = xr / (xn - 1), yr / (yn - 1)
    out = []
    for p in cyc:
        fx, fy = (p[X] - (xc - xr / 2)) / dx, (p[Y] - (yc - yr / 2)) / dy
        ix, iy = round(fx), round(fy)
        if abs(fx - ix) > 1e-6 or abs(fy - iy) > 1e-6 or abs(ix) > 10 ** 6 or abs(iy) > 10 ** 6:
            ix, iy = -1, -1
        out.append([int(ix), int(iy)])
    return out


SQ_PARAMS = [(0.0, 0.0, 1.0, 1.0), (1.5, -2.25, 3.0, 0.7), (-10.0, 4.0, 0.2, 12.0)]


# ------------------------------------------------------------------------------------------ spiral / spiral_fermat
def rect_case(fn, cx, cy, xr, yr, dr, k, aspect, tilt):
    """run spiral / spiral_fermat; all of cx, cy, xr, yr are Fractions with at most 6 decimals, aspect = dr_y / dr
    (Fraction or None), tilt = (tn, td) with tan(tilt) = tn / td.  Returns the SpiralTrace record."""
    from bluesky import plan_patterns as pp
    tn, td = tilt
    kw = {"tilt": math.atan2(tn, td)}
    if aspect is not None:
        kw["dr_y"] = float(dr * aspect)
    f = getattr(pp, fn)
    raised = None
    try:
        cyc = f(X, Y, float(cx), float(cy), float(xr), float(yr), float(dr), k, **kw)
        pts = [[round(p[X] * MICRO), round(p[Y] * MICRO)] for p in cyc]
    except Exception as ex:  # noqa: e.g. cycler's StopIteration when no point at all lies inside: nothing was produced
        pts, raised = [], type(ex).__name__
    a = aspect if aspect is not None else Fraction(1)
    return {"t": "rect", "fn": fn, "cx": int(cx * MICRO), "cy": int(cy * MICRO), "xr": int(xr * MICRO), "yr": int(yr * MICRO),
            "tn": tn, "td": td, "an": a.numerator, "ad": a.denominator, "pts": pts, "raised": raised,
            "req": {"x_start": float(cx), "y_start": float(cy), "x_range": float(xr), "y_range": float(yr), "dr": float(dr),
                    "nth" if fn == "spiral" else "factor": k, "dr_y": kw.get("dr_y"), "tilt": kw["tilt"]}}


def sig_of(c):
    a = Fraction(c["an"], c["ad"])
    cls = "dr_y<dr" if a < 1 else ("dr_y>dr" if a > 1 else "dr_y=dr")
    return f"{c['fn']}:{cls}:{'tilted' if c['tn'] else 'untilted'}"


def rect_grid(quick):
    F = Fraction
    centres = [(F(0), F(0)), (F(3, 2), F(-9, 4))]
    ranges = [(F(2), F(2)), (F(1), F(7, 2))] if quick else [(F(2), F(2)), (F(1), F(7, 2)), (F(5), F(1, 2)), (F(3), F(3))]
    drs = [F(1, 4)] if quick else [F(1, 10), F(1, 4), F(1, 2)]
    aspects = [None, F(1, 2), F(2), F(2, 3)] if quick else [None, F(1), F(1, 2), F(2), F(2, 3), F(3, 2), F(1, 4)]
    tilts = [(0, 1), (1, 4), (-1, 2)] if quick else [(0, 1), (1, 4), (-1, 2), (1, 1), (3, 2), (-2, 1)]
    ks = {"spiral": [1, 5] if quick else [1, 3, 5, 8], "spiral_fermat": [1.0, 2.0] if quick else [0.5, 1.0, 2.0, 3.0]}
    for fn in ("spiral", "spiral_fermat"):
        for c in centres:
            for r in ranges:
                for dr in drs:
                    for a in aspects:
                        for t in tilts:
                            for k in ks[fn]:
                                yield (fn, c[0], c[1], r[0], r[1], dr, k, a, t)


def rect_random(rng):
    F = Fraction
    fn = rng.choice(["spiral", "spiral_fermat"])
    cx, cy = F(rng.randint(-8000, 8000), 1000), F(rng.randint(-8000, 8000), 1000)
    xr, yr = F(rng.randint(200, 6000), 1000), F(rng.randint(200, 6000), 1000)
    dr = F(rng.randint(80, 900), 1000)
    a = rng.choice([None, None, F(rng.randint(1, 5), rng.randint(1, 5))])
    t = rng.choice([(0, 1), (rng.randint(-8, 8), rng.randint(1, 8))])
    k = rng.randint(1, 9) if fn == "spiral" else rng.choice([0.5, 1.0, 1.5, 2.0, 3.0])
    return (fn, cx, cy, xr, yr, dr, k, a, t)


# ------------------------------------------------------------------------------------------ the check
def run(ctx):
    # 1. the ring walk, explored
    cfg = "Spiral_small.cfg" if ctx.quick else "Spiral_large.cfg"
    cases_file = ctx.out / "square_cases.ndjson"
    res = run_tlc("Spiral", cfg, spec_dir=SD, env={"CASES_OUT": cases_file}, tag="C27", timeout=1500)
    ctx.add_tlc(res, "Spiral ring walk " + cfg)
    if not res.ok:
        st = last_state(res)
        ctx.violation(f"spec:{res.violated}", f"Spiral.tla {res.kind} {res.violated} violated on the specification itself: xn={st.get('xn')} yn={st.get('yn')}",
                      {"tlc_trace": str(res.trace)[:3000]})
        return
    ctx.cov["exhaustive"] = True
    ctx.rule = ("square spiral: every (x_num, y_num) of the bound is explored by TLC and replayed against spiral_square_pattern with 3 "
                "centre/range settings, plus random larger grids, the implementation's lattice-index sequences being judged by TLC "
                "(exact cover); spiral / spiral_fermat: a parameter grid (centre, ranges, dr, dr_y/dr, tan(tilt), nth|factor) plus seeded random "
                "requests, every produced point logged and evaluated by TLC with InRect; distinct = distinct request, non-trivial = more "
                "than one point produced")
    rows = [json.loads(ln) for ln in open(cases_file)]
    recs = []
    same_order = 0
    for row in rows:
        xn, yn = row["xn"], row["yn"]
        for (xc, yc, xr, yr) in SQ_PARAMS:
            idx = square_indices(xc, yc, xr, yr, xn, yn)
            ctx.case(("square", xn, yn, xc, yc, xr, yr), True)
            exp = sorted(map(tuple, row["idx"]))
            got = sorted(map(tuple, idx))
            same_order += idx == row["idx"]
            if got != exp:
                missing = sorted(set(exp) - set(got))
                twice = sorted({p for p in got if got.count(p) > 1})
                ctx.violation(f"spiral_square_pattern:x_num={xn}:y_num={yn}:cover",
                              f"spiral_square_pattern({xc}, {yc}, {xr}, {yr}, {xn}, {yn}) produces {len(idx)} points; lattice points missing {missing[:6]}, "
                              f"produced more than once {twice[:6]}, off-lattice {got.count((-1, -1))}",
                              {"args": [xc, yc, xr, yr, xn, yn], "indices": idx, "expected_walk": row["idx"]})
            recs.append({"t": "square", "xn": xn, "yn": yn, "idx": idx, "args": [xc, yc, xr, yr]})
        if xn * yn in (6, 12):
            ctx.sample({"x_num": xn, "y_num": yn, "walk": row["idx"]}, limit=2)
    ctx.note(f"{len(rows)} grids replayed x {len(SQ_PARAMS)} settings; in {same_order} of {len(rows) * len(SQ_PARAMS)} the implementation's order equals the "
             "specification's ring walk (informational: the verdict is exact cover)")
    rng = random.Random(ctx.seed)
    for _ in range(20 if ctx.quick else 150):
        xn, yn = rng.randint(2, 30), rng.randint(2, 30)
        xc, yc, xr, yr = rng.uniform(-50, 50), rng.uniform(-50, 50), rng.uniform(0.1, 20), rng.uniform(0.1, 20)
        recs.append({"t": "square", "xn": xn, "yn": yn, "idx": square_indices(xc, yc, xr, yr, xn, yn), "args": [xc, yc, xr, yr]})
        ctx.case(("square", xn, yn, xc, yc, xr, yr), True)

    # 2. spiral / spiral_fermat: log the points
    reqs = list(rect_grid(ctx.quick)) + [rect_random(rng) for _ in range(60 if ctx.quick else 1500)]
    npts = nraised = 0
    for rq in reqs:
        c = rect_case(*rq)
        if len(c["pts"]) > 4000:      # keep the log small; the prefix is still a set of produced points
            c["pts"] = c["pts"][:4000]
        npts += len(c["pts"])
        nraised += c["raised"] is not None
        recs.append(c)
        ctx.case(("rect",) + tuple(str(x) for x in rq), len(c["pts"]) > 1)
    ctx.note(f"{len(reqs)} spiral / spiral_fermat requests, {npts} logged points evaluated by TLC with Spiral!InRect "
             f"(predicate checking on logged points, not state exploration); {nraised} requests produced no point at all because the "
             "implementation raised while building an empty cycler (outside this property)")

    # 3. TLC judges everything recorded
    tf = ctx.out / "impl_cases.ndjson"
    with open(tf, "w") as fh:
        for r in recs:
            fh.write(json.dumps({k: v for k, v in r.items() if k not in ("args", "req", "raised")}) + "\n")
    # -continue: TLC goes on after a violated invariant, so that every recorded case is judged in one run
    res = run_tlc("SpiralTrace", "SpiralTrace.cfg", spec_dir=SD, env={"TRACE_FILE": tf}, tag="C27t", timeout=2400, extra=["-continue"])
    ctx.add_tlc(res, "SpiralTrace")
    outside = {int(m.group(1)) - 1: (int(m.group(2)), int(m.group(3)) - 1) for m in re.finditer(r'<<"OUTSIDE", (\d+), (\d+), (\d+)>>', res.stdout)}
    blamed = {}          # case index -> first violated invariant
    for m in re.finditer(r"Invariant (\S+) is violated by the initial state:\n((?:/\\ .*\n(?:[^/\n].*\n)*)+)", res.stdout):
        mk = re.search(r"/\\ k = (\d+)", m.group(2))
        if mk:
            blamed.setdefault(int(mk.group(1)) - 1, m.group(1))
    if not res.ok and not blamed:
        ctx.machinery(f"SpiralTrace reported {res.violated} without a readable state")
    ctx.traces(len(recs) - len(set(outside) | set(blamed)))
    for i, inv in sorted(blamed.items()):
        c = recs[i]
        if c["t"] == "square":
            ctx.violation(f"trace:spiral_square_pattern:x_num={c['xn']}:y_num={c['yn']}:{inv}",
                          f"spiral_square_pattern({c['args']}, {c['xn']}, {c['yn']}): TLC invariant {inv} violated on the produced lattice indices {c['idx'][:40]}",
                          {"case": c})
        else:
            n, first = outside.get(i, (0, 0))
            p = c["pts"][first] if first < len(c["pts"]) else None
            ctx.violation(f"{sig_of(c)}:{inv}",
                          f"{c['fn']}({c['req']}) produced {n} point(s) outside the requested rectangle, e.g. {[x / MICRO for x in p] if p else None}",
                          {"case": {k2: v for k2, v in c.items() if k2 != 'pts'}, "first_outside": p, "count": n})
    # cases outside the rectangle that TLC accepted only through the exempted, defective alternative (KF_FermatAsCoded)
    for i, (n, first) in sorted(outside.items()):
        if i in blamed:
            continue
        c = recs[i]
        p = c["pts"][first]
        ctx.violation(f"{sig_of(c)}:outside", f"{c['fn']}({c['req']}) produced {n} point(s) outside the requested rectangle, e.g. "
                      f"({p[0] / MICRO}, {p[1] / MICRO}) for centre ({c['cx'] / MICRO}, {c['cy'] / MICRO}), ranges ({c['xr'] / MICRO}, {c['yr'] / MICRO})",
                      {"case": {k2: v for k2, v in c.items() if k2 != 'pts'}, "first_outside": p, "count": n})
    for c in recs:
        if c["t"] == "rect" and len(c["pts"]) > 5:
            ctx.sample({k2: (v[:3] if k2 == "pts" else v) for k2, v in c.items()}, limit=4)
            break
    ctx.assumptions += [
        "requests are well formed: ranges, dr, dr_y, nth / factor positive, x_num, y_num >= 2",
        "the tilt shears the un-stretched ring frame: the x bound is |x + (y / a) tan(tilt)| <= x_range / 2 with a = dr_y / dr (identical to "
        "|x + y tan(tilt)| when dr_y is not given); the y bound |y| <= y_range / 2 is unambiguous",
        "coordinates are logged in 10^-6 fixed point with a slack of 2 units; tan(tilt) is supplied as an exact rational (tilt = atan2(tn, td))",
        "the in-rectangle half is predicate checking by TLC on logged points, not state exploration",
    ]


def replay(ctx, obj):
    """./check C27 --replay FILE: re-execute the failing request and let TLC judge the produced points"""
    if isinstance(obj.get("replay"), dict):     # a file written by ./check: {sig, what, replay}
        obj = obj["replay"]
    if "args" in obj and "indices" in obj:
        xc, yc, xr, yr, xn, yn = obj["args"]
        rec = {"t": "square", "xn": xn, "yn": yn, "idx": square_indices(xc, yc, xr, yr, xn, yn)}
        print(f"spiral_square_pattern({xc}, {yc}, {xr}, {yr}, {xn}, {yn}) -> lattice indices {rec['idx']}")
    elif "case" in obj and obj["case"].get("t") == "square":
        c = obj["case"]
        xc, yc, xr, yr = c["args"]
        rec = {"t": "square", "xn": c["xn"], "yn": c["yn"], "idx": square_indices(xc, yc, xr, yr, c["xn"], c["yn"])}
        print(f"spiral_square_pattern({xc}, {yc}, {xr}, {yr}, {c['xn']}, {c['yn']}) -> lattice indices {rec['idx'][:60]}")
    elif "case" in obj:
        c = obj["case"]
        F = Fraction
        k = c["req"].get("nth", c["req"].get("factor"))
        asp = None if c["req"]["dr_y"] is None else F(c["an"], c["ad"])
        rec = rect_case(c["fn"], F(c["cx"], MICRO), F(c["cy"], MICRO), F(c["xr"], MICRO), F(c["yr"], MICRO),
                        F(c["req"]["dr"]).limit_denominator(10 ** 6), k, asp, (c["tn"], c["td"]))
        print(f"{c['fn']}({rec['req']}) -> {len(rec['pts'])} points")
        rec = {k2: v for k2, v in rec.items() if k2 not in ("req", "raised")}
    else:
        print(json.dumps(obj, indent=1)[:4000])
        return 0
    tf = ctx.out / "replay_case.ndjson"
    tf.write_text(json.dumps(rec) + "\n")
    res = run_tlc("SpiralTrace", "SpiralTrace.cfg", spec_dir=SD, env={"TRACE_FILE": tf}, tag="C27replay", extra=["-continue"])
    out = re.findall(r'<<"OUTSIDE", (\d+), (\d+), (\d+)>>', res.stdout)
    if out:
        n, first = int(out[0][1]), int(out[0][2]) - 1
        p = rec["pts"][first]
        print(f"  {n} point(s) outside the requested rectangle, first ({p[0] / MICRO}, {p[1] / MICRO})")
    if res.ok and not out:
        print("  accepted by SpiralTrace (the violation does not reproduce)")
        return 0
    print(f"  reproduces: {'invariant ' + res.violated + ' violated' if not res.ok else 'accepted only through the exempted known-finding alternative KF_FermatAsCoded'}")
    return 1
