------------------------------ MODULE JsonTrunc ------------------------------
(***************************************************************************)
(* C38 -- truncate_json_overflow makes any numeric payload JSON-safe and   *)
(* leaves safe values alone.                                               *)
(*                                                                         *)
(* Numbers of 2^31 and more cannot enter TLC, so values are abstracted to  *)
(* CLASSES; the harness owns the concrete representatives (3-5 per class   *)
(* and carrier) and classifies what the real function returns back into    *)
(* output classes.  A value ("leaf") is  [cls, dt, box]:                   *)
(*   cls  value class: in-range int, +-(2^53-1) boundary, int beyond,      *)
(*        integral float in range / beyond, fractional float, floats next  *)
(*        to +-1.8e308, +-inf, nan, bool, str                              *)
(*   dt   carrier: python object or numpy int64/uint64/float32/float64     *)
(*   box  plain scalar, 0-d numpy array, or element of a 1-d numpy array   *)
(* A structure is a pre-order token list (mapping with its sorted keys /   *)
(* sequence with its length / leaf) plus the list of its leaves.           *)
(*                                                                         *)
(* The property, from the statement:                                       *)
(*   SameShape   the output has the same token list (tuples, lists and 1-d *)
(*               arrays are all sequences)                                 *)
(*   LeafOK      integer-typed outputs lie within +-(2^53-1); float outputs*)
(*               are finite or NaN; a finite input with zero fractional    *)
(*               part beyond the range comes out integral within the range *)
(*               (of either type); an input already in range comes out     *)
(*               equal and of the same class                               *)
(* As-found behaviour is modelled next to it (AsFound): numpy integer and  *)
(* float32 scalars are not instances of int/float and pass through; a 0-d  *)
(* array is "Iterable" but cannot be iterated, so the call raises.  These  *)
(* are the open findings; they are exempted only at exactly that carrier,  *)
(* class and observed output.                                              *)
(***************************************************************************)
EXTENDS Naturals, Sequences, SequencesExt, FiniteSets, TLC, Json, IOUtils

CONSTANTS Skels        \* ids of the structure skeletons to enumerate

IntClasses == {"int_in", "int_bnd_p", "int_bnd_n", "int_big_p", "int_big_n"}
FloatClasses == {"fint_in", "fint_big_p", "fint_big_n", "ffrac", "fmax_p", "fmax_n", "inf_p", "inf_n", "nan"}
Classes == IntClasses \cup FloatClasses \cup {"bool", "str"}
Dts == {"py", "i64", "u64", "f32", "f64"}
Boxes == {"scalar", "arr0", "elem"}

ClassesOf(dt) ==
    CASE dt = "py" -> Classes
      [] dt = "i64" -> IntClasses
      [] dt = "u64" -> {"int_in", "int_bnd_p", "int_big_p"}
      [] dt = "f32" -> {"fint_in", "fint_big_p", "fint_big_n", "ffrac", "inf_p", "inf_n", "nan"}
      [] dt = "f64" -> FloatClasses

Leaf(c, d, b) == [cls |-> c, dt |-> d, box |-> b]
\* leaves that can stand anywhere in a container / elements of a 1-d array of dtype d
FreeLeaves == {Leaf(c, d, b) : c \in Classes, d \in Dts, b \in {"scalar", "arr0"}} 
AnyLeaves == {x \in FreeLeaves : x.cls \in ClassesOf(x.dt) /\ (x.box = "arr0" => x.dt # "py")}
ElemLeaves(d) == {Leaf(c, d, "elem") : c \in ClassesOf(d)}
ArrDts == Dts \ {"py"}

----------------------------------------------------------------------------
\* output classes as the harness reports them
OutClasses == {"int_in", "int_big", "fint_in", "fint_big", "ffrac", "inf", "nan", "bool", "str", "other", "none"}
Safe == {"int_in", "fint_in", "fint_big", "ffrac", "nan", "bool", "str"}      \* ints in range, floats finite or NaN

InRange(c) == c \in {"int_in", "int_bnd_p", "int_bnd_n", "fint_in", "ffrac", "nan", "bool", "str"}
BigIntegral(c) == c \in {"int_big_p", "int_big_n", "fint_big_p", "fint_big_n", "fmax_p", "fmax_n"}
Infinite(c) == c \in {"inf_p", "inf_n"}

\* the output class of an unchanged value
OwnClass(c) ==
    CASE c \in {"int_in", "int_bnd_p", "int_bnd_n"} -> "int_in"
      [] c \in {"int_big_p", "int_big_n"} -> "int_big"
      [] c = "fint_in" -> "fint_in"
      [] c \in {"fint_big_p", "fint_big_n", "fmax_p", "fmax_n"} -> "fint_big"
      [] c = "ffrac" -> "ffrac"
      [] c \in {"inf_p", "inf_n"} -> "inf"
      [] OTHER -> c

\* what the statement allows as the output class of a leaf
Allowed(x) ==
    IF InRange(x.cls) THEN {OwnClass(x.cls)}
    ELSE IF BigIntegral(x.cls) THEN {"int_in", "fint_in"}
    ELSE Safe \ {"bool", "str"}                                  \* +-inf: anything finite or NaN

\* an input already in range must moreover come back equal
LeafOK(x, ocls, same) == ocls \in Allowed(x) /\ (InRange(x.cls) => same)

\* the code as found: only instances of int / float are looked at
Handled(x) == x.dt \in {"py", "f64"}
AsFoundOut(x) ==
    IF InRange(x.cls) \/ ~Handled(x) THEN <<OwnClass(x.cls), TRUE>>
    ELSE IF BigIntegral(x.cls) THEN <<"int_in", FALSE>>
    ELSE <<"fint_big", FALSE>>                                     \* +-inf -> +-1.7976e308
KF_NpInt(x, ocls, same) == x.dt \in {"i64", "u64"} /\ ~InRange(x.cls) /\ ocls = "int_big" /\ same
KF_F32(x, ocls, same) == x.dt = "f32" /\ ~InRange(x.cls) /\ ocls = OwnClass(x.cls) /\ same
KFName(x, ocls, same) == IF KF_NpInt(x, ocls, same) THEN "npint" ELSE IF KF_F32(x, ocls, same) THEN "f32" ELSE "none"

----------------------------------------------------------------------------
(* Skeletons: token list, concrete container kind per token (harness only), *)
(* and the kind of each leaf slot: 0 = any scalar, 2 = any scalar or 0-d     *)
(* array, 1 = element of the 1-d array.  (A 0-d array makes the as-found     *)
(* code raise for the whole structure, so it gets one slot per skeleton at   *)
(* most and does not mask the outcome of the other leaf everywhere.)         *)
T(t, n, key) == [t |-> t, n |-> n, key |-> key]
L(key) == T("leaf", 0, key)
Sk(id, toks, kinds, slots) == [id |-> id, toks |-> toks, kinds |-> kinds, slots |-> slots]
Catalogue == {
    Sk(1, <<L("")>>, <<"">>, <<2>>),
    Sk(2, <<T("seq", 1, ""), L("")>>, <<"list", "">>, <<2>>),
    Sk(3, <<T("seq", 2, ""), L(""), L("")>>, <<"list", "", "">>, <<0, 0>>),
    Sk(4, <<T("map", 1, ""), L("k")>>, <<"dict", "">>, <<2>>),
    Sk(5, <<T("map", 2, ""), L("k"), L("m")>>, <<"dict", "", "">>, <<2, 0>>),
    Sk(6, <<T("seq", 2, ""), T("seq", 1, ""), L(""), L("")>>, <<"list", "tuple", "", "">>, <<0, 2>>),
    Sk(7, <<T("map", 1, ""), T("seq", 2, "k"), L(""), L("")>>, <<"dict", "list", "", "">>, <<0, 0>>),
    Sk(8, <<T("seq", 2, ""), T("map", 1, ""), L("k"), L("")>>, <<"tuple", "dict", "", "">>, <<2, 0>>),
    Sk(9, <<T("map", 2, ""), T("map", 1, "k"), L("m"), L("n")>>, <<"dict", "dict", "", "">>, <<0, 0>>),
    Sk(10, <<T("seq", 1, ""), L("")>>, <<"arr", "">>, <<1>>),
    Sk(11, <<T("seq", 2, ""), L(""), L("")>>, <<"arr", "", "">>, <<1, 1>>),
    Sk(12, <<T("map", 1, ""), T("seq", 2, "k"), L(""), L("")>>, <<"dict", "arr", "", "">>, <<1, 1>>),
    Sk(13, <<T("seq", 2, ""), T("seq", 1, ""), L(""), L("")>>, <<"list", "arr", "", "">>, <<1, 0>>),
    Sk(14, <<T("seq", 2, ""), L(""), L("")>>, <<"tuple", "", "">>, <<0, 2>>),
    Sk(15, <<T("seq", 0, "")>>, <<"list">>, <<>>),
    Sk(16, <<T("map", 0, "")>>, <<"dict">>, <<>>),
    Sk(17, <<T("seq", 0, "")>>, <<"arr">>, <<>>),
    Sk(18, <<T("map", 2, ""), T("seq", 0, "k"), T("map", 1, "m"), L("z")>>, <<"dict", "tuple", "dict", "">>, <<2>>) }

VARIABLES skel, adt, leaves
vars == <<skel, adt, leaves>>

HasArr(s) == \E i \in 1..Len(s.kinds) : s.kinds[i] = "arr"
ScalarLeaves == {x \in AnyLeaves : x.box = "scalar"}
SlotLeaves(s, d) == [i \in 1..Len(s.slots) |-> IF s.slots[i] = 1 THEN ElemLeaves(d)
                                            ELSE IF s.slots[i] = 2 THEN AnyLeaves ELSE ScalarLeaves]
RECURSIVE SeqProduct(_)
SeqProduct(S) ==      \* all sequences x with x[i] \in S[i]
    IF S = <<>> THEN {<<>>}
    ELSE {<<h>> \o t : h \in Head(S), t \in SeqProduct(Tail(S))}

Init == /\ skel \in {s \in Catalogue : s.id \in Skels}
        /\ adt \in IF HasArr(skel) THEN ArrDts ELSE {"none"}
        /\ leaves \in SeqProduct(SlotLeaves(skel, adt))
Next == UNCHANGED vars
Spec == Init /\ [][Next]_vars

----------------------------------------------------------------------------
(* Properties of the specification itself over the whole enumerated domain  *)
N == Len(leaves)
\* whatever the statement allows is JSON-safe, and something is always allowed
S_AllowedIsSafe == \A i \in 1..N : Allowed(leaves[i]) # {} /\ Allowed(leaves[i]) \subseteq Safe
\* values already in range: exactly one admissible outcome, the value itself
S_InRangeFixed == \A i \in 1..N : InRange(leaves[i].cls) =>
                      /\ Allowed(leaves[i]) = {OwnClass(leaves[i].cls)}
                      /\ ~LeafOK(leaves[i], OwnClass(leaves[i].cls), FALSE)
\* a value that is not in range cannot be returned unchanged
S_OutOfRangeChanges == \A i \in 1..N : ~InRange(leaves[i].cls) => OwnClass(leaves[i].cls) \notin Allowed(leaves[i])
\* the as-found code departs from the statement exactly at the known-finding signatures
S_AsFoundOnlyKnown ==
    \A i \in 1..N : LET x == leaves[i] o == AsFoundOut(x)
                    IN LeafOK(x, o[1], o[2]) <=> KFName(x, o[1], o[2]) = "none"
\* leaves are well-formed for their carrier
S_TypeOK == \A i \in 1..N : leaves[i].cls \in ClassesOf(leaves[i].dt)
                            /\ (leaves[i].box = "elem" <=> skel.slots[i] = 1)
                            /\ (leaves[i].box = "elem" => leaves[i].dt = adt)
                            /\ (leaves[i].box = "arr0" => skel.slots[i] = 2)

----------------------------------------------------------------------------
Case(s, d, lv) == [id |-> s.id, adt |-> d, toks |-> s.toks, kinds |-> s.kinds, leaves |-> lv]
DumpCases ==
    TLCGet("stats").generated >= 0 /\ ndJsonSerialize(IOEnv.CASES_OUT,
        SetToSeq(UNION {UNION {{Case(s, d, lv) : lv \in SeqProduct(SlotLeaves(s, d))} :
                               d \in IF HasArr(s) THEN ArrDts ELSE {"none"}} :
                        s \in {c \in Catalogue : c.id \in Skels}}))
=============================================================================
