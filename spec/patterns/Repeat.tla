------------------------------- MODULE Repeat -------------------------------
(***************************************************************************)
(* C28 -- count and repeat run the inner plan exactly num times with the   *)
(* right delays.                                                           *)
(*                                                                         *)
(* The loop of plan_stubs.repeat (count delegates to it) with a virtual    *)
(* clock: per repetition the time is taken, a checkpoint is emitted, the   *)
(* inner plan runs (its duration is chosen by the environment), the next   *)
(* requested delay is fetched and, when it has not elapsed yet, a sleep    *)
(* for the remainder is emitted.  num = -1 stands for None (repeat until   *)
(* the consumer stops the plan; the consumer stops after at most MaxStop   *)
(* repetitions).  delay is a scalar, a sized iterable ("list": too few     *)
(* entries can be refused before the first repetition) or an unsized one   *)
(* ("gen": only discovered when it runs dry).                              *)
(*                                                                         *)
(* Where the statement leaves the behaviour open the specification offers  *)
(* every alternative the statement allows, so that an implementation is    *)
(* accepted iff each of its runs is one of the specified behaviours:       *)
(*   - after the LAST repetition the delay may or may not be consumed      *)
(*     (a trailing sleep for the remainder is not forbidden);              *)
(*   - a sized iterable that is too short may be refused up front or when  *)
(*     it runs dry;                                                        *)
(*   - with num = None an iterable running dry ends the plan, silently or  *)
(*     with ValueError (the statement says nothing).                       *)
(* hist is the sequence of messages [c, v]: checkpoint, inner (v = its     *)
(* duration), sleep (v = amount).  Every property is an invariant over     *)
(* hist and the outcome pc in "done" | "error" (ValueError) | "closed".    *)
(***************************************************************************)
EXTENDS Integers, Sequences, FiniteSets, TLC, Json

CONSTANTS MaxNum,       \* num ranges over -1 (None), 0..MaxNum
          DelayVals,    \* values of requested delays
          MaxLen,       \* iterable delays have 0..MaxLen entries
          DurVals,      \* durations of one run of the inner plan
          MaxStop       \* num = None: the consumer stops the plan after 1..MaxStop repetitions

VARIABLES num, dkind, delays0,      \* the request
          rest,                     \* delays not yet consumed (iterables)
          i,                        \* loop counter
          clock, now,               \* virtual time; time taken at the start of the current repetition
          pc, hist

vars == <<num, dkind, delays0, rest, i, clock, now, pc, hist>>

Ev(c, v) == [c |-> c, v |-> v]
Reps(h) == Cardinality({k \in 1..Len(h) : h[k].c = "inner"})
Terminal == {"done", "error", "closed"}

SeqsUpTo(S, n) == UNION {[1..m -> S] : m \in 0..n}

Init == /\ num \in -1..MaxNum
        /\ \/ dkind = "scalar" /\ delays0 \in [1..1 -> DelayVals]
           \/ dkind \in {"list", "gen"} /\ delays0 \in SeqsUpTo(DelayVals, MaxLen)
        /\ rest = delays0
        /\ i = 0 /\ clock = 0 /\ now = 0
        /\ pc = "start" /\ hist = <<>>

TooFew == dkind # "scalar" /\ num > 0 /\ num - 1 > Len(delays0)

\* first next(): a sized iterable that is too short may be refused right away
Start == /\ pc = "start"
         /\ \/ pc' = "loop"
            \/ dkind = "list" /\ TooFew /\ pc' = "error"
         /\ UNCHANGED <<num, dkind, delays0, rest, i, clock, now, hist>>

\* loop head: one more repetition, or finished
RepStart == /\ pc = "loop" /\ (num < 0 \/ i < num)
            /\ now' = clock
            /\ hist' = Append(hist, Ev("checkpoint", 0))
            /\ pc' = "inner"
            /\ UNCHANGED <<num, dkind, delays0, rest, i, clock>>
Finish == /\ pc = "loop" /\ num >= 0 /\ i >= num
          /\ pc' = "done"
          /\ UNCHANGED <<num, dkind, delays0, rest, i, clock, now, hist>>

\* the inner plan runs for d
Inner(d) == /\ pc = "inner"
            /\ clock' = clock + d
            /\ hist' = Append(hist, Ev("inner", d))
            /\ pc' = "delay"
            /\ UNCHANGED <<num, dkind, delays0, rest, i, now>>

\* after the inner plan: fetch the delay requested for this repetition, sleep for what is left of it
HaveDelay == dkind = "scalar" \/ rest # <<>>
Delay == /\ pc = "delay" /\ HaveDelay
         /\ LET d == IF dkind = "scalar" THEN delays0[1] ELSE Head(rest)
                rem == d - (clock - now)
            IN IF rem > 0
               THEN hist' = Append(hist, Ev("sleep", rem)) /\ clock' = clock + rem
               ELSE UNCHANGED <<hist, clock>>
         /\ rest' = IF dkind = "scalar" THEN rest ELSE Tail(rest)
         /\ i' = i + 1
         /\ pc' = "loop"
         /\ UNCHANGED <<num, dkind, delays0, now>>
\* the iterable ran dry
Dry == /\ pc = "delay" /\ ~HaveDelay
       /\ \/ i + 1 = num /\ pc' = "done"                       \* it was the last repetition: enough delays
          \/ num < 0 /\ pc' \in {"done", "error"}              \* None: the statement leaves it open
          \/ num >= 0 /\ i + 1 # num /\ pc' = "error"          \* ValueError
       /\ UNCHANGED <<num, dkind, delays0, rest, i, clock, now, hist>>
\* nothing obliges the plan to look at the delays after the last repetition
SkipLast == /\ pc = "delay" /\ num >= 0 /\ i + 1 = num
            /\ pc' = "done"
            /\ UNCHANGED <<num, dkind, delays0, rest, i, clock, now, hist>>

\* num = None: the consumer closes the plan between two repetitions
Stop == /\ pc = "loop" /\ num < 0 /\ Reps(hist) >= 1
        /\ pc' = "closed"
        /\ UNCHANGED <<num, dkind, delays0, rest, i, clock, now, hist>>

Next == \/ Start \/ Finish \/ Delay \/ Dry \/ SkipLast \/ Stop
        \/ (RepStart /\ ~(num < 0 /\ Reps(hist) >= MaxStop))
        \/ \E d \in DurVals : Inner(d)
Spec == Init /\ [][Next]_vars

----------------------------------------------------------------------------
\* Properties (statement vocabulary)
Requested(j) == IF dkind = "scalar" THEN delays0[1] ELSE IF j <= Len(delays0) THEN delays0[j] ELSE -1
RepOf(k) == Cardinality({m \in 1..k : hist[m].c = "inner"})        \* which repetition message k belongs to

\* exactly num repetitions
C28_ExactlyNum == /\ num >= 0 => Reps(hist) <= num
                  /\ (pc = "done" /\ num >= 0) => Reps(hist) = num
\* each repetition preceded by a checkpoint
C28_CheckpointBeforeEachRepetition ==
    \A k \in 1..Len(hist) : hist[k].c = "inner" => (k > 1 /\ hist[k - 1].c = "checkpoint")
\* a sleep only for the positive remainder of the delay requested for the repetition just finished
C28_SleepOnlyPositiveRemainder ==
    \A k \in 1..Len(hist) : hist[k].c = "sleep" =>
        /\ k > 1 /\ hist[k - 1].c = "inner"
        /\ hist[k].v > 0
        /\ Requested(RepOf(k)) >= 0
        /\ hist[k].v = Requested(RepOf(k)) - hist[k - 1].v
\* ... and the remainder is really slept before the next repetition starts
C28_RemainderIsSlept ==
    \A k \in 1..(Len(hist) - 1) : (hist[k].c = "inner" /\ hist[k + 1].c = "checkpoint") =>
        Requested(RepOf(k)) - hist[k].v <= 0
\* iterable delays with at least num - 1 entries (and scalars) are accepted
C28_EnoughDelaysAccepted == (num >= 0 /\ ~TooFew) => pc # "error"
\* too few: ValueError, and never more repetitions than the delays allow
C28_TooFewDelaysRaise == TooFew => (pc # "done" /\ Reps(hist) <= Len(delays0) + 1)
\* the plan always ends in one of the outcomes (no other stuck state)
C28_Ends == (~ENABLED Next) => pc \in Terminal
TypeOK == /\ pc \in {"start", "loop", "inner", "delay"} \cup Terminal
          /\ i >= 0 /\ clock >= now

\* used as a CONSTRAINT in the replay-generation config: print every maximal history as JSON
DumpHist == (pc \in Terminal) =>
    PrintT(<<"HIST", ToJson([num |-> num, dkind |-> dkind, delays |-> delays0, hist |-> hist, outcome |-> pc])>>)
=============================================================================
