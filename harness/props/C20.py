"""C20 -- message mutators are transparent when they change nothing.

spec/gen/Gen.tla is the Python generator protocol (send/throw/close <-> yield/return/raise, with the rules for
unstarted and finished generators and for close()); spec/gen/PlanMutator.tla is plan_mutator's stack machine (and
msg_mutator) between a driver and an environment-controlled parent generator.  With the identity processor TLC
checks, for ALL driver scripts (send / throw / close at any point, also before the first send and after the end)
and ALL parent reactions (yield / return / raise new / let the thrown exception through / return, raise or yield
on close) up to the bound, that every driver operation reaches the parent's code exactly once and unchanged and
that the wrapper answers exactly what the bare generator would have answered (C20_SameOpsReachParent,
C20_SameOutcome, C20_SameLiveness).

Spec -> code: every maximal TLC history is executed on the real plan_mutator / msg_mutator with a scripted
generator (a real generator whose reactions follow the script) and every interface event is compared; the same
driver script is run on the bare scripted generator and must give the same answers and deliver the same
operations to the body.  Code -> spec: random programs of a small grammar (yield, nested yield from,
try/except/finally with yields, raise, return, loops), wrapped in the real functions and driven by random
scripts, are recorded at both interfaces and validated by TLC against PlanMutatorTrace.tla, all invariants on.
"""
import random

from harness import genproto as G

DESIGN_REF = "DESIGN.md section 7 (C20), Appendix E"
INVS = ["TypeOK", "C20_SameOpsReachParent", "C20_SameOutcome", "C20_SameLiveness", "C21_ReplyToYielder"]


def nontrivial(h):
    """a history that exercises more than plain sends: a throw, a close, or a parent that raises"""
    return any((e[0] == "call" and e[2] in ("throw", "close")) or (e[0] == "iret" and e[2] == "raise") for e in h)


def run(ctx):
    quick = ctx.quick
    consts = {"Impls": {"plan_mutator", "msg_mutator"}, "Procs": {"identity"}, "Variants": {"FF"},
              "MaxOpsId": 9 if quick else 12, "MaxOpsIns": 0, "MaxGens": 0, "MaxPost": 1 if quick else 2, "KeepHist": True,
              "DumpVariants": {"FF"}}
    ctx.rule = ("cases = every maximal behaviour of PlanMutator.tla with the identity processor (all driver scripts x all "
                "parent reactions up to MaxOpsId driver operations, both implementations), each replayed on the real function "
                "and on the bare generator; distinct by the full event sequence; non-trivial = contains a throw, a close or a "
                "raising parent.  Plus random grammar programs under random driver scripts, validated by TLC "
                "(distinct by program text + script).")
    # 1. the design, exhaustively (thorough: a deeper bound without replay first), and the histories
    if not quick:
        from harness.tlc import run_tlc, write_cfg
        deep = dict(consts, MaxOpsId=15, DumpVariants=set())
        res = run_tlc("PlanMutator", write_cfg(ctx.out / "C20_check_deep.cfg", deep, invariants=INVS), spec_dir=G.SD, tag="C20", timeout=3000)
        ctx.add_tlc(res, f"PlanMutator identity exhaustive (check only) MaxOpsId={deep['MaxOpsId']}")
        if not res.ok:
            h = res.trace[-1][1].get("hist", ()) if res.trace else ()
            ctx.violation(f"spec:{res.violated}", f"PlanMutator.tla: {res.kind} {res.violated} violated in the model; history {list(h)}",
                          {"hist": [list(e) for e in h]})
            return
    res, hists = G.tlc_histories(ctx, "C20_exhaustive", consts, INVS, tag="C20")
    ctx.add_tlc(res, f"PlanMutator identity exhaustive MaxOpsId={consts['MaxOpsId']}")
    if not res.ok:
        h = res.trace[-1][1].get("hist", ()) if res.trace else ()
        ctx.violation(f"spec:{res.violated}", f"PlanMutator.tla: {res.kind} {res.violated} violated in the model; history {list(h)}",
                      {"hist": [list(e) for e in h]})
        return
    if not hists:
        ctx.machinery("TLC produced no histories")
    ctx.cov["exhaustive"] = True
    ctx.note(f"{len(hists)} maximal histories")
    # 2. spec -> code
    for rec in hists:
        h = rec["h"]
        ctx.case(G.digest((rec["impl"], h)), nontrivial(h))
        _, _, _, singles = G.parse_history(h)
        exp = G.expected_events(h, singles)
        obs, env = G.replay_history(rec)
        d = G.first_diff(exp, obs)
        if d is not None or env.error:
            i, a, b = d if d else (len(exp), None, env.error)
            ctx.violation(f"replay:{rec['impl']}:{G.shape(h)}",
                          f"{rec['impl']} differs from the specified behaviour at event {i}: expected {a}, implementation {b}",
                          {"history": rec, "observed": obs})
            continue
        # the bare generator on the same script: same answers, same operations seen by the body
        bobs, benv = G.bare_reference(rec)
        if G.outs_of(bobs) != G.outs_of(obs) or benv.code != env.code:
            ctx.violation(f"bare-diff:{rec['impl']}:{G.shape(h)}",
                          f"{rec['impl']}(plan) and the bare plan differ under the same driver script: wrapper answers "
                          f"{G.outs_of(obs)} body saw {env.code}; bare answers {G.outs_of(bobs)} body saw {benv.code}",
                          {"history": rec, "observed": obs, "bare": bobs})
            continue
        if nontrivial(h):
            ctx.sample({"impl": rec["impl"], "events": [e[:4] for e in h]})
    # 3. code -> spec
    rng = random.Random(ctx.seed)
    traces, meta = [], []
    n = 200 if quick else 4000
    del hists
    with G.quiet_gc():
        for i in range(n):
            impl = "plan_mutator" if i % 2 == 0 else "msg_mutator"
            t, src, bare = G.program_trace(rng, impl, size=rng.randint(4, 14 if quick else 20))
            traces.append(t)
            meta.append(src)
            ctx.case(G.digest((impl, src, [(e["op"], e["a"]) for e in t["ev"] if e["k"] == "call"])))
            if G.outs_of(t["ev"]) != G.outs_of(bare):
                ctx.violation(f"bare-diff:{impl}:program:{'|'.join(o[0] for o in G.outs_of(t['ev']))[:80]}",
                              f"{impl}(program) answers {G.outs_of(t['ev'])}, the bare program {G.outs_of(bare)}",
                              {"program": src, "trace": t["ev"], "bare": bare})
    report_traces(ctx, traces, meta, "C20t")
    ctx.assumptions += [
        "the driver starts the generator with send(None) (Python rejects anything else), throws Exception subclasses only "
        "(GeneratorExit / KeyboardInterrupt are not thrown, close() is used) and does not drive a generator any further "
        "after a close() that raised",
        "the processor is called with every message and returns (None, None) [plan_mutator] / the message itself [msg_mutator]",
        "identity of exceptions, messages and values is compared (labels are per object); tracebacks, __context__ and the "
        "text of RuntimeError('generator ignored GeneratorExit') are not",
    ]


def report_traces(ctx, traces, meta, tag):
    v, tags = G.validate(ctx, traces, tag)
    ctx.add_tlc(v.res, f"PlanMutatorTrace {len(traces)} traces")
    bad = set(v.rejected)
    for idx, upto in v.rejected.items():
        t = traces[idx]
        ev = t["ev"][upto] if upto < len(t["ev"]) else None
        ctx.violation(f"trace-rejected:{t['impl']}:{G.trace_sig(t, upto)}",
                      f"implementation trace not a behaviour of PlanMutator.tla from event {upto}: {ev}; before: {t['ev'][max(0, upto - 4):upto]}",
                      {"trace": t, "accepted_prefix": upto, "program": meta[idx]})
    if v.invariant:
        idx = v.inv_trace_index
        bad.add(idx)
        ctx.violation(f"trace-invariant:{v.invariant}", f"{v.invariant} violated on an implementation trace (index {idx})",
                      {"trace": traces[idx] if idx is not None else None, "program": meta[idx] if idx is not None else None})
    elif not v.res.ok and not v.rejected:
        ctx.machinery("trace validation failed without a verdict:\n" + v.res.stdout[-1500:])
    ctx.traces(len(traces) - len(bad))
    for t in traces[:2]:
        ctx.sample({"trace": [(e["k"], e["g"], e["op"], e["a"]) for e in t["ev"]][:40]})
    return v, tags


def replay(ctx, obj):
    return G.replay_file(ctx, obj)
