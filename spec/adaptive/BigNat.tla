------------------------------- MODULE BigNat -------------------------------
(***************************************************************************)
(* Natural numbers of arbitrary size as little-endian sequences of limbs   *)
(* in base 10000 (every limb and every intermediate product stays far      *)
(* below 2^31, TLC's integer range).  Zero is <<>>; values are normalised  *)
(* (no most-significant zero limb), so equal numbers are equal sequences.  *)
(*                                                                         *)
(* Used by Adaptive.tla: the adaptive_scan / tune_centroid loops are run   *)
(* over EXACT rationals num/den; the smoothing constants of the loops      *)
(* (1/5, 4/5, 11/10, division by the signal difference) multiply the       *)
(* denominator by up to 250 per iteration, which leaves 32 bits after four *)
(* iterations.  Numerators and the common denominator are BigNats.         *)
(***************************************************************************)
LOCAL INSTANCE Naturals
LOCAL INSTANCE Sequences

Base == 10000

RECURSIVE FromNat(_)
FromNat(n) == IF n = 0 THEN <<>> ELSE <<n % Base>> \o FromNat(n \div Base)

RECURSIVE Norm(_)
Norm(a) == IF a = <<>> THEN <<>>
           ELSE IF a[Len(a)] = 0 THEN Norm(SubSeq(a, 1, Len(a) - 1)) ELSE a

LOCAL Hd(a) == IF a = <<>> THEN 0 ELSE Head(a)
LOCAL Tl(a) == IF a = <<>> THEN <<>> ELSE Tail(a)

RECURSIVE AddC(_, _, _)
AddC(a, b, c) ==
    IF a = <<>> /\ b = <<>> THEN (IF c = 0 THEN <<>> ELSE <<c>>)
    ELSE LET x == Hd(a) + Hd(b) + c
         IN <<x % Base>> \o AddC(Tl(a), Tl(b), x \div Base)
Add(a, b) == AddC(a, b, 0)

\* a - b for a >= b (callers compare first)
RECURSIVE SubB(_, _, _)
SubB(a, b, br) ==
    IF a = <<>> THEN <<>>
    ELSE LET x == Hd(a) - Hd(b) - br
         IN IF x < 0 THEN <<x + Base>> \o SubB(Tl(a), Tl(b), 1)
                     ELSE <<x>> \o SubB(Tl(a), Tl(b), 0)
Sub(a, b) == Norm(SubB(a, b, 0))

\* a * k for a small natural k (k <= 200000 keeps Head(a) * k + carry below 2^31)
RECURSIVE MulC(_, _, _)
MulC(a, k, c) ==
    IF a = <<>> THEN FromNat(c)
    ELSE LET x == Head(a) * k + c
         IN <<x % Base>> \o MulC(Tail(a), k, x \div Base)
MulS(a, k) == IF k = 0 \/ a = <<>> THEN <<>> ELSE MulC(a, k, 0)

LOCAL Shift(a) == IF a = <<>> THEN <<>> ELSE <<0>> \o a
RECURSIVE Mul(_, _)
Mul(a, b) == IF a = <<>> \/ b = <<>> THEN <<>>
             ELSE Add(MulS(a, Head(b)), Shift(Mul(a, Tail(b))))

\* -1 / 0 / 1
RECURSIVE CmpFrom(_, _, _)
CmpFrom(a, b, i) == IF i = 0 THEN 0
                    ELSE IF a[i] < b[i] THEN 0 - 1
                    ELSE IF a[i] > b[i] THEN 1
                    ELSE CmpFrom(a, b, i - 1)
Cmp(a, b) == IF Len(a) < Len(b) THEN 0 - 1
             ELSE IF Len(a) > Len(b) THEN 1
             ELSE CmpFrom(a, b, Len(a))

Lt(a, b) == Cmp(a, b) < 0
Le(a, b) == Cmp(a, b) <= 0
MinB(a, b) == IF Le(a, b) THEN a ELSE b
MaxB(a, b) == IF Le(a, b) THEN b ELSE a
=============================================================================
