CONSTANTS
  MaxDocs = 0
  NBackups = 2
  MaxLens = {}
  MaxBFails = 1
SPECIFICATION TraceSpec
INVARIANT C35_BackupCompleteInOrder
INVARIANT C35_BackupNoDupOrdered
INVARIANT C35_PushIffFailed
INVARIANT C35_SilentBeforeFailure
INVARIANT C35_PrimarySeesAll
INVARIANT C35_BufferAccounting
POSTCONDITION TraceAccepted
