-------------------------------- MODULE REMC --------------------------------
(* Model-checking wrapper of RE.tla: the plan is a PROGRAM (straight-line messages with one optional        *)
(* try/cleanup region), device outcomes come from a bounded fault budget, requests from a bounded budget, *)
(* and the caller takes every possible decision after a pause.                                            *)
EXTENDS REProps

CONSTANTS
  Prog,        \* [msgs, t0, t1, c0, c1, kind, raiseAt]  (positions 1-based; cleanup block directly follows the try block)
  MaxReq,      \* number of external requests (pause/defer/suspend/abort/stop/halt)
  ReqKinds,    \* subset of {"pause","defer","suspend","abort","stop","halt"}
  MaxFaults,   \* number of device faults (raise / failing status / late status)
  FaultKinds,  \* subset of {"raise","fail","later"}
  Decisions,   \* subset of {"resume","abort","stop","halt"}  what the caller may do when a call leaves the engine paused
  MaxCalls,    \* number of RE(...) calls
  SuspPre, SuspPost,   \* pre/post plans of suspensions (sequences of messages)
  MaxUpdates,  \* number of monitor updates
  MaxSusOps,   \* number of operations on suspender objects (install / remove / signal change)
  RecordIntr   \* RE.record_interruptions

VARIABLES env      \* [nreq, nfault, ncall, nupd, nsus, susp (futures with a suspension requested)]
mcvars == <<S, obs, env, mon>>

N == Len(Prog.msgs)
NoP == [at |-> 0, pend |-> None]

Catches(e) == CASE Prog.kind = "finally" -> TRUE
                [] Prog.kind = "finalize" -> e \notin {"GeneratorExit", "PlanHalt"}
                [] OTHER -> FALSE
InTry(i) == Prog.kind # "none" /\ i >= Prog.t0 /\ i <= Prog.t1
HasCleanup == Prog.c0 <= Prog.c1

ToCleanup(e) == IF HasCleanup THEN Reaction("yield", Prog.msgs[Prog.c0], None, [at |-> Prog.c0, pend |-> e])
                ELSE Reaction("raise", NoMsg, e, NoP)

\* normal advance of the program from position p.at
Advance(p) ==
  LET nx == p.at + 1 IN
  IF Prog.kind # "none" /\ HasCleanup /\ p.at = Prog.c1 /\ p.pend # None THEN Reaction("raise", NoMsg, p.pend, NoP)
  ELSE IF nx > N THEN Reaction("return", NoMsg, None, NoP)
  ELSE IF nx = Prog.raiseAt THEN
          (IF InTry(nx) /\ Catches("PlanErr") THEN ToCleanup("PlanErr") ELSE Reaction("raise", NoMsg, "PlanErr", NoP))
  ELSE Reaction("yield", Prog.msgs[nx], None, [at |-> nx, pend |-> p.pend])

ProgReact(g, inp) ==
  IF inp.t = "val" THEN Advance(g.p)
  ELSE IF g.p.at = 0 THEN Reaction("raise", NoMsg, inp.v, NoP)          \* throw into an unstarted generator
  ELSE IF InTry(g.p.at) /\ Catches(inp.v) THEN ToCleanup(inp.v)
  ELSE Reaction("raise", NoMsg, inp.v, NoP)

DevCmds == {"read", "set", "trigger", "stage", "unstage", "kickoff", "complete", "prepare", "collect"}
StatusCmds == {"set", "trigger", "kickoff", "complete", "prepare"}

MCInit == Init /\ MonInit /\ env = [nreq |-> 0, nfault |-> 0, ncall |-> 0, nupd |-> 0, nsus |-> 0, susp |-> {}]

Bump(f) == env' = [env EXCEPT ![f] = @ + 1]

\* how the program reacts to close(): a generator suspended inside a try block that has a clean-up block yields again
EnvPos == IF \E i \in 1..Len(S.gens) : S.gens[i].k = "env" THEN S.gens[CHOOSE i \in 1..Len(S.gens) : S.gens[i].k = "env"].p.at ELSE 0
CloseReact == IF HasCleanup /\ InTry(EnvPos) THEN "raise:Err:RuntimeError" ELSE "closed"
LoopQuiet == S.cbq = <<>> /\ S.susq = <<>> /\ S.pendRet = <<>>
MCNext ==
  \/ /\ S.pc = "fetch" /\ LoopQuiet
     /\ LET g == Top1(S.gens) IN
        Fetch(IF g.k = "env" THEN ProgReact(g, FetchInput(S)) ELSE ListReact(g, FetchInput(S)))
     /\ UNCHANGED env
  \/ /\ S.pc = "exec" /\ LoopQuiet
     /\ \/ Exec("ok") /\ UNCHANGED env
        \/ /\ env.nfault < MaxFaults /\ S.cur.cmd \in DevCmds
           /\ \E d \in FaultKinds : (d \in {"fail", "later", "nostatus"} => S.cur.cmd \in StatusCmds) /\ Exec(d)
           /\ Bump("nfault")
  \* (REMC follows the discipline of the harness, on which the monitors' accounting of suspender trips relies: what a
  \*  suspender operation has scheduled on the loop lands before the run task takes its next step; RE.tla itself allows
  \*  the run task to step in between -- RETrace would accept such a trace)
  \/ LoopQuiet /\ (Start \/ Top \/ Wake \/ AfterSleep0 \/ (\E b \in BOOLEAN : DeliverCancel(b)) \/ CmdDone \/ Exit \/ TailStep \/ Finally(CloseReact, {}) \/ AOpsStep(CloseReact, {}) \/ AOpsCancel
                   \/ CollectDone("ok") \/ Backstop(CloseReact, {}) \/ BackCancel) /\ UNCHANGED env
  \* a flyer whose collect() raises: inside the command, or inside the engine's backstop collection
  \/ /\ LoopQuiet /\ env.nfault < MaxFaults /\ "raise" \in FaultKinds
     /\ \/ CollectDone("raise")
        \/ \E f \in Flyers : Finally(CloseReact, {f}) \/ AOpsStep(CloseReact, {f}) \/ Backstop(CloseReact, {f})
     /\ Bump("nfault")
  \/ /\ env.nreq < MaxReq
     /\ \/ "pause" \in ReqKinds /\ ReqPause(FALSE) /\ Bump("nreq")
        \/ "defer" \in ReqKinds /\ ReqPause(TRUE) /\ Bump("nreq")
        \/ \E op \in ReqKinds \cap {"abort", "stop", "halt"} : (ReqTerminate(op) \/ ReqTerminatePaused(op)) /\ Bump("nreq")
        \/ /\ "suspend" \in ReqKinds
           /\ \E f \in FutNames \ env.susp : ReqSuspend(f, SuspPre, SuspPost)
                                             /\ env' = [env EXCEPT !.nreq = @ + 1, !.susp = @ \cup {f}]
  \/ \E f \in env.susp : Release(f) /\ UNCHANGED env
  \/ \E sid \in DOMAIN S.stDone : \E ok \in BOOLEAN : (ok \/ "fail" \in FaultKinds) /\ StatusDone(sid, ok) /\ UNCHANGED env
  \/ /\ env.nupd < MaxUpdates /\ \E d \in Mons : MonitorUpdate(d) /\ Bump("nupd")
  \/ /\ env.nsus < MaxSusOps
     /\ \E x \in Suspenders : \/ ~S.sus[x].inst /\ SusInstall(x)
                              \/ S.sus[x].inst /\ SusRemove(x)
                              \/ \E v \in (IF x \in SusBand THEN {0, 1, 2} ELSE {0, 1}) : v # S.sigv[x] /\ SigPut(SigOf[x], v)
     /\ Bump("nsus")
  \/ ((\E f \in S.relq : SusRelease(f)) \/ SusCb \/ SusLand \/ SusRet) /\ UNCHANGED env
  \/ env.ncall < MaxCalls /\ Call(NoP, RecordIntr) /\ Bump("ncall")
  \/ (Return \/ LateReqRet) /\ UNCHANGED env
  \/ "resume" \in Decisions /\ CallResume /\ UNCHANGED env
  \/ \E op \in Decisions \cap {"abort", "stop", "halt"} : CallTerminate(op) /\ UNCHANGED env

MCStep == MCNext /\ MonNext
MCSpec == MCInit /\ [][MCStep]_mcvars
MCReport == Report(0)

\* no reachable state without a successor, except the quiescent ones (everything returned, budgets used up or idle)
Quiescent == S.caller.phase = "idle" /\ S.pc \in {"none", "done", "paused"}
=============================================================================
