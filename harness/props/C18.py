"""C18 -- subscriptions live exactly as long as they were asked to.

spec/dispatcher/Dispatcher.tla models Dispatcher/CallbackRegistry token bookkeeping (public token -> private
ids shared between equal callables, reference-counted), per-call and in-plan temporary tokens.  TLC checks that
what is delivered is exactly what the live tokens ask for over all histories up to the bound; every maximal
history is replayed on a real RunEngine; random long histories run on the real RunEngine are validated by TLC.
"""
import json
import random
import re

from harness.tlc import run_tlc, write_cfg, SPEC
from harness.tracecheck import validate_traces

SD = SPEC / "dispatcher"
DESIGN_REF = "DESIGN.md section 7 (C18), section 8"


class Recorder:
    """callables f,g,h: record (callable, document name)"""

    def __init__(self, names):
        self.log = []
        self.fns = {}
        for n in names:
            self.fns[n] = self._mk(n)

    def _mk(self, n):
        def cb(name, doc):
            self.log.append((n, name))
        cb.__name__ = n
        return cb


_RE_CACHE = {}
RANK = {"all": 0, "start": 1, "stop": 2}    # bluesky.utils.SUBS_NAMES order: per-call subs are registered in this order


def callsubs_in_engine_order(h):
    """per-call subscriptions get their tokens in SUBS_NAMES order; a history is directly executable iff its
    call_sub events (within each call) already are in that order"""
    run = []
    for e in h:
        if e["op"] == "call_sub":
            if run and RANK[e["name"]] < run[-1]:
                return False
            run.append(RANK[e["name"]])
        else:
            run = []
    return True


def fresh_re():
    """a RunEngine with a pristine Dispatcher, sharing one background loop"""
    import asyncio
    from bluesky import RunEngine
    from bluesky.utils import DuringTask
    if "loop" not in _RE_CACHE:
        _RE_CACHE["loop"] = asyncio.new_event_loop()
    RE = RunEngine({}, loop=_RE_CACHE["loop"], context_managers=[], during_task=DuringTask())
    return RE


def execute(hist_ops, fn_names):
    """Run a history (list of dicts with op, fn, name, tok, sig) on a real RunEngine.
    Returns the list of observed events in the same format (tok / to filled from observation)."""
    from bluesky import Msg
    RE = fresh_re()
    rec = Recorder(fn_names)
    observed = []
    i = 0
    n = len(hist_ops)

    def do_outside(e):
        if e["op"] == "subscribe":
            tok = RE.subscribe(rec.fns[e["fn"]], e["name"])
            observed.append(dict(e, tok=tok, to=[]))
        elif e["op"] == "unsubscribe":
            RE.unsubscribe(e["tok"])
            observed.append(dict(e, to=[]))

    while i < n:
        e = hist_ops[i]
        if e["op"] in ("subscribe", "unsubscribe"):
            do_outside(e)
            i += 1
            continue
        if e["op"] != "call_start":
            raise ValueError(f"history not executable at {i}: {e}")
        observed.append(dict(e, to=[]))
        i += 1
        call_subs = []
        while i < n and hist_ops[i]["op"] == "call_sub":
            call_subs.append(hist_ops[i])
            i += 1
        body = []
        while i < n and hist_ops[i]["op"] != "call_end":
            body.append(hist_ops[i])
            i += 1
        ended = i < n
        # RE(plan, subs): subs given as dict name -> [callables]; order of registration = order of the dict
        # To observe tokens we need the order the engine subscribes them: normalize_subs_input iterates the dict.
        subs = {}
        for cs in call_subs:
            subs.setdefault(cs["name"], []).append(rec.fns[cs["fn"]])
        # the engine registers them grouped by name in dict order; replicate that order for the observed events
        ordered = sorted(call_subs, key=lambda cs: RANK[cs["name"]])   # stable: the engine iterates SUBS_NAMES order
        before = set(RE.dispatcher._token_mapping)
        state = {"open": [], "k": 0}

        def plan():
            # tokens of per-call subs: issued by now
            new = sorted(set(RE.dispatcher._token_mapping) - before)
            for cs, tok in zip(ordered, new):
                observed.append(dict(cs, tok=tok, to=[]))
            if len(new) != len(ordered):
                observed.append({"op": "error", "fn": "", "name": "", "tok": 99, "sig": "", "to": [],
                                 "what": f"{len(ordered)} per-call subs but {len(new)} tokens"})
            for b in body:
                if b["op"] == "plan_subscribe":
                    tok = yield Msg("subscribe", None, rec.fns[b["fn"]], b["name"])
                    observed.append(dict(b, tok=tok, to=[]))
                elif b["op"] == "plan_unsubscribe":
                    yield Msg("unsubscribe", token=b["tok"])
                    observed.append(dict(b, to=[]))
                elif b["op"] in ("subscribe", "unsubscribe"):
                    do_outside(b)      # public API used while the call is in progress
                elif b["op"] == "emit":
                    if b["sig"] == "start":
                        state["k"] += 1
                        key = f"k{state['k']}"
                        mark = len(rec.log)
                        yield Msg("open_run", run=key)
                        state["open"].append(key)
                    else:
                        if not state["open"]:
                            state["k"] += 1
                            key = f"k{state['k']}"
                            yield Msg("open_run", run=key)
                            state["open"].append(key)
                        mark = len(rec.log)
                        yield Msg("close_run", run=state["open"].pop(0))
                    got = rec.log[mark:]
                    observed.append(dict(b, to=sorted(f for f, nm in got if nm == b["sig"]),
                                         dup=len(got) != len(set(got))))
            return

        # the call_sub ordering caveat: the spec issues tokens in history order; the engine in dict order.
        RE(plan(), subs if subs else None)
        if ended:
            observed.append(dict(hist_ops[i], to=[]))
            i += 1
    return observed


def run(ctx):
    # 1. exhaustive model checking of the design
    cfg = "Dispatcher_small.cfg" if ctx.quick else "Dispatcher_large.cfg"
    res = run_tlc("Dispatcher", cfg, spec_dir=SD, tag="C18", timeout=3000, coverage=False)
    ctx.add_tlc(res, "Dispatcher exhaustive " + cfg)
    if not res.ok:
        hist = res.trace[-1][1].get("hist", ()) if res.trace else ()
        ops = [(e["op"], e["fn"], e["name"], e["tok"], e["sig"]) for e in hist]
        ctx.violation(f"spec:{res.violated}", f"Dispatcher.tla {res.kind} {res.violated} violated by history {ops}", {"hist": ops})
        return
    ctx.cov["exhaustive"] = True
    # 2. every maximal history of the replay config executed on a real RunEngine
    hists = []
    # two callables / short histories, and one callable / longer histories (token sharing needs >= 5 operations)
    for fns, ops, ntok in ((["f", "g"], 4, 3), (["f"], 5 if ctx.quick else 6, 2)):
        cfgp = write_cfg(ctx.out / f"replay_{len(fns)}_{ops}.cfg",
                         {"Fns": set(fns), "Sigs": {"start", "stop"}, "MaxOps": ops, "MaxTok": ntok, "RefCount": True},
                         invariants=["C18_DeliveryMatchesLiveTokens"], constraints=["DumpHist"])
        res = run_tlc("Dispatcher", cfgp, spec_dir=SD, tag="C18r", workers=1, timeout=3000)
        ctx.add_tlc(res, f"Dispatcher replay generation fns={fns} ops={ops}")
        for m in re.finditer(r'<<"HIST", "((?:[^"\\]|\\.)*)">>', res.stdout):
            hists.append(json.loads(json.loads('"' + m.group(1) + '"')))
    if not hists:
        ctx.machinery("no histories produced by Dispatcher_replay.cfg")
    ctx.rule = ("histories = every maximal behaviour of Dispatcher_replay.cfg (printed by TLC) replayed on a real RunEngine; "
                "non-trivial = contains an emit and at least two subscriptions or an unsubscribe; distinct by full op sequence; "
                "plus random long histories executed on the RunEngine and validated by TLC (DispatcherTrace)")
    mism = 0
    for h in hists:
        # per-call subs are registered by the engine grouped by name: keep only histories whose call_sub order is
        # compatible (same-name groups contiguous in dict order) -- others are replayed with reordered tokens below
        key = tuple((e["op"], e["fn"], e["name"], e["tok"], e["sig"]) for e in h)
        nontriv = any(e["op"] == "emit" for e in h) and (sum(e["op"].endswith("subscribe") or e["op"] == "call_sub" for e in h) >= 2)
        ctx.case(key, nontriv)
        if not callsubs_in_engine_order(h):
            continue     # its permutation with engine-ordered per-call subs is another history of the same set
        try:
            obs = execute(h, ["f", "g"])
        except Exception as ex:  # an exception out of the engine on a legal history is a failure of the property
            ctx.violation(f"replay-exc:{type(ex).__name__}:{key}", f"history {key} raised {ex!r}", {"hist": h})
            continue
        exp = [dict(e, to=sorted(e["to"])) for e in h]
        for a, b in zip(exp, obs):
            if b.get("dup"):
                ctx.violation(f"dup-delivery:{key}", f"a callable received the same document twice in {key}", {"hist": h, "observed": obs})
                break
            if (a["op"], a["fn"], a["name"], a["tok"], a["sig"], a["to"]) != (b["op"], b["fn"], b["name"], b["tok"], b["sig"], b["to"]):
                mism += 1
                ctx.violation(f"replay:{key}", f"history {key}: at {a['op']} expected tok={a['tok']} to={a['to']} but implementation gave tok={b['tok']} to={b['to']}",
                              {"hist": h, "observed": obs})
                break
        if nontriv:
            ctx.sample([(e["op"], e["fn"], e["name"], e["tok"], e["sig"], sorted(e["to"])) for e in h])
    # 3. random long histories on the implementation, validated by TLC
    rng = random.Random(ctx.seed)
    traces = []
    for _ in range(30 if ctx.quick else 400):
        rh = random_history(rng, 25 if ctx.quick else 40)
        try:
            traces.append(execute(rh, ["f", "g", "h"]))
        except Exception as ex:  # an exception out of the engine on a legal history is a failure of the property
            ops = [(e["op"], e["fn"], e["name"], e["tok"]) for e in rh]
            ctx.violation(f"random-exc:{type(ex).__name__}", f"random history {ops} raised {ex!r}", {"hist": rh})
    clean = [[{k: e[k] for k in ("op", "fn", "name", "tok", "sig", "to")} for e in t if e["op"] != "error"] for t in traces]
    v = validate_traces("DispatcherTrace", "DispatcherTrace.cfg", clean, SD, ctx.out, tag="C18t")
    ctx.add_tlc(v.res, "DispatcherTrace")
    for t in clean:
        ctx.case(tuple((e["op"], e["fn"], e["name"], e["tok"], e["sig"]) for e in t))
    ctx.traces(len(clean) - len(v.rejected) - (1 if v.invariant else 0))
    for idx, upto in v.rejected.items():
        t = clean[idx]
        ev = t[upto] if upto < len(t) else None
        pre = [(e["op"], e["fn"], e["name"], e["tok"]) for e in t[:upto]]
        ctx.violation(f"trace-rejected:{ev['op'] if ev else '?'}:{pre[-6:]}", f"implementation trace rejected by DispatcherTrace at event {upto}: {ev}; prefix {pre}",
                      {"trace": t, "accepted_prefix": upto})
    if v.invariant:
        ctx.violation(f"trace-invariant:{v.invariant}", f"invariant {v.invariant} violated on an implementation trace (index {v.inv_trace_index})",
                      {"trace": clean[v.inv_trace_index] if v.inv_trace_index is not None else None})
    for t in traces:
        for e in t:
            if e.get("dup"):
                ctx.violation("dup-delivery:random", "a callable received the same document twice", {"trace": t})
            if e["op"] == "error":
                ctx.violation("token-count", e["what"], {"trace": t})
    lifecycle_interplay(ctx)
    ctx.assumptions += ["documents reach the Dispatcher only through RunEngine.emit_sync (open_run/close_run used as emitters)",
                        "callables are plain functions (bound-method weak references are not exercised)"]


def lifecycle_interplay(ctx):
    """4. in-plan subscriptions against the engine's lifecycle (spec/re/RE.tla: S.tsubs, Deliver; REProps.tla: the C18 clauses).
    Plans that subscribe / unsubscribe document consumers themselves are run on the real RunEngine under the single-step loop
    with a pause / suspension / abort at every scheduling point, every caller decision, and a second call on the same engine;
    each consumer logs what reaches it (`tdoc`).  TLC validates every trace against RE.tla (a delivery record is part of the
    behaviour: one per live in-plan subscription after every document) and evaluates the C18 clauses on every event."""
    from harness import recore
    c = recore.build_corpus(ctx.tier, only="tmpsub")
    tr = [t for t in c["traces"] if "tmpsub" in t["id"]]
    d = ctx.out / "re"
    d.mkdir(parents=True, exist_ok=True)
    pv, mstats = recore.monitor_many([t["events"] for t in tr], d, "m")
    rej, _, vstats, _ = recore.validate_many([t["events"] for t in tr], "full", d, "v")
    ctx.cov["states"] += mstats["distinct"] + vstats["distinct"]
    ctx.cov["transitions"] += mstats["generated"] + vstats["generated"]
    ndeliv = sum(1 for t in tr for e in t["events"] if e[0] == "tdoc")
    if not ndeliv:
        ctx.machinery("no delivery to an in-plan consumer was recorded: the C18 lifecycle clauses were not exercised")
    ctx.note(f"lifecycle interplay: {len(tr)} implementation traces with in-plan subscriptions ({ndeliv} deliveries logged), "
             f"{len(rej)} not accepted by RE.tla")
    ctx.cov["lifecycle_traces"] = len(tr)
    ctx.cov["lifecycle_deliveries"] = ndeliv
    ctx.cov["lifecycle_traces_not_conforming_to_spec"] = len(rej)
    for t in tr:
        ctx.case("re:" + t["id"], "|" in t["id"])
    ctx.traces(len(tr) - len(rej))
    if rej:
        i, upto = sorted(rej.items())[0]
        pe = [e for e in tr[i]["events"] if e[0] in recore.PROJECTIONS["full"]]
        print(f"NOTE: {len(rej)} of {len(tr)} implementation traces with in-plan subscriptions are not accepted by RE.tla (spec drift), "
              f"e.g. {tr[i]['id']} after {upto} of {len(pe)} events (next {pe[upto][:4] if upto < len(pe) else 'END'})")
    for i, tags, reqs in pv:
        for tag in tags:
            if tag.startswith("C18:"):
                t = tr[i]
                ctx.violation(recore.signature(tag, reqs) + recore.sig_suffix(t), f"{tag} on implementation trace {t['id']} (outcomes {t['outcomes']})",
                              {"scenario": t["id"], "tag": tag, "requests": reqs})


def random_history(rng, n):
    """a random executable history; tokens chosen among those issued so far"""
    fns = ["f", "g", "h"]
    names = ["all", "start", "stop"]
    h = []
    issued = 0
    temp = []
    in_call = False
    can_callsub = False
    e0 = {"op": "", "fn": "", "name": "", "tok": 99, "sig": "", "to": []}
    while len(h) < n:
        r = rng.random()
        if not in_call:
            if r < 0.3:
                h.append(dict(e0, op="subscribe", fn=rng.choice(fns), name=rng.choice(names), tok=issued)); issued += 1
            elif r < 0.45 and issued:
                t = rng.randrange(issued)
                if t in temp:
                    continue
                h.append(dict(e0, op="unsubscribe", tok=t))
            else:
                h.append(dict(e0, op="call_start")); in_call = True; can_callsub = True; temp = []
        else:
            if can_callsub and r < 0.3:
                nm = rng.choice(names)
                # keep the engine's registration order (SUBS_NAMES) so that token numbers agree
                if h[-1]["op"] == "call_sub" and RANK[nm] < RANK[h[-1]["name"]]:
                    continue
                h.append(dict(e0, op="call_sub", fn=rng.choice(fns), name=nm, tok=issued)); temp.append(issued); issued += 1
                continue
            can_callsub = False
            if r < 0.45:
                h.append(dict(e0, op="emit", sig=rng.choice(["start", "stop"])))
            elif r < 0.6:
                h.append(dict(e0, op="plan_subscribe", fn=rng.choice(fns), name=rng.choice(names), tok=issued)); temp.append(issued); issued += 1
            elif r < 0.7 and temp:
                t = rng.choice(temp); temp.remove(t)
                h.append(dict(e0, op="plan_unsubscribe", tok=t))
            elif r < 0.8:
                h.append(dict(e0, op="subscribe", fn=rng.choice(fns), name=rng.choice(names), tok=issued)); issued += 1
            elif r < 0.88 and issued:
                t = rng.randrange(issued)
                if t in temp:
                    continue
                h.append(dict(e0, op="unsubscribe", tok=t))
            else:
                h.append(dict(e0, op="call_end")); in_call = False
    if in_call:
        h.append(dict(e0, op="call_end"))
    return h
