CONSTANTS
  MinNum = 2
  MaxNum = 16
SPECIFICATION Spec
INVARIANT C27_SquareInGrid
INVARIANT C27_SquareNoPointTwice
INVARIANT C27_SquareCoversGrid
INVARIANT C27_SquareOutwards
INVARIANT C27_SquareRingsComplete
POSTCONDITION DumpCases
