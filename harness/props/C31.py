"""C31 -- decided on the RunEngine core specification (spec/re/RE.tla, REProps.tla).

REMC.tla is model-checked exhaustively for bounded plan programs with every interleaving of external requests and caller
decisions; every scheduling point of the same programs (and of built-in plans) is executed on the real RunEngine under the
single-step loop, recorded through public hooks and validated by TLC against RE.tla, with the C31 clauses of REProps.tla
evaluated by TLC on every event of every recorded execution.
"""
from harness import recore

ENGINE = "tlc+re-core"
DESIGN_REF = "DESIGN.md sections 4, 5, 7 (C31)"


def run(ctx):
    recore.check_property(ctx, "C31", proj="full")
