\* adaptive_scan(start=0, stop=2, min_step=1/4, max_step=1, target_delta=1, threshold=4/5), <= 5 visits
\* (harness/props/C29.py generates its configurations with write_cfg; this file documents the quick-tier one)
CONSTANTS
  Plan = "adaptive"
  Den = 4
  StartN = 0
  StopN = 8
  MinStepN = 1
  MaxStepN = 4
  TargetN = 4
  ThrN = 4
  ThrD = 5
  Num = 3
  SfN = 2
  SfD = 1
  Readings = {0, 1, 2, 5}
  MaxIter = 5
  Fuzz = TRUE
  Flips = {FALSE, TRUE}
  Backsteps = {FALSE, TRUE}
  Snakes = {FALSE, TRUE}
SPECIFICATION Spec
INVARIANT TypeOK
INVARIANT AS_VisitedInRange
INVARIANT AS_NotBeforeStart
INVARIANT AS_StepBounded
INVARIANT IterBound
PROPERTY AS_Variant
