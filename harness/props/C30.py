"""C30 -- suspenders trip and release exactly on their documented conditions.

spec/suspenders/Suspenders.tla states the documented suspend / resume predicate of every built-in suspender class
over integers and the tripped / pending-event machine of SuspenderBase.  TLC checks every clause of the property
(conditions exclusive, explicit parameters honoured, tripped <=> suspend condition held at the last deciding value,
release only on the resume condition and threshold, request_suspend exactly on a fresh trip) for all classes x
parameter combinations x value sequences up to the bound.  The binding to bluesky.suspenders:
  * the predicate table written by TLC is compared with _should_suspend/_should_resume of the real classes,
  * every maximal history printed by TLC is replayed on the real classes (stub engine whose loop runs callbacks
    inline / on a virtual clock; fake and ophyd signals; int, float, bool, numpy values) comparing tripped,
    request_suspend calls, released events and pending events after every callback,
  * random long value sequences (half-integer values, random sleep) run on the real classes are validated by TLC
    (SuspendersTrace, batch), every invariant and action property being evaluated on the recorded outputs.
"""
import json
import random
import re

from harness.susp_helpers import IMPL, Unobservable, drive, predicates
from harness.tlc import SPEC, run_tlc, write_cfg
from harness.tracecheck import validate_traces

SD = SPEC / "suspenders"
# few GC threads: the JVMs are short-lived and the machine is shared (16 parallel-GC threads per JVM thrash under load)
JENV = {"_JAVA_OPTIONS": "-XX:ParallelGCThreads=2"}
DESIGN_REF = "DESIGN.md section 7 (C30), section 8"
ALL = ["BoolHigh", "BoolLow", "Floor", "Ceil", "WhenOutsideBand", "OutBand", "WhenChanged"]
INVS = ["C30_Exclusive", "C30_ExplicitHonoured", "C30_DefaultsAsDocumented", "C30_TrippedIffLastDecision",
        "C30_TrippedDocumented", "C30_PendingIffTripped"]
PROPS = ["C30_ReleaseOnlyOnResume", "C30_ResumeThreshold", "C30_ReleaseWhenResume", "C30_RequestOnTrip"]
KF_SIG = "SuspendWhenChanged:expected_value=0:signal-value-used"     # + where it was seen
OUTK = ("tripped", "requested", "released", "pending")


def reps_for(cls, thorough):
    if cls in ("BoolHigh", "BoolLow"):
        return ["int", "bool"]
    return ["int", "float"] + (["npfloat", "npint"] if thorough else [])


def pkey(p):
    return (p["a"], p["agiven"], p["b"], p["bgiven"], p["allow"])


def ctor_text(impl, cls, p, rep="int"):
    if cls in ("BoolHigh", "BoolLow"):
        return f"{impl}(sig)"
    if cls in ("Floor", "Ceil"):
        return f"{impl}(sig, {p['a']}" + (f", resume_thresh={p['b']})" if p["bgiven"] else ")")
    if cls in ("WhenOutsideBand", "OutBand"):
        return f"{impl}(sig, {p['a']}, {p['b']})"
    return f"{impl}(sig" + (f", expected_value={p['a']}" if p["agiven"] else "") + f", allow_resume={p['allow']})"


# --------------------------------------------------------------------------------------------------------------
def check_predicates(ctx, rows, thorough):
    """documented predicate table (TLC) vs _should_suspend / _should_resume of the real classes"""
    groups = {}
    for r in rows:
        groups.setdefault((r["cls"], pkey(r["par"]), r["v0"]), []).append(r)
    kf_seen = 0
    for (cls, _pk, v0), rs in groups.items():
        par = rs[0]["par"]
        vs = [r["v"] for r in rs]
        for impl in IMPL[cls]:
            for rep in reps_for(cls, thorough):
                try:
                    got = predicates(cls, impl, par, v0, vs, rep)
                except AttributeError:      # the private predicate methods were renamed: the behavioural replay below still decides
                    ctx.note(f"{impl}: no _should_suspend/_should_resume; predicate table not compared")
                    return kf_seen
                ctx.case(("pred", impl, pkey(par), v0, rep), True)
                for r, (s, res) in zip(rs, got):
                    ok = (s == r["susp"]) and (not r["must"] or res) and (not res or r["may"]) and not (s and res)
                    if ok:
                        continue
                    what = (f"{ctor_text(impl, cls, par)} with signal at {v0}: value {r['v']} ({rep}) gives "
                            f"_should_suspend={s} _should_resume={res}; documented suspend={r['susp']} "
                            f"resume={'must' if r['must'] else ('may' if r['may'] else 'no')}")
                    if r["kf"] and s == r["ksusp"] and (res == r["kmust"]):
                        kf_seen += 1
                        ctx.violation(f"{KF_SIG}:predicates", what, {"impl": impl, "par": par, "v0": v0, "v": r["v"], "rep": rep})
                    else:
                        ctx.violation(f"predicate:{impl}:{ctor_text(impl, cls, par)}:v0={v0}:v={r['v']}:{rep}", what,
                                      {"impl": impl, "par": par, "v0": v0, "v": r["v"], "rep": rep})
    return kf_seen


def replay_histories(ctx, cases, thorough):
    """every maximal history of the replay config on the real classes"""
    # group the TLC histories by input: the spec is nondeterministic where the documentation is (value equal to the
    # resume threshold) and at the constructor of KF-C30-1 (kf)
    by_input = {}
    for c in cases:
        key = (c["cls"], pkey(c["par"]), c["v0"], c["running"], tuple(o[0] for o in c["hist"]))
        e = by_input.setdefault(key, {"par": c["par"], "ok": set(), "kf": set()})
        e["kf" if c["kf"] else "ok"].add(tuple(tuple(o[1:]) for o in c["hist"]))
    vac = {"kf": 0, "released": 0, "requested": 0, "choice": 0, "notrunning_trip": 0}
    n_ophyd = 0
    for (cls, _pk, v0, running, vals), e in by_input.items():
        par = e["par"]
        vac["kf"] += bool(e["kf"])
        vac["choice"] += len(e["ok"]) > 1
        anyh = next(iter(e["ok"]))
        vac["released"] += any(o[2] for o in anyh)
        vac["requested"] += any(o[1] for o in anyh)
        vac["notrunning_trip"] += (not running) and any(o[0] for o in anyh)
        nontriv = any(o[0] for h in e["ok"] for o in h)          # the suspender trips at least once
        hsh = hash((cls, _pk, v0, vals))
        for impl in IMPL[cls]:
            for rep in reps_for(cls, thorough):
                if rep.startswith("np") and hsh % 4:          # numpy scalars: a quarter of the inputs
                    continue
                kinds = ["fake"]
                if rep == "int" and hsh % (4 if thorough else 8) == 0:
                    kinds.append("ophyd")
                for sk in kinds:
                    n_ophyd += sk == "ophyd"
                    ctx.case((impl, _pk, v0, running, vals, rep, sk), nontriv)
                    info = {"impl": impl, "ctor": ctor_text(impl, cls, par), "par": par, "signal_initial": v0, "running": running,
                            "values": list(vals[1:]), "rep": rep, "signal": sk}
                    try:
                        obs, _ = drive(cls, impl, par, running, v0, list(vals[1:]), rep=rep, sigkind=sk)
                    except Unobservable:
                        raise
                    except Exception as ex:  # noqa
                        ctx.violation(f"replay-exc:{impl}:{type(ex).__name__}:{ctor_text(impl, cls, par)}:v0={v0}:{vals}",
                                      f"{ctor_text(impl, cls, par)} raised {ex!r} on values {vals}", info)
                        continue
                    got = tuple(tuple(o[k] for k in OUTK) for o in obs)
                    if got in e["ok"]:
                        continue
                    info["observed"] = [dict(zip(OUTK, g), v=v) for g, v in zip(got, vals)]
                    info["expected_one_of"] = [[dict(zip(OUTK, g)) for g in h] for h in sorted(e["ok"])]
                    k = next((i for i in range(len(got)) if all(h[i] != got[i] for h in e["ok"])), 0)
                    what = (f"{ctor_text(impl, cls, par)} (signal initially {v0}, engine {'running' if running else 'idle'}, {rep}/{sk}): "
                            f"after values {list(vals[:k + 1])} observed (tripped, requested, released, pending)={got[k]}, "
                            f"specified {sorted({h[k] for h in e['ok']})}")
                    if got in e["kf"]:
                        ctx.violation(f"{KF_SIG}:replay", what, info)
                    else:
                        ctx.violation(f"replay:{impl}:{ctor_text(impl, cls, par)}:v0={v0}:running={running}:vals={list(vals)}:{rep}", what, info)
        if nontriv and e["ok"] and len(ctx.cov["samples"]) < 3 and any(o[2] for o in anyh):
            ctx.sample({"ctor": ctor_text(IMPL[cls][0], cls, par), "signal_initial": v0, "running": running,
                        "values": list(vals), "specified(tripped,requested,released,pending)": [list(o) for o in anyh]})
    return vac


# --------------------------------------------------------------------------------------------------------------
def random_case(rng):
    """a random constructor + value sequence; numbers are in half units (trace integers = 2 * python value)"""
    cls = rng.choice(ALL + ["WhenChanged", "Floor", "Ceil"])
    lo, hi = -8, 8
    p = {"a": 0, "agiven": False, "b": 0, "bgiven": False, "allow": False}
    if cls == "Floor":
        a = rng.randint(lo, hi - 1)
        p.update(a=a, agiven=True)
        if rng.random() < 0.7:
            p.update(b=rng.randint(a, hi), bgiven=True)
    elif cls == "Ceil":
        a = rng.randint(lo + 1, hi)
        p.update(a=a, agiven=True)
        if rng.random() < 0.7:
            p.update(b=rng.randint(lo, a), bgiven=True)
    elif cls in ("WhenOutsideBand", "OutBand"):
        a = rng.randint(lo, hi - 1)
        p.update(a=a, agiven=True, b=rng.randint(a + 1, hi), bgiven=True)
    elif cls == "WhenChanged":
        p["allow"] = rng.random() < 0.7
        if rng.random() < 0.8:
            p.update(a=rng.choice([0, 0, 0, 1, -1, 2, rng.randint(lo, hi)]), agiven=True)
    if cls in ("BoolHigh", "BoolLow"):
        pool = [0, 1]
    else:
        # values near the parameters so that thresholds are hit exactly, and 0
        near = {p["a"], p["b"], p["a"] - 1, p["a"] + 1, p["b"] - 1, p["b"] + 1, 0}
        pool = [x for x in near if lo <= x <= hi] * 3 + list(range(lo, hi + 1))
    n = rng.randint(8, 30)
    return cls, p, rng.choice(pool), [rng.choice(pool) for _ in range(n)]


def random_traces(ctx, rng, n):
    traces, meta = [], []
    for _ in range(n):
        cls, p, v0, vals = random_case(rng)
        impl = rng.choice(IMPL[cls])
        if cls in ("BoolHigh", "BoolLow"):
            rep = rng.choice(["int", "bool"])
        else:
            rep = rng.choice(["half", "half", "int", "npfloat"])
        running = rng.random() < 0.8
        sk = "ophyd" if rng.random() < 0.3 else "fake"
        sleep = rng.choice([0, 0, 0.5, 3])
        info = {"impl": impl, "ctor": ctor_text(impl, cls, p), "par": p, "signal_initial": v0, "running": running, "values": vals,
                "rep": rep, "signal": sk, "sleep": sleep, "unit": "python value = trace value / 2" if rep == "half" else "1"}
        try:
            obs, _ = drive(cls, impl, p, running, v0, vals, rep=rep, sigkind=sk, sleep=sleep)
        except Unobservable:
            raise
        except Exception as ex:  # noqa
            ctx.violation(f"trace-exc:{impl}:{type(ex).__name__}:{ctor_text(impl, cls, p)}", f"{ctor_text(impl, cls, p)} raised {ex!r} on {vals}", info)
            continue
        traces.append({"cls": cls, "par": p, "v0": v0, "running": running, "obs": obs})
        meta.append(info)
        ctx.case((impl, pkey(p), v0, running, tuple(vals), rep, sk), any(o["tripped"] for o in obs))
    return traces, meta


def report_trace_verdict(ctx, v, traces, meta, tag):
    """-> indices rejected"""
    if v.invariant:
        i = v.inv_trace_index
        m = meta[i] if i is not None else {}
        st = v.inv_state or {}
        ctx.violation(f"trace-invariant:{v.invariant}:{m.get('ctor')}:v0={m.get('signal_initial')}:{tag}",
                      f"{v.invariant} violated on outputs recorded from {m.get('ctor')} (signal initially {m.get('signal_initial')}); "
                      f"values so far {list(st.get('vals', ()))}, last output {st.get('out')}",
                      {"case": m, "trace": traces[i] if i is not None else None, "violated": v.invariant})
    return sorted(v.rejected)


def run(ctx):
    thorough = not ctx.quick
    # 1. exhaustive model checking of the design + documented predicate table (+ in the quick tier the same run prints
    #    every maximal history for the replay; the thorough tier checks a larger domain and prints a smaller one)
    rows_file = ctx.out / "pred_rows.ndjson"
    hist_re = re.compile(r'<<"HIST", "((?:[^"\\]|\\.)*)">>')
    if ctx.quick:
        consts = {"VNeg": 1, "VMax": 2, "MaxLen": 4, "MaxIdle": 2, "AllowKF": True, "Classes": set(ALL)}
        cfgp = write_cfg(ctx.out / "small_replay.cfg", consts, invariants=["TypeOK"] + INVS, properties=PROPS,
                         constraints=["DumpHist"], postcondition="DumpPreds")
        res = run_tlc("Suspenders", cfgp, spec_dir=SD, env=dict(JENV, CASES_OUT=rows_file), tag="C30", workers=1, timeout=3000)
        ctx.add_tlc(res, f"Suspenders exhaustive + replay generation {consts}")
        runs = [res]
    else:
        res = run_tlc("Suspenders", "Suspenders_large.cfg", spec_dir=SD, env=dict(JENV, CASES_OUT=rows_file), tag="C30", timeout=3000)
        ctx.add_tlc(res, "Suspenders exhaustive Suspenders_large.cfg")
        runs = [res]
        if res.ok:
            consts = {"VNeg": 1, "VMax": 3, "MaxLen": 4, "MaxIdle": 4, "AllowKF": True, "Classes": set(ALL)}
            cfgp = write_cfg(ctx.out / "replay.cfg", consts, invariants=INVS, properties=PROPS, constraints=["DumpHist"])
            res = run_tlc("Suspenders", cfgp, spec_dir=SD, tag="C30r", workers=1, timeout=3000, env=JENV)
            ctx.add_tlc(res, f"Suspenders replay generation {consts}")
            runs.append(res)
    for res in runs:
        if not res.ok:
            st = res.trace[-1][1] if res.trace else {}
            ctx.violation(f"spec:{res.violated}", f"Suspenders.tla {res.kind} {res.violated} violated on the specification itself: "
                          f"cls={st.get('cls')} par={st.get('par')} vals={st.get('vals')}", {"tlc_trace": str(res.trace)[:3000]})
            return
    ctx.cov["exhaustive"] = True
    rows = [json.loads(ln) for ln in open(rows_file)]
    if not rows:
        ctx.machinery("no predicate rows written by Suspenders.tla")
    kf_pred = check_predicates(ctx, rows, thorough)

    # 2. every maximal history replayed on the real classes
    cases = [json.loads(json.loads('"' + m.group(1) + '"')) for m in hist_re.finditer(runs[-1].stdout)]
    if not cases:
        ctx.machinery("no histories printed by the replay configuration")
    vac = replay_histories(ctx, cases, thorough)
    empty = [k for k, n in vac.items() if n == 0]
    if empty:
        ctx.machinery(f"vacuous replay set: no history with {empty}")
    ctx.note(f"replayed inputs: {vac}")
    ctx.rule = ("cases = every maximal history (class, constructor parameters, initial signal value, engine running?, value "
                "sequence) printed by TLC for the replay configuration, executed on every bluesky class documenting that "
                "behaviour, in every value representation and signal family; non-trivial = the suspender trips at least once; "
                "distinct by (class, parameters, initial value, running, values, representation, signal family); plus the "
                "predicate table rows and random long sequences recorded from the real classes and validated by TLC")

    # 3. random long sequences on the real classes, validated by TLC
    rng = random.Random(ctx.seed)
    traces, meta = random_traces(ctx, rng, 150 if ctx.quick else 3000)
    # one TLC run: the documented and (KF-C30-1) the as-found constructor are both offered; a register records per trace
    # whether only the as-found one explains it
    v = validate_traces("SuspendersTrace", "SuspendersTrace.cfg", traces, SD, ctx.out, tag="C30t", env=JENV)
    ctx.add_tlc(v.res, "SuspendersTrace")
    report_trace_verdict(ctx, v, traces, meta, "trace")
    accepted = len(traces) - len(v.rejected) - (1 if v.invariant else 0)
    for i, upto in sorted(v.rejected.items()):
        m, t = meta[i], traces[i]
        ev = t["obs"][upto] if upto < len(t["obs"]) else None
        ctx.violation(f"trace-rejected:{m['impl']}:{m['ctor']}:v0={m['signal_initial']}:running={m['running']}:vals={[o['v'] for o in t['obs'][:upto + 1]]}",
                      f"outputs recorded from {m['ctor']} (signal initially {m['signal_initial']}, {m['rep']}/{m['signal']}) are not a behaviour of "
                      f"Suspenders.tla: observation {upto} = {ev} after values {[o['v'] for o in t['obs'][:upto]]}",
                      {"case": m, "trace": t, "accepted_prefix": upto})
    for i in sorted(int(x) - 1 for x in re.findall(r'<<"KFONLY", (\d+)>>', v.res.stdout)):
        if i in v.rejected:
            continue
        m, t = meta[i], traces[i]
        ctx.violation(f"{KF_SIG}:trace", f"{m['ctor']} with the signal at {m['signal_initial']} behaves as if expected_value were "
                      f"{m['signal_initial']}: trace explained only by the as-found constructor", {"case": m, "trace": t})
    ctx.traces(max(0, accepted))
    ctx.assumptions += [
        "asyncio loop replaced by a stub: call_soon_threadsafe runs inline, call_later on a virtual clock that is always advanced past the sleep",
        "values are delivered one at a time (no concurrent callbacks); the engine's running state is fixed during a case",
        "boolean suspenders are exercised with 0/1/False/True only; NaN excluded as in the statement",
        "a value equal to the resume threshold of SuspendFloor/SuspendCeil may either resume or leave the decision unchanged (documentation ambiguous)",
        "release is observed as asyncio.Event.set on the event whose wait method was handed to request_suspend / get_futures",
    ]
    ctx.note(f"predicate rows {len(rows)}, KF-C30-1 seen in predicate table {kf_pred}x")
