------------------------------- MODULE RelMon -------------------------------
(***************************************************************************)
(* C24 at plan level: rel_set, mvr, rel_list_scan, rel_scan, rel_grid_scan *)
(* executed by the harness (scripted engine with a fault at every message  *)
(* index; real RunEngine with device faults and pause + abort/stop/halt).  *)
(* No probe can be put inside the built-in plans, so what is judged here   *)
(* is the sequence of set commands (messages, and device ledger), against  *)
(* the trajectory the documented arguments ask for, computed HERE from the *)
(* arguments:  every set on a motor is initial position + requested offset *)
(* (in trajectory order), and when the plan ends with cleanup the last     *)
(* command to every motor it commanded is its initial position.            *)
(*                                                                         *)
(* One recorded case per state (TRACE_FILE, ndjson):                       *)
(*   plan, args (per motor: offsets / <<start, stop>> / <<start,stop,n>>), *)
(*   num, init (per motor), sets (<<motor, value>> in order), final (per   *)
(*   motor, device position afterwards), ending return | raise | closed,   *)
(*   finfault (the fault hit the cleanup itself), led (final is from real  *)
(*   device calls).                                                        *)
(***************************************************************************)
EXTENDS Integers, Sequences, FiniteSets, TLC, Json, IOUtils

Cases == ndJsonDeserialize(IOEnv.TRACE_FILE)

VARIABLE c
Init == c \in {Cases[k] : k \in 1..Len(Cases)}
Next == UNCHANGED c
Spec == Init /\ [][Next]_c

Motors == 1..Len(c.init)
Promised == c.plan \in {"rel_list_scan", "rel_scan", "rel_grid_scan"}      \* plans that reset positions at the end

RECURSIVE Dedup(_)
Dedup(s) == IF Len(s) <= 1 THEN s
            ELSE IF s[1] = s[2] THEN Dedup(Tail(s)) ELSE <<s[1]>> \o Dedup(Tail(s))
RECURSIVE SetsOf(_, _)
SetsOf(s, j) == IF s = <<>> THEN <<>> ELSE (IF s[1][1] = j THEN <<s[1][2]>> ELSE <<>>) \o SetsOf(Tail(s), j)
IsPrefix(a, b) == Len(a) <= Len(b) /\ \A k \in 1..Len(a) : a[k] = b[k]
Linspace(a, b, n) == IF n = 1 THEN <<a>> ELSE [k \in 1..n |-> a + ((k - 1) * (b - a)) \div (n - 1)]

\* requested offsets of motor j, in the order the documented trajectory visits them
Req(j) ==
    CASE c.plan \in {"rel_set", "mvr"} -> <<c.args[j][1]>>
      [] c.plan = "rel_list_scan" -> c.args[j]
      [] c.plan = "rel_scan" -> Linspace(c.args[j][1], c.args[j][2], c.num)
      [] c.plan = "rel_grid_scan" ->
            LET P1 == Linspace(c.args[1][1], c.args[1][2], c.args[1][3])
                P2 == Linspace(c.args[2][1], c.args[2][2], c.args[2][3])
                n2 == Len(P2)
            IN [t \in 1..(Len(P1) * n2) |-> IF j = 1 THEN P1[((t - 1) \div n2) + 1] ELSE P2[((t - 1) % n2) + 1]]

CleanupRan == c.ending # "closed" /\ ~c.finfault
S(j) == SetsOf(c.sets, j)
\* the commands of the plan body: everything but the final reset command
Body(j) == IF Promised /\ CleanupRan /\ S(j) # <<>> THEN SubSeq(S(j), 1, Len(S(j)) - 1) ELSE S(j)
Offsets(j) == [k \in 1..Len(Body(j)) |-> Body(j)[k] - c.init[j]]

\* every commanded position is initial + requested offset, in trajectory order (a motor that does not change may be
\* commanded again or not: consecutive repetitions are not distinguished)
C24_OffsetsFromInitial ==
    \A j \in Motors :
        /\ c.finfault \/ IsPrefix(Dedup(Offsets(j)), Dedup(Req(j)))
        /\ c.ending = "return" => Dedup(Offsets(j)) = Dedup(Req(j))
\* ended with cleanup: every motor that was commanded is commanded back to where it was, last
C24_ResetCommanded ==
    (Promised /\ CleanupRan) => \A j \in Motors : S(j) # <<>> => S(j)[Len(S(j))] = c.init[j]
\* ... and that is where the devices are afterwards
C24_FinalPositions ==
    /\ (Promised /\ CleanupRan) => \A j \in Motors : c.final[j] = c.init[j]
    /\ (~Promised /\ c.ending = "return") => \A j \in Motors : c.final[j] = c.init[j] + Req(j)[1]

AllSeen == TLCGet("stats").distinct = Cardinality({Cases[k] : k \in 1..Len(Cases)})
=============================================================================
