----------------------------- MODULE PrintfTrace -----------------------------
(* File names produced by the real multi-file consolidator for templates      *)
(* outside the TLC domain (larger widths / precisions, random indices, flags  *)
(* in any order and repeated), recorded by the harness as                     *)
(*   [flags, width, prec, n, out]   out = ASCII codes, <<0>> = raised         *)
(* Each recorded string must equal CFormat (Conforms) and satisfy every       *)
(* clause invariant of Printf.tla.  A record that instead equals one of the   *)
(* as-found alternatives is accepted as the known finding it names and        *)
(* printed (<<"KF", case, defects>>); anything else violates Conforms.        *)
EXTENDS Printf

Cases == ndJsonDeserialize(IOEnv.TRACE_FILE)
VARIABLE cid
tvars == <<vars, cid>>

AsSet(s) == {s[i] : i \in 1..Len(s)}

TraceInit == \E k \in 1..Len(Cases) :
                /\ cid = k
                /\ flags = AsSet(Cases[k].flags)
                /\ width = Cases[k].width
                /\ prec = Cases[k].prec
                /\ n = Cases[k].n
                /\ out = Cases[k].out
TraceSpec == TraceInit /\ [][UNCHANGED tvars]_tvars

Exact == out = CFormat(flags, width, prec, n)
Known == ~Exact /\ \E a \in Alts(flags, width, prec, n) : a.out = out
KnownPrinted == \E a \in Alts(flags, width, prec, n) : a.out = out /\ PrintT(<<"KF", cid, SetToSeq(a.d)>>)

Conforms == Exact \/ KnownPrinted
T_Alphabet == Known \/ I_Alphabet
T_Value == Known \/ I_Value
T_DigitsContiguous == Known \/ I_DigitsContiguous
T_MinWidth == Known \/ I_MinWidth
T_Precision == Known \/ I_Precision
T_ExactLength == Known \/ I_ExactLength
T_Sign == Known \/ I_Sign
T_LeftJustify == Known \/ I_LeftJustify
T_ZeroFlag == Known \/ I_ZeroFlag
AllSeen == TLCGet("stats").distinct = Len(Cases)
=============================================================================
