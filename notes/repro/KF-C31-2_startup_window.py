import threading, time
from bluesky import RunEngine, Msg
from bluesky.suspenders import SuspendBoolHigh
from bluesky.utils import DuringTask

class Sig:
    name = "sig"
    def __init__(self): self.v = 0; self.cbs = []
    def subscribe(self, cb, event_type=None, run=True):
        self.cbs.append(cb)
        if run: cb(value=self.v)
    def clear_sub(self, cb): self.cbs.remove(cb)
    def put(self, v):
        self.v = v
        for cb in list(self.cbs): cb(value=v)
    def get(self): return self.v

RE = RunEngine({}, context_managers=[], during_task=DuringTask())
sig = Sig()
sus = SuspendBoolHigh(sig)
RE.install_suspender(sus)
ev, ev2 = threading.Event(), threading.Event()
def pre(gen):
    ev.set(); ev2.wait(5); return gen
RE.preprocessors.append(pre)
def T():
    ev.wait(5); sig.put(1); ev2.set()
threading.Thread(target=T, daemon=True).start()
seen = []
def plan():
    for i in range(3):
        seen.append((i, sus.tripped, str(RE.state)))
        yield Msg("null")
RE(plan())
print("plan messages processed while suspender tripped:", seen, "final tripped:", sus.tripped)
print("FAIL" if any(t for _, t, _ in seen) else "PASS")
