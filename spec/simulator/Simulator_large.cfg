CONSTANTS
  Cmds = {"wait", "wait_for", "set"}
  Objs = {"x", "y"}
  HA = 2
  PA = 4
  HB = 3
  PB = 1
  BCmds = {"wait", "wait_for", "set"}
  BObjs = {"x", "y"}
  HC = 1
  PC = 4
  LimPlan = 3
  LimR = 1
  SetR = 2
SPECIFICATION Spec
INVARIANT TypeOK
INVARIANT C32_MessagesReturned
INVARIANT C32_MatchingHandlerAnswers
INVARIANT C32_NewestWins
INVARIANT C32_AppendedLoses
INVARIANT C32_PrependedOverridesOlder
INVARIANT C32_ReturnRecorded
INVARIANT C32_LimitsRaiseIffOffending
POSTCONDITION DumpCases
