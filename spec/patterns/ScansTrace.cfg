CONSTANTS
  Profiles <- ProfilesNone
SPECIFICATION TraceSpec
INVARIANT T_ReadingAtThePoint
INVARIANT T_OneCheckpointPerPoint
INVARIANT T_MdRecorded
INVARIANT T_MdConsistentAtStart
POSTCONDITION TraceAccepted
