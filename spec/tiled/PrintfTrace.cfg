CONSTANTS
  MaxW = 0
  Indices = {}
SPECIFICATION TraceSpec
INVARIANT Conforms
INVARIANT T_Alphabet
INVARIANT T_Value
INVARIANT T_DigitsContiguous
INVARIANT T_MinWidth
INVARIANT T_Precision
INVARIANT T_ExactLength
INVARIANT T_Sign
INVARIANT T_LeftJustify
INVARIANT T_ZeroFlag
POSTCONDITION AllSeen
