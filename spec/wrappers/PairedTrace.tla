---------------------------- MODULE PairedTrace ----------------------------
(* Batch validation of interface traces of the real paired-action / relative wrappers against Paired.tla.       *)
(* TRACE_FILE: ndjson, one record per line: [cfg, h (interface events), ledger (device-level calls that          *)
(* succeeded while the wrapper ran, in order; <<>> when the driver was not a RunEngine), led (BOOLEAN)].         *)
(* Driver operations and reactions of the wrapped plan are taken from the trace; everything the wrapper emits   *)
(* is dictated by the specification.  All C23 / C24 invariants are evaluated in every state; a trace that is     *)
(* only explained by the as-coded alternative of an open finding is recognisable from <<"END", trace, kf>>.    *)
EXTENDS Paired, IOUtils

Traces == ndJsonDeserialize(IOEnv.TRACE_FILE)

VARIABLES tid, l
tvars == <<vars, tid, l>>

TraceInit == /\ tid \in 1..Len(Traces)
             /\ cfg = Traces[tid].cfg
             /\ w = W0
             /\ p = [st |-> "fresh", n |-> 0]
             /\ pos = cfg.p0
             /\ mon = Mon0
             /\ kf = 0
             /\ nops = 0
             /\ hist = <<>>
             /\ l = 1
             /\ TLCSet(tid, 1)

Ev == Traces[tid].h[l]

Step == \/ Ev.g = "drv" /\ Drive(Ev.op, Ev.a)
        \/ Ev.g = "p" /\ CallP(R(Ev.r, Ev.v))
        \/ Ev.g = "out" /\ Out

\* device ledger (RunEngine executions): the calls the devices saw are exactly the device messages the engine
\* acknowledged, in order -- so the pairing shown on messages holds on the devices
LedgerCmds == {"stage", "unstage", "set", "monitor", "unmonitor", "kickoff", "complete", "collect",
               "install_suspender", "remove_suspender"}
IsAcked(h, k) == /\ h[k].g = "out" /\ h[k].r = "yield" /\ h[k].v.m \in LedgerCmds
                 /\ h[k + 1].g = "drv" /\ h[k + 1].op = "send"
Acked(h) == IF Len(h) < 2 THEN <<>>
            ELSE LET ks == SelectSeq([k \in 1..(Len(h) - 1) |-> k], LAMBDA k : IsAcked(h, k))
                 IN [j \in 1..Len(ks) |-> h[ks[j]].v]
LedgerMatches == Traces[tid].led => Traces[tid].ledger = Acked(Traces[tid].h)

TraceNext == /\ l <= Len(Traces[tid].h)
             /\ Step
             /\ hist'[Len(hist')] = Ev
             /\ l' = l + 1
             /\ UNCHANGED tid
             /\ (l = Len(Traces[tid].h)) => LedgerMatches       \* the last event is accepted only with a matching ledger
             /\ TLCSet(tid, l + 1)
             /\ (l = Len(Traces[tid].h)) => PrintT(<<"END", tid, kf'>>)      \* which alternative(s) explain the trace

TraceSpec == TraceInit /\ [][TraceNext]_tvars

Progress(t) == TLCGet(t)
TraceAccepted ==
    LET bad == {t \in 1..Len(Traces) : Progress(t) # Len(Traces[t].h) + 1}
    IN /\ \A t \in bad : PrintT(<<"REJECTED", t, Progress(t)>>)
       /\ bad = {}
=============================================================================
