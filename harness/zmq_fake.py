"""In-memory stand-in for the `zmq` and `zmq.asyncio` modules (C33).

Only what bluesky.callbacks.zmq.Publisher / RemoteDispatcher use is provided, through the documented `zmq=` and
`zmq_asyncio=` constructor parameters.  A `Hub` plays the running forwarder proxy: whatever a PUB socket connected to
its in-port sends is handed, unchanged and in order, to every SUB socket connected to its out-port whose subscription
filter matches (lossless FIFO transport -- an assumption of the check).  No sockets, threads or processes.

    hub = Hub(5567, 5568)
    pub = Publisher(("localhost", 5567), prefix=b"a", zmq=hub.zmq)
    d = RemoteDispatcher(("localhost", 5568), prefix=b"a", loop=loop, zmq=hub.zmq, zmq_asyncio=hub.zmq_asyncio)

`hub.raw()` gives a PUB socket for the adversary (arbitrary frames).  `hub.terminate()` makes every pending and future
`recv()` of the SUB sockets raise asyncio.CancelledError (what cancelling the polling task does).
"""
import asyncio
import collections
import re


class Hub:
    def __init__(self, in_port=5567, out_port=5568):
        self.in_port = in_port
        self.out_port = out_port
        self.subs = []          # SUB sockets connected to out_port (and not closed)
        self.all_subs = []      # every SUB socket that ever connected to out_port
        self.forwarded = []     # every frame that went through, in order
        self.terminated = False
        self.zmq = FakeZmq(self)
        self.zmq_asyncio = FakeZmqAsyncio(self)

    def forward(self, frame):
        frame = bytes(frame)
        self.forwarded.append(frame)
        for s in list(self.subs):
            s._offer(frame)

    def raw(self):
        s = self.zmq.Context().socket(self.zmq.PUB)
        s.connect("tcp://localhost:%d" % self.in_port)
        return s

    def terminate(self):
        self.terminated = True
        for s in list(self.subs):
            s._terminate()


def _port(url):
    m = re.fullmatch(r"tcp://([^:]*):(\d+)", url)
    if not m:
        raise ValueError(f"bad url {url!r}")
    return int(m.group(2))


class _Context:
    def __init__(self, mod, is_async):
        self._mod = mod
        self._async = is_async
        self._sockets = []
        self.closed = False

    def socket(self, kind):
        s = _Socket(self._mod.hub, kind, self._async)
        self._sockets.append(s)
        return s

    def destroy(self, linger=None):
        for s in self._sockets:
            s.close()
        self.closed = True

    term = destroy


class _Socket:
    def __init__(self, hub, kind, is_async):
        self.hub = hub
        self.kind = kind
        self._async = is_async
        self.port = None
        self.filters = []
        self.queue = collections.deque()
        self.waiter = None
        self.closed = False
        self.nrecv = 0          # frames handed to the reader so far

    # -- both kinds
    def connect(self, url):
        self.port = _port(url)
        if self.kind == FakeZmq.SUB and self.port == self.hub.out_port:
            self.hub.subs.append(self)
            self.hub.all_subs.append(self)

    def close(self, linger=None):
        self.closed = True
        if self in self.hub.subs:
            self.hub.subs.remove(self)

    def setsockopt_string(self, opt, val):
        if opt == FakeZmq.SUBSCRIBE:
            self.filters.append(val.encode())

    def setsockopt(self, opt, val):
        if opt == FakeZmq.SUBSCRIBE:
            self.filters.append(bytes(val))

    # -- PUB
    def send(self, frame, flags=0):
        if self.kind != FakeZmq.PUB:
            raise RuntimeError("send on a non-PUB socket")
        if self.closed:
            raise RuntimeError("send on a closed socket")
        if not isinstance(frame, (bytes, bytearray, memoryview)):
            raise TypeError("frames are bytes")
        if self.port == self.hub.in_port:       # anything else is connected to nothing: dropped, like 0MQ
            self.hub.forward(frame)

    # -- SUB
    def _offer(self, frame):
        if self.closed or not any(frame.startswith(f) for f in self.filters):
            return
        self.queue.append(frame)
        self._wake()

    def _wake(self):
        if self.waiter is not None and not self.waiter.done() and self.queue:
            self.waiter.set_result(None)

    def _terminate(self):
        if self.waiter is not None and not self.waiter.done():
            self.waiter.cancel()

    @property
    def idle(self):
        """the reader is blocked in recv() and nothing is queued"""
        return self.waiter is not None and not self.waiter.done() and not self.queue

    def recv(self, flags=0):
        if self.kind != FakeZmq.SUB:
            raise RuntimeError("recv on a non-SUB socket")
        if not self._async:
            if not self.queue:
                raise BlockingIOError("nothing queued (the in-memory stand-in never blocks)")
            self.nrecv += 1
            return self.queue.popleft()
        return self._recv_async()

    async def _recv_async(self):
        while not self.queue:
            if self.hub.terminated:
                raise asyncio.CancelledError()
            self.waiter = asyncio.get_running_loop().create_future()
            try:
                await self.waiter
            finally:
                self.waiter = None
        self.nrecv += 1
        return self.queue.popleft()


class FakeZmq:
    """stands for the `zmq` module"""
    PUB = 1
    SUB = 2
    SUBSCRIBE = 6
    FORWARDER = 2

    def __init__(self, hub):
        self.hub = hub

    def Context(self, *a, **k):
        return _Context(self, False)


class FakeZmqAsyncio:
    """stands for the `zmq.asyncio` module"""

    def __init__(self, hub):
        self.hub = hub

    def Context(self, *a, **k):
        return _Context(self, True)
