----------------------------- MODULE ScansTrace -----------------------------
(***************************************************************************)
(* Batch validation of message streams recorded from the real plans (scan, *)
(* inner_product_scan, list_scan, grid_scan, list_grid_scan, scan_nd,      *)
(* log_scan, x2x_scan) on larger random inputs against Scans.tla.          *)
(* TRACE_FILE: ndjson, one recorded execution per line:                    *)
(*   fn, kind ("inner" | "outer" | "x2x" | "log"), mode ("lin": axes =     *)
(*   (start, stop, num) per axis, the positions are Linspace; "list": the  *)
(*   position lists given to the plan), snake, init (initial position per  *)
(*   motor; relative plans move to init + point), mdchk ("np": the plan    *)
(*   records num_points; "grid": also shape and extents), md (what the     *)
(*   start document recorded) and ev, the messages between open_run and    *)
(*   close_run as [c, m, v] (m: motors 1..n, detector n+1; v: exact        *)
(*   rational bound to the float by the harness with tolerance 1e-12).     *)
(* The acceptor follows the per-point skeleton of Scans!PointMsgs: an      *)
(* event is accepted only if the skeleton allows it next and a 'set'       *)
(* carries the expected coordinate; 'wait' after the moves is accepted     *)
(* only when every motor stands on the expected point.                     *)
(***************************************************************************)
EXTENDS Scans

Traces == ndJsonDeserialize(IOEnv.TRACE_FILE)

VARIABLES tid, l, pt, ph, pos, rd
tvars == <<vars, tid, l, pt, ph, pos, rd>>

RMin(s) == CHOOSE x \in {s[k] : k \in 1..Len(s)} : \A k \in 1..Len(s) : RLe(x, s[k])
RMax(s) == CHOOSE x \in {s[k] : k \in 1..Len(s)} : \A k \in 1..Len(s) : RLe(s[k], x)

TAxes(tr) == IF tr.kind = "x2x"
             THEN LET a == tr.axes[1] IN <<a, Axis(RDivI(a.start, 2), RDivI(a.stop, 2), a.num)>>
             ELSE tr.axes
TLin(tr) == IF tr.mode = "lin"
            THEN LET ax == TAxes(tr) IN [i \in 1..Len(ax) |-> Linspace(ax[i].start, ax[i].stop, ax[i].num)]
            ELSE tr.lists
TCase(tr) == [kind |-> tr.kind,
              axes |-> IF tr.mode = "lin" THEN TAxes(tr)
                       ELSE [i \in 1..Len(tr.lists) |-> Axis(RMin(tr.lists[i]), RMax(tr.lists[i]), Len(tr.lists[i]))],
              snake |-> tr.snake]
NoPos == <<0, 0>>

TraceInit == /\ tid \in 1..Len(Traces)
             /\ case = TCase(Traces[tid])
             /\ pts = PointsFrom(Traces[tid].kind = "outer", TLin(Traces[tid]), Traces[tid].snake)
             /\ md = Traces[tid].md
             /\ ord = IF Traces[tid].kind = "outer" THEN Order(TCase(Traces[tid])) ELSE <<>>
             /\ blk = 0
             /\ l = 1 /\ pt = 0 /\ ph = "start" /\ rd = {}
             /\ pos = [i \in 1..Len(TLin(Traces[tid])) |-> NoPos]
             /\ TLCSet(tid, 1)

T == Traces[tid]
E == T.ev[l]
Target(i) == RAdd(T.init[i], pts[pt][i])

\* what the start document must say
SameExtent(a, b) == a = b \/ a = <<b[2], b[1]>>
MdOK == /\ md.num_points = Len(pts)
        /\ T.mdchk = "grid" =>
            /\ md.shape = Lens(case)
            /\ Len(md.extents) = N
            /\ \A i \in 1..N : SameExtent(md.extents[i], <<case.axes[i].start, case.axes[i].stop>>)

Step ==
    \/ /\ E.c = "open" /\ ph = "start" /\ MdOK
       /\ ph' = "idle" /\ UNCHANGED <<pt, pos, rd>>
    \/ /\ E.c = "checkpoint" /\ ph = "idle" /\ pt < Len(pts)
       /\ pt' = pt + 1 /\ ph' = "moving" /\ UNCHANGED <<pos, rd>>
    \/ /\ E.c = "set" /\ ph = "moving" /\ E.m \in 1..N /\ E.v = Target(E.m)
       /\ pos' = [pos EXCEPT ![E.m] = E.v] /\ UNCHANGED <<pt, ph, rd>>
    \/ /\ E.c = "wait" /\ ph = "moving" /\ \A i \in 1..N : pos[i] = Target(i)
       /\ ph' = "settled" /\ UNCHANGED <<pt, pos, rd>>
    \/ /\ E.c = "trigger" /\ ph \in {"settled", "trig"} /\ E.m \in 1..(N + 1)
       /\ ph' = "trig" /\ UNCHANGED <<pt, pos, rd>>
    \/ /\ E.c = "wait" /\ ph = "trig"
       /\ ph' = "ready" /\ UNCHANGED <<pt, pos, rd>>
    \/ /\ E.c = "create" /\ ph \in {"settled", "ready"}
       /\ ph' = "bundle" /\ rd' = {} /\ UNCHANGED <<pt, pos>>
    \/ /\ E.c = "read" /\ ph = "bundle" /\ E.m \in 1..(N + 1) /\ E.m \notin rd
       /\ rd' = rd \cup {E.m} /\ UNCHANGED <<pt, ph, pos>>
    \/ /\ E.c = "save" /\ ph = "bundle" /\ rd = 1..(N + 1)
       /\ ph' = "idle" /\ UNCHANGED <<pt, pos, rd>>
    \/ /\ E.c = "close" /\ ph = "idle" /\ pt = Len(pts)
       /\ ph' = "done" /\ UNCHANGED <<pt, pos, rd>>

TraceNext == /\ l <= Len(T.ev)
             /\ Step
             /\ l' = l + 1
             /\ UNCHANGED <<vars, tid>>
             /\ TLCSet(tid, l + 1)

TraceSpec == TraceInit /\ [][TraceNext]_tvars

\* evaluated in every state of every accepted prefix
T_ReadingAtThePoint == ph \in {"settled", "trig", "ready", "bundle"} => \A i \in 1..N : pos[i] = Target(i)
T_OneCheckpointPerPoint == pt <= Len(pts) /\ (ph = "done" => pt = Len(pts))
T_MdRecorded == ph # "start" => MdOK
\* Scans' own metadata invariant read on the recorded metadata (once per trace, when it has been accepted)
T_MdConsistentAtStart == (ph = "idle" /\ pt = 0) => C25_MdConsistent

Progress(t) == TLCGet(t)
TraceAccepted ==
    \A t \in 1..Len(Traces) :
        \/ Progress(t) = Len(Traces[t].ev) + 1
        \/ PrintT(<<"REJECTED", t, Progress(t)>>) /\ FALSE
=============================================================================
