"""Shared machinery of the RunEngine-core checks (C01-C16, C31, C40-C42): plan-program library shared by the TLA+
model and the Python harness, scenario sweeps over every scheduling point, corpus cache, batch trace validation with
property reporting, model-checking runs of REMC, signatures and verdicts.  DESIGN.md 4, 5, 7.
"""
from __future__ import annotations

import concurrent.futures as cf
import copy
import hashlib
import json
import os
import random
import re
import time
from pathlib import Path

from harness.tlc import OUT, SPEC, parse_value, run_tlc, write_cfg

SD = SPEC / "re"
SRC = Path(os.environ.get("VERIF_REPO_SRC", "/repo/src")) / "bluesky"

# ---------------------------------------------------------------------------------------------------------------
# plan programs (one definition -> python generator (harness/scen.py) and TLA+ constant (REMC.Prog))
# ---------------------------------------------------------------------------------------------------------------
def M(cmd, obj="", run="", a="", **kw):
    """message spec; `a` is the abstract argument the specification sees (stream name, group, flag, exit status)"""
    m = {"cmd": cmd}
    if obj:
        m["obj"] = obj
    if run:
        m["run"] = run
    args, kwargs = [], {}
    if cmd in ("create", "monitor", "declare_stream"):
        kwargs["name"] = a or ("primary" if cmd != "monitor" else obj)
        if kw.get("collect"):
            kwargs["collect"] = True
    elif cmd == "close_run" and a:
        kwargs["exit_status"] = a
    elif cmd in ("set", "trigger", "stage", "unstage", "kickoff", "complete", "prepare") and a:
        kwargs["group"] = a
    elif cmd == "wait":
        kwargs["group"] = a or None
    elif cmd == "rewindable":
        args = [None if a == "" else a == "T"]
    elif cmd == "pause":
        kwargs["defer"] = a == "T"
    elif cmd == "sleep":
        args = [1]
    elif cmd == "configure":
        args = [{}]
    elif cmd in ("install_suspender", "remove_suspender"):
        args = [a]          # the suspender's name: replaced by the object when the plan is built
    elif cmd == "collect" and a:
        kwargs["name"] = a          # collect into a pre-declared stream
    if cmd in ("set", "prepare"):
        args = [kw.get("value", 1)]
    if args:
        m["args"] = args
    if kwargs:
        m["kwargs"] = kwargs
    m["_a"] = a if cmd not in ("create", "monitor", "declare_stream") else kwargs["name"]
    return m


DEVICES = {"amotor": {"type": "AMotor"}, "apdet": {"type": "APaus"}, "det": {"type": "Det", "motors": ["motor"]}, "det2": {"type": "Det"}, "pdet": {"type": "Paus"}, "npdet": {"type": "Paus", "noreplay": True},
           "motor": {"type": "Motor"}, "motor2": {"type": "Motor"}, "mon1": {"type": "Mon"}, "fly1": {"type": "Flyer"}, "fly2": {"type": "Flyer"}}

_point = [M("create", a="primary"), M("read", "det"), M("save")]

PROGRAMS = {
    "simple": {"msgs": [M("open_run"), M("checkpoint")] + _point + [M("close_run")]},
    "two": {"msgs": [M("open_run"), M("checkpoint")] + _point + [M("checkpoint")] + _point + [M("close_run"), M("checkpoint"), M("null")]},
    "fin": {"msgs": [M("open_run"), M("checkpoint"), M("sleep"), M("clear_checkpoint"), M("null"), M("close_run"), M("null")],
            "kind": "finally", "try": [2, 5], "cleanup": [6, 6]},
    "move": {"msgs": [M("stage", "det"), M("open_run"), M("checkpoint"), M("set", "motor", a="g1"), M("wait", a="g1"),
                      M("trigger", "det", a="g2"), M("wait", a="g2"), M("create", a="primary"), M("read", "det"),
                      M("read", "motor"), M("save"), M("close_run"), M("unstage", "det")],
             "kind": "finalize", "try": [2, 11], "cleanup": [12, 13]},
    # ophyd-async style devices: stop()/pause()/resume() are coroutines that really suspend
    "amove": {"msgs": [M("stage", "det"), M("open_run"), M("checkpoint"), M("set", "amotor", a="g1"), M("wait", a="g1"),
                       M("trigger", "apdet", a="g2"), M("wait", a="g2"), M("create", a="primary"), M("read", "apdet"),
                       M("save"), M("close_run"), M("unstage", "det")],
              "kind": "finalize", "try": [2, 10], "cleanup": [11, 12]},
    "aopen": {"msgs": [M("open_run"), M("checkpoint"), M("set", "amotor", a="g1"), M("wait", a="g1"), M("create", a="primary"), M("read", "apdet"),
                       M("save"), M("null")]},     # run left open: closed by the engine's clean-up (which awaits amotor.stop())
    "mon": {"msgs": [M("open_run"), M("monitor", "mon1"), M("checkpoint"), M("sleep")] + _point +
                    [M("unmonitor", "mon1"), M("close_run")]},
    "monleft": {"msgs": [M("open_run"), M("monitor", "mon1"), M("checkpoint")] + _point + [M("close_run"), M("null")],
                "kind": "finalize", "try": [2, 6], "cleanup": [7, 7]},       # still monitored when the run is closed by the plan's clean-up
    "multi": {"msgs": [M("open_run", run="k1"), M("open_run", run="k2"), M("checkpoint"), M("create", run="k1", a="primary"),
                       M("read", "det", run="k1"), M("save", run="k1"), M("create", run="k2", a="primary"),
                       M("read", "det2", run="k2"), M("save", run="k2"), M("close_run", run="k1"), M("checkpoint"),
                       M("close_run", run="k2")]},
    # one of two concurrent runs is closed (an implicit checkpoint for ALL open runs) while the other one has events since the
    # last explicit checkpoint and goes on taking data afterwards
    "multi_close": {"msgs": [M("open_run", run="k1"), M("open_run", run="k2"), M("checkpoint"), M("create", run="k2", a="primary"),
                             M("read", "det2", run="k2"), M("save", run="k2"), M("close_run", run="k1"), M("null"), M("null"),
                             M("create", run="k2", a="primary"), M("read", "det2", run="k2"), M("save", run="k2"), M("close_run", run="k2")]},
    "defer": {"msgs": [M("open_run"), M("null"), M("checkpoint"), M("null"), M("null"), M("checkpoint"), M("null"), M("close_run")]},
    "norew": {"msgs": [M("open_run"), M("checkpoint"), M("null"), M("rewindable", a="F"), M("null"), M("null"),
                       M("rewindable", a="T"), M("null"), M("close_run")]},
    "norew_save": {"msgs": [M("open_run"), M("checkpoint")] + _point + [M("rewindable", a="F")] + _point + _point + [M("rewindable", a="T")]
                           + _point + [M("null"), M("null"), M("checkpoint")] + _point + [M("close_run")]},
    "paus": {"msgs": [M("stage", "pdet"), M("open_run"), M("checkpoint"), M("trigger", "pdet", a="g1"), M("wait", a="g1"),
                      M("create", a="primary"), M("read", "pdet"), M("save"), M("close_run"), M("unstage", "pdet")]},
    "err": {"msgs": [M("open_run"), M("checkpoint"), M("null"), M("null"), M("close_run", a="fail"), M("null")],
            "kind": "finally", "try": [2, 4], "cleanup": [5, 5], "raise_at": 4},
    # a non-resumable section in which implicit-checkpoint commands are executed (they must NOT make the plan resumable again);
    # the run is left open: the engine closes it, with the status the way the call ended dictates
    "nores_open": {"msgs": [M("open_run"), M("checkpoint"), M("clear_checkpoint"), M("stage", "det"), M("null"), M("unstage", "det"), M("null")]},
    # ... and in which rewinding is switched off and on again (rewindable is not resumable)
    "nores_rew": {"msgs": [M("open_run"), M("checkpoint"), M("clear_checkpoint"), M("rewindable", a="F"), M("null"), M("rewindable", a="T"), M("null"), M("null")]},
    # a non-resumable section that is ended by a checkpoint AFTER data has been taken: what a later rewind restores must be the
    # numbering at that checkpoint
    "nores_then_ckpt": {"msgs": [M("open_run"), M("checkpoint")] + _point + [M("clear_checkpoint"), M("null"), M("checkpoint"), M("null")] + _point
                                + [M("close_run")]},
    # an unstage of a device the plan did not stage in this call (still an implicit checkpoint)
    "unstage_only": {"msgs": [M("open_run"), M("checkpoint"), M("null"), M("unstage", "det"), M("null"), M("null"), M("close_run")]},
    # a device is re-configured right after a checkpoint, data is taken, then the interruption
    "cfg_late": {"msgs": [M("open_run"), M("checkpoint")] + _point + [M("checkpoint"), M("configure", "det")] + _point + [M("null")] + _point
                         + [M("close_run")]},
    # the plan pauses itself in a non-resumable section after having set a device whose stop() really awaits
    "aselfpause_nores": {"msgs": [M("open_run"), M("checkpoint"), M("set", "amotor", a="g1"), M("wait", a="g1"), M("clear_checkpoint"),
                                  M("pause", a="F"), M("null"), M("null")]},
    # a save that is rejected (the stream's device set differs from its descriptor's), after which the plan's clean-up takes
    # another reading: the rejected bundle must not leak into it
    "badsave_fin": {"msgs": [M("open_run"), M("checkpoint")] + _point + [M("create", a="primary"), M("read", "det2"), M("save"),
                             M("create", a="baseline"), M("read", "motor"), M("save"), M("close_run")],
                    "kind": "finally", "try": [2, 8], "cleanup": [9, 12]},
    # a monitor that is removed part-way through the run; the run goes on (interruptions keep being recorded)
    "mon_then": {"msgs": [M("open_run"), M("monitor", "mon1"), M("checkpoint")] + _point + [M("unmonitor", "mon1"), M("null"), M("null")] + _point
                         + [M("null"), M("close_run")]},
    # every message with a non-None response is followed by a null that a preprocessor drops (scenario option drop=["null"])
    "dropper": {"msgs": [M("open_run"), M("null"), M("checkpoint"), M("set", "motor", a="g1"), M("null"), M("wait", a="g1"), M("null"),
                         M("trigger", "det", a="g2"), M("null"), M("wait", a="g2"), M("create", a="primary"), M("read", "det"), M("null"), M("save"),
                         M("close_run"), M("null")]},
    # ... the toggle made inside the non-resumable section must be in force after the checkpoint that ends the section
    "nores_rew_ckpt": {"msgs": [M("open_run"), M("checkpoint"), M("clear_checkpoint"), M("rewindable", a="F"), M("checkpoint"), M("null"), M("null"),
                                M("rewindable", a="T"), M("null"), M("null"), M("close_run")]},
    # a per-call subscription made by the plan: an implicit checkpoint (nothing before it is replayed), answered with the token
    "tmpsub": {"msgs": [M("open_run"), M("checkpoint")] + _point + [M("null"), M("subscribe"), M("null")] + _point + [M("null"), M("close_run")]},
    # ... removed again by the plan before the second data point / left for the engine, with a run opened after the subscription
    "tmpsub_un": {"msgs": [M("open_run"), M("checkpoint"), M("subscribe"), M("subscribe")] + _point + [M("null"), M("unsubscribe"), M("null")] + _point
                          + [M("close_run"), M("unsubscribe"), M("null"), M("open_run"), M("checkpoint")] + _point + [M("close_run")]},
    # the plan ends with its run still open: the engine's own RunStop (emitted by its clean-up) must still reach the plan's consumer
    "tmpsub_left": {"msgs": [M("subscribe"), M("open_run"), M("checkpoint")] + _point + [M("null")]},
    "tmpsub_pre": {"msgs": [M("subscribe"), M("null"), M("open_run"), M("checkpoint")] + _point + [M("sleep"), M("null"), M("close_run"), M("null")]},
    "openonly": {"msgs": [M("open_run"), M("checkpoint"), M("sleep"), M("null")]},
    # pauses requested by the plan itself (Msg('pause')): resumable, deferred, and in a non-resumable section with the run left open
    "selfpause": {"msgs": [M("open_run"), M("checkpoint"), M("null"), M("pause", a="F"), M("null"), M("checkpoint"), M("pause", a="T"), M("null"),
                           M("checkpoint"), M("null"), M("close_run")]},
    "selfpause_nores": {"msgs": [M("open_run"), M("checkpoint"), M("null"), M("clear_checkpoint"), M("null"), M("pause", a="F"), M("null"), M("null")]},
    # ... with clean-up code of several messages (all of it has to run)
    "selfpause_nores_fin": {"msgs": [M("open_run"), M("checkpoint"), M("stage", "det"), M("clear_checkpoint"), M("null"), M("pause", a="F"), M("null"),
                                     M("null"), M("unstage", "det"), M("close_run")],
                            "kind": "finalize", "try": [3, 7], "cleanup": [8, 10]},
    "selfdefer_nores": {"msgs": [M("open_run"), M("checkpoint"), M("pause", a="T"), M("clear_checkpoint"), M("null"), M("checkpoint"), M("null")]},
    # bundle / descriptor / run-key behaviour (monitored; commands beyond RE.tla's vocabulary are not conformance-checked)
    "collide": {"msgs": [M("open_run"), M("checkpoint"), M("create", a="primary"), M("read", "det"), M("read", "det"), M("save"), M("close_run")]},
    # the colliding reading is not adjacent to the one it collides with
    "collide3": {"msgs": [M("open_run"), M("checkpoint"), M("create", a="primary"), M("read", "det"), M("read", "det2"), M("read", "det"), M("save"),
                          M("close_run")]},
    "emptysave": {"msgs": [M("open_run"), M("checkpoint"), M("create", a="primary"), M("save"), M("create", a="primary"), M("read", "det"), M("drop"),
                           M("create", a="baseline"), M("read", "det2"), M("save"), M("checkpoint"),
                           M("create", a="primary"), M("read", "det"), M("read", "motor"), M("save"), M("create", a="primary"), M("read", "motor"), M("drop"),
                           M("create", a="primary"), M("read", "det"), M("read", "motor"), M("save"), M("close_run")]},
    "ckptinb": {"msgs": [M("open_run"), M("checkpoint"), M("create", a="primary"), M("read", "det"), M("checkpoint"), M("save"), M("close_run")]},
    "dupopen": {"msgs": [M("open_run", run="k1"), M("checkpoint"), M("open_run", run="k1"), M("close_run", run="k1")]},
    "cfg": {"msgs": [M("open_run"), M("checkpoint"), M("create", a="primary"), M("read", "det"), M("save"), M("configure", "det"),
                     M("checkpoint"), M("create", a="primary"), M("read", "det"), M("save"), M("create", a="baseline"), M("read", "det2"), M("save"),
                     M("configure", "det2"), M("create", a="baseline"), M("read", "det2"), M("save"), M("close_run")]},
    "cfgdrop": {"msgs": [M("open_run"), M("checkpoint"), M("create", a="primary"), M("read", "det"), M("drop"), M("configure", "det"),
                         M("create", a="primary"), M("read", "det"), M("save"), M("create", a="baseline"), M("read", "det"), M("read", "det2"), M("save"),
                         M("close_run")]},
    # a monitor stream of one run named like an ordinary stream of a concurrent run
    "multimon": {"msgs": [M("open_run", run="k1"), M("open_run", run="k2"), M("monitor", "mon1", run="k1", a="primary"), M("checkpoint"),
                          M("create", run="k2", a="primary"), M("read", "det2", run="k2"), M("save", run="k2"), M("checkpoint"),
                          M("create", run="k2", a="primary"), M("read", "det2", run="k2"), M("save", run="k2"), M("null"), M("null"),
                          M("checkpoint"), M("create", run="k2", a="primary"), M("read", "det2", run="k2"), M("save", run="k2"),
                          M("unmonitor", "mon1", run="k1"), M("close_run", run="k1"), M("close_run", run="k2")]},
    # a suspender installed / removed by the plan itself (Msg('install_suspender') / Msg('remove_suspender'))
    "susmsg": {"msgs": [M("open_run"), M("checkpoint"), M("install_suspender", a="s1")] + _point + [M("checkpoint"), M("remove_suspender", a="s1"),
                        M("null"), M("close_run")]},
    # flyers (kickoff / complete / collect; old-style describe_collect, one event page per collect)
    "fly": {"msgs": [M("open_run"), M("checkpoint"), M("kickoff", "fly1", a="g1"), M("wait", a="g1"), M("complete", "fly1", a="g2"), M("wait", a="g2"),
                     M("collect", "fly1"), M("close_run")]},
    "fly_prep": {"msgs": [M("open_run"), M("checkpoint"), M("prepare", "fly1", a="g0"), M("wait", a="g0"), M("kickoff", "fly1", a="g1"), M("wait", a="g1"),
                          M("complete", "fly1", a="g2"), M("wait", a="g2"), M("collect", "fly1"), M("null"), M("close_run")]},
    # never collected by the plan, run left open: the engine's clean-up collects (backstop_collect) and closes the run
    "fly_left": {"msgs": [M("open_run"), M("checkpoint"), M("kickoff", "fly1", a="g1"), M("wait", a="g1"), M("null"), M("null")]},
    # the plan's own clean-up closes the run (what run_wrapper does around bp.fly)
    "fly_fin": {"msgs": [M("open_run"), M("checkpoint"), M("kickoff", "fly1", a="g1"), M("wait", a="g1"), M("sleep"), M("complete", "fly1", a="g2"),
                         M("wait", a="g2"), M("collect", "fly1"), M("close_run")],
                "kind": "finally", "try": [2, 8], "cleanup": [9, 9]},
    # collected twice, data taken in between: the flyer's stream keeps counting, a rewind re-takes only what came after the checkpoint
    "fly_twice": {"msgs": [M("open_run"), M("checkpoint"), M("kickoff", "fly1", a="g1"), M("wait", a="g1"), M("collect", "fly1"), M("checkpoint")] + _point
                          + [M("kickoff", "fly1", a="g1"), M("wait", a="g1"), M("null"), M("collect", "fly1"), M("null"), M("close_run")]},
    # two concurrent runs, a monitor in the first, one flyer in each, nothing collected or closed by the plan
    "fly_multi": {"msgs": [M("open_run", run="k1"), M("monitor", "mon1", run="k1"), M("open_run", run="k2"), M("checkpoint"),
                           M("kickoff", "fly1", run="k1", a="g1"), M("kickoff", "fly2", run="k2", a="g1"), M("wait", a="g1"), M("null")]},
    # pre-declared streams: the descriptor is emitted by declare_stream, a later save into the stream does not describe it again
    "declare": {"msgs": [M("open_run"), M("checkpoint"), M("declare_stream", "det", a="primary")] + _point + [M("checkpoint")] + _point + [M("null"), M("close_run")]},
    # ... declared again after data and a re-configuration
    "declare_mix": {"msgs": [M("open_run"), M("checkpoint"), M("declare_stream", "det2", a="baseline"), M("create", a="baseline"), M("read", "det2"), M("save"),
                             M("configure", "det2"), M("checkpoint"), M("declare_stream", "det2", a="baseline"), M("create", a="baseline"), M("read", "det2"), M("save"),
                             M("null"), M("close_run")],
                    "kind": "finally", "try": [2, 13], "cleanup": [14, 14]},
    # another object than the declared one is read into the stream: the save is rejected (uninterrupted only, as badsave_fin)
    "declare_bad": {"msgs": [M("open_run"), M("checkpoint"), M("declare_stream", "det2", a="baseline"), M("create", a="baseline"), M("read", "det"), M("save"),
                             M("null"), M("close_run")], "kind": "finally", "try": [2, 7], "cleanup": [8, 8]},
    # two statuses in one group that fail one after the other; the plan's clean-up waits for the group again: every failure must
    # be delivered at a wait on the group (fault scenario twofail|fault:...)
    "twofail": {"msgs": [M("open_run"), M("checkpoint"), M("set", "motor", a="g1"), M("set", "motor2", a="g1", value=2), M("wait", a="g1"), M("null"),
                         M("wait", a="g1"), M("checkpoint"), M("sleep"), M("close_run")],
                "kind": "finally", "try": [2, 6], "cleanup": [7, 10]},
    # the plan's clean-up itself fails (after an abort: the run is closed by the engine as failed, with the exception's text)
    "badclean": {"msgs": [M("open_run"), M("checkpoint"), M("sleep"), M("null"), M("null"), M("null")],
                 "kind": "finally", "try": [2, 4], "cleanup": [5, 6], "raise_at": 6},
    # a pre-declared collect stream, the flyer re-configured between two collects (monitored only: RE.tla does not model declared
    # collect streams): the second collect's events must reference the stream's new descriptor
    "fly_decl": {"msgs": [M("open_run"), M("checkpoint"), M("declare_stream", "fly1", a="fly1_stream", collect=True),
                          M("kickoff", "fly1", a="g1"), M("wait", a="g1"), M("collect", "fly1", a="fly1_stream"), M("checkpoint"),
                          M("configure", "fly1"), M("kickoff", "fly1", a="g1"), M("wait", a="g1"), M("collect", "fly1", a="fly1_stream"),
                          M("null"), M("close_run")]},
    # a detector whose pause() raises NoReplayAllowed: the engine forgets its rewind cache at the pause / suspension, nothing is
    # replayed afterwards -- in particular an open bundle goes on (create ... read ... <pause> ... read ... save)
    "npaus": {"msgs": [M("open_run"), M("checkpoint"), M("trigger", "npdet", a="g1"), M("wait", a="g1"), M("create", a="primary"), M("read", "npdet"),
                       M("read", "det"), M("null"), M("save"), M("checkpoint"), M("create", a="primary"), M("read", "npdet"), M("read", "det"), M("save"),
                       M("close_run")]},
    "cfginb": {"msgs": [M("open_run"), M("checkpoint"), M("create", a="primary"), M("read", "det"), M("configure", "det"), M("save"), M("close_run")]},
}
ASYNC_PLANS = {"amove", "aopen", "aselfpause_nores"}      # devices whose stop()/pause()/resume() are coroutines that really suspend
MULTI_RUN_PLANS = {"multi", "multimon", "dupopen", "multi_close", "fly_multi"}
FLY_PLANS = {"fly_decl", "fly", "fly_prep", "fly_left", "fly_fin", "fly_twice", "fly_multi"}
NOT_CONFORMANCE = {"dropper", "fly_decl"}
NOREPLAY_PLANS = {"npaus"}        # use a device whose pause() raises NoReplayAllowed        # use commands RE.tla does not model (yet): monitored only

BUILTINS = {
    "count": {"builtin": "count", "args": {"dets": ["det"], "num": 2}},
    "scan": {"builtin": "scan", "args": {"dets": ["det"], "motor": "motor", "num": 2}},
    "rel_scan": {"builtin": "rel_scan", "args": {"dets": ["det"], "motor": "motor", "num": 2}},
    "grid_scan": {"builtin": "grid_scan", "args": {"dets": ["det"], "m1": "motor", "m2": "motor2", "n1": 2, "n2": 2, "snake": True}},
}

REQ_KINDS = ["pause", "defer", "suspend", "abort", "stop", "halt"]
DECISIONS = ["resume", "abort", "stop", "halt"]


def prog_plan(name):
    return {"prog": _strip(PROGRAMS[name])} if name in PROGRAMS else BUILTINS[name]


def _strip(p):
    q = copy.deepcopy(p)
    for m in q["msgs"]:
        m.pop("_a", None)
    return q


def tla_msg(m):
    return f'M("{m["cmd"]}", "{m.get("obj", "")}", "{m.get("run", "")}", "{m.get("_a", "")}")'


def prog_tla(p):
    msgs = ", ".join(tla_msg(m) for m in p["msgs"])
    t0, t1 = p.get("try", [0, 0])
    c0, c1 = p.get("cleanup", [1, 0])
    return (f'[msgs |-> <<{msgs}>>, t0 |-> {t0}, t1 |-> {t1}, c0 |-> {c0}, c1 |-> {c1}, '
            f'kind |-> "{p.get("kind", "none")}", raiseAt |-> {p.get("raise_at", 0)}]')


# ---------------------------------------------------------------------------------------------------------------
# scenarios
# ---------------------------------------------------------------------------------------------------------------
def base_scenario(plan_name, record_intr=True, faults=None, delay=None):
    devs = copy.deepcopy(DEVICES)
    if faults:
        for d, f in faults.items():
            devs[d]["faults"] = dict(f)
    if delay:
        for d, v in delay.items():
            devs[d]["delay"] = v
    if plan_name == "fly_decl":
        devs["fly1"]["flat"] = True
    return {"id": plan_name, "plan_name": plan_name, "plan": prog_plan(plan_name), "devices": devs, "inject": [],
            "options": {"record_interruptions": record_intr}, "decisions": []}


def with_inject(base, injections, decisions, tag):
    sc = copy.deepcopy(base)
    sc["inject"] = injections
    sc["decisions"] = decisions
    sc["id"] = base["id"] + "|" + tag
    return sc


def run_one(sc):
    """worker: execute one scenario on the real RunEngine, return (id, events, summary) -- never raises"""
    from harness.scen import Scenario
    import contextlib
    import io
    try:
        with contextlib.redirect_stdout(io.StringIO()):     # (bluesky prints progress messages from several threads)
            s = Scenario(sc)
            ev = s.run()
        return {"id": sc["id"], "events": normalise(ev), "points": s.points, "outcomes": s.outcomes,
                "final": s.final_state, "sched": s.rec.sched,
                "error": "the execution exceeded the harness's hard time limit without the loop ever being quiescent" if getattr(s, "stalled", False) else None}
    except BaseException as e:  # noqa
        import traceback
        return {"id": sc["id"], "events": [], "points": 0, "outcomes": [], "final": "?", "sched": [],
                "error": f"{type(e).__name__}: {e}\n{traceback.format_exc()[-1500:]}"}


def normalise(events):
    """maximal runs of consecutive device calls with the same operation come from iterating a python set of devices:
    order them by device name (the specification emits them in DevOrder = sorted order)"""
    out = []
    i = 0
    n = len(events)
    while i < n:
        e = events[i]
        if e[0] == "dev" and e[2] in ("stop", "unstage", "clear_sub", "subscribe", "pause", "resume") and e[3] == "":
            j = i
            while j < n and events[j][0] == "dev" and events[j][2] == e[2] and events[j][3] == "":
                j += 1
            out += sorted(events[i:j], key=lambda x: x[1])
            i = j
        else:
            out.append(e)
            i += 1
    return out


def src_hash():
    h = hashlib.sha1()
    for f in sorted(SRC.rglob("*.py")):
        if "/tests/" in str(f):
            continue
        h.update(str(f.relative_to(SRC)).encode())
        h.update(f.read_bytes())
    for f in sorted((Path(__file__).parent).glob("*.py")):
        h.update(f.read_bytes())
    for f in sorted(SD.glob("*.tla")):
        h.update(f.read_bytes())
    return h.hexdigest()[:16]


def run_scenarios(scs, procs=None):
    procs = procs or int(os.environ.get("VERIF_PROCS", min(12, os.cpu_count() or 4)))
    if len(scs) < 8 or procs == 1:
        return [run_one(s) for s in scs]
    with cf.ProcessPoolExecutor(procs) as ex:
        return list(ex.map(run_one, scs, chunksize=max(1, len(scs) // (procs * 8))))


def sweep(plan_names, kinds, decisions, record_intr=True, second=None, extra=None, faults=None, delay=None,
          pre=None, limit_points=None):
    """single-request sweep: every scheduling point x request kind x caller decision"""
    out = []
    for pn in plan_names:
        base = base_scenario(pn, record_intr, faults=faults, delay=delay)
        b = run_one(base)
        if b["error"]:
            out.append((base, b))
            continue
        n = b["points"]
        scs = [base]
        for kind in kinds:
            decs = decisions if kind in ("pause", "defer") else decisions[:1]
            for dec in decs:
                for p in range(n + 1):
                    if limit_points and p not in limit_points:
                        continue
                    inj = [{"at": p, "kind": kind, "arg": "f1", **(pre or {})}]
                    if kind == "suspend":
                        inj.append({"at": p + 2, "kind": "release", "arg": "f1"})
                    if second:
                        inj += [dict(x, at=p + x["at"]) for x in second]
                    scs.append(with_inject(base, inj, [dec] * 3, f"{kind}@{p}|{dec}" + (extra or "")))
            # the window between RE(...) creating the run task and the task's first step (state still 'idle')
            if not limit_points and not second:
                inj = [{"at": "startup", "kind": kind, "arg": "f1", **(pre or {})}]
                if kind == "suspend":
                    inj.append({"at": 1, "kind": "release", "arg": "f1"})
                scs.append(with_inject(base, inj, [decisions[0]] * 3, f"{kind}@startup|{decisions[0]}" + (extra or "")))
        out.append((pn, scs))
    return out


# ---------------------------------------------------------------------------------------------------------------
# trace validation
# ---------------------------------------------------------------------------------------------------------------
COMMON = {"call", "ret", "req", "reqret", "msg", "gen", "dev", "stat"}
PROJECTIONS = {
    "full": COMMON | {"state", "doc", "nev", "tdoc"},
    "lifecycle": COMMON | {"state"},
    "docs": COMMON | {"doc", "nev", "tdoc"},
    "min": COMMON,
}

TRACE_CFG_CONSTS = {
    "RunKeys": {"", "k1", "k2"},
    "Streams": {"primary", "baseline", "interruptions", "mon1", "fly1_stream", "fly2_stream"},
    "Dets": {"det", "det2", "pdet", "apdet", "npdet"}, "Motors": {"motor", "motor2", "amotor"}, "Mons": {"mon1"}, "Pausables": {"pdet", "apdet", "npdet"}, "Flyers": {"fly1", "fly2"},
    "NoReplayDevs": {"npdet"},
    "FlyStream": "<- FlyStreamDef", "FlyN": "<- FlyNDef",
    "AsyncDevs": {"amotor", "apdet"}, "Suspenders": "<- XSus", "SigOf": "<- SigOfDef", "SusFuts": "<- SusFutsDef", "SusBand": {"s3"},
    "ReadVal": "<- ReadValDef", "DataKeys": "<- DataKeysDef",
    "FutNames": {"f1", "f2", "s1a", "s1b", "s1c", "s1d", "s2a", "s2b", "s2c", "s2d", "s3a", "s3b", "s3c", "s3d"},
    "StreamOrder": "<- StreamOrderDef", "DevOrder": "<- DevOrderDef", "PlanLib": "<- PlanLibDef",
}


def parse_propviol(stdout):
    out = []
    for ln in stdout.splitlines():
        if ln.startswith('"PROPVIOL '):
            body = ln[len('"PROPVIOL '):-1].replace('\\"', '"')
            try:
                tid, tags, reqs = parse_value(body)
            except Exception:
                continue
            out.append((tid, sorted(tags), [dict(r) for r in reqs]))
    return out


def signature(tag, reqs):
    parts = []
    for r in reqs:
        k = r["kind"]
        if k == "release":
            parts.append("release")
        else:
            parts.append(f"{k}@{r['pc']}/{r['st']}" + (f">{r['after']}" if r.get("after") else "") + ("" if r.get("res", True) else "!nores"))
    return tag + "|" + ",".join(parts)


def validate_batch(traces, proj, out_dir, tag, timeout=1500):
    """one TLC run over a list of event lists under projection `proj`; returns (rejected {idx: upto}, propviol list, res)"""
    kinds = PROJECTIONS[proj]
    projected = [[e for e in t if e[0] in kinds] for t in traces]
    tf = out_dir / f"{tag}.ndjson"
    with open(tf, "w") as fh:
        for t in projected:
            fh.write(json.dumps(t) + "\n")
    consts = dict(TRACE_CFG_CONSTS)
    consts["ProjKinds"] = set(kinds)
    cfg = write_cfg(out_dir / f"{tag}.cfg", consts, spec="TraceSpec", postcondition="TraceAccepted",
                    action_constraints=["TraceReport"])
    res = run_tlc("MC_trace", cfg, spec_dir=SD, env={"TRACE_FILE": str(tf)}, workers=1, tag=tag, timeout=timeout)
    rejected = {}
    for m in re.finditer(r'<<"REJECTED", (\d+), (\d+)>>', res.stdout):
        rejected[int(m.group(1)) - 1] = int(m.group(2)) - 1
    pv = parse_propviol(res.stdout)
    return rejected, pv, res, projected


MON_CFG_CONSTS = {k: v for k, v in TRACE_CFG_CONSTS.items() if k != "PlanLib"}


def monitor_batch(traces, out_dir, tag, timeout=1500):
    """REMon: the property monitors alone, on every event of every trace (no conformance)"""
    tf = out_dir / f"{tag}.ndjson"
    with open(tf, "w") as fh:
        for t in traces:
            fh.write(json.dumps(t) + "\n")
    cfg = write_cfg(out_dir / f"{tag}.cfg", MON_CFG_CONSTS, spec="MonTraceSpec", action_constraints=["MonReport"])
    res = run_tlc("MC_mon", cfg, spec_dir=SD, env={"TRACE_FILE": str(tf)}, workers=1, tag=tag, timeout=timeout)
    if not res.ok:
        raise RuntimeError(f"REMon stopped: {res.kind} {res.violated}\n{res.stdout[-1500:]}")
    return parse_propviol(res.stdout), res


def monitor_many(traces, out_dir, tag, batch=300, par=None):
    par = par or int(os.environ.get("VERIF_TLC_PAR", 6))
    chunks = [(i, traces[i:i + batch]) for i in range(0, len(traces), batch)]
    pv, stats = [], {"generated": 0, "distinct": 0, "wall": 0.0}

    def work(ch):
        off, ts = ch
        return off, monitor_batch(ts, out_dir, f"{tag}_{off}")

    with cf.ThreadPoolExecutor(par) as ex:
        for off, (p, res) in ex.map(work, chunks):
            for tid, tags, reqs in p:
                pv.append((off + tid - 1, tags, reqs))
            stats["generated"] += res.generated
            stats["distinct"] += res.distinct
            stats["wall"] += res.wall_s
    return pv, stats


def validate_many(traces, proj, out_dir, tag, batch=150, par=None):
    """split into batches validated by parallel TLC runs; returns rejected {global idx: upto}, propviol [(global idx, tags, reqs)]"""
    par = par or int(os.environ.get("VERIF_TLC_PAR", 6))
    chunks = [(i, traces[i:i + batch]) for i in range(0, len(traces), batch)]
    rejected, pv, stats = {}, [], {"generated": 0, "distinct": 0, "wall": 0.0}
    projected_all = [None] * len(traces)

    def work(ch):
        off, ts = ch
        return off, validate_batch(ts, proj, out_dir, f"{tag}_{off}")

    with cf.ThreadPoolExecutor(par) as ex:
        for off, (rej, p, res, projected) in ex.map(work, chunks):
            for k, v in rej.items():
                rejected[off + k] = v
            for tid, tags, reqs in p:
                pv.append((off + tid - 1, tags, reqs))
            stats["generated"] += res.generated
            stats["distinct"] += res.distinct
            stats["wall"] += res.wall_s
            for k, t in enumerate(projected):
                projected_all[off + k] = t
            if res.violated and res.kind not in ("postcondition",):
                raise RuntimeError(f"trace validation stopped with {res.kind} {res.violated}:\n{res.stdout[-1500:]}")
    return rejected, pv, stats, projected_all


# ---------------------------------------------------------------------------------------------------------------
# corpus cache shared by the RE-core checks
# ---------------------------------------------------------------------------------------------------------------
def corpus_dir():
    d = OUT / "corpus"
    d.mkdir(parents=True, exist_ok=True)
    return d


def cached(key, builder):
    """json cache keyed by the hash of bluesky sources + harness + spec"""
    f = corpus_dir() / f"{key}-{src_hash()}.json"
    if f.exists():
        try:
            return json.loads(f.read_text())
        except Exception:
            pass
    for old in corpus_dir().glob(f"{key}-*.json"):
        old.unlink()
    v = builder()
    tmp = f.with_suffix(f".tmp{os.getpid()}")
    tmp.write_text(json.dumps(v))
    tmp.replace(f)
    return v


def corpus_spec(tier):
    """the list of sweeps that make up the corpus"""
    quick = tier == "quick"
    sweeps = []
    progs = ["simple", "two", "fin", "move", "mon", "multi", "defer", "norew", "paus", "err", "openonly", "mon_then", "nores_open", "nores_rew", "nores_rew_ckpt", "nores_then_ckpt", "unstage_only", "cfg_late", "multi_close", "amove", "aopen", "aselfpause_nores",
             "selfpause", "selfpause_nores", "selfpause_nores_fin", "selfdefer_nores", "norew_save",
             "fly", "fly_prep", "fly_left", "fly_fin", "fly_twice", "fly_multi", "declare", "declare_mix", "badclean", "npaus", "tmpsub", "tmpsub_un", "tmpsub_pre", "tmpsub_left"]
    kinds = REQ_KINDS
    if quick:
        sweeps.append(dict(plans=progs, kinds=["pause", "suspend", "abort"], decisions=["resume"], ri=True))
        sweeps.append(dict(plans=["simple", "fin", "move"], kinds=["pause"], decisions=["abort", "stop", "halt"], ri=True))
        sweeps.append(dict(plans=["simple", "fin", "defer"], kinds=["defer", "stop", "halt"], decisions=["resume"], ri=True))
        sweeps.append(dict(plans=["two"], kinds=["pause", "suspend"], decisions=["resume"], ri=False, extra="|nori"))
        sweeps.append(dict(plans=["count"], kinds=["pause", "suspend"], decisions=["resume"], ri=True))
    else:
        sweeps.append(dict(plans=progs, kinds=kinds, decisions=DECISIONS, ri=True))
        sweeps.append(dict(plans=["simple", "two", "mon"], kinds=["pause", "suspend"], decisions=["resume"], ri=False, extra="|nori"))
        sweeps.append(dict(plans=list(BUILTINS), kinds=kinds, decisions=["resume", "stop"], ri=True))
    return sweeps


def quick_tier(tier):
    return tier == "quick"


def build_corpus(tier, only=None):
    """only: regex on scenario ids (development aid: a slice of the corpus; the plans' uninterrupted baselines are kept)"""
    t0 = time.time()
    scs = []
    for sw in corpus_spec(tier):
        for pn, lst in sweep(sw["plans"], sw["kinds"], sw["decisions"], record_intr=sw["ri"], extra=sw.get("extra")):
            if isinstance(lst, dict):
                raise RuntimeError(f"baseline of {pn} failed: {lst['error']}")
            scs += lst
    if tier != "quick":
        scs += pair_scenarios()
    # messages dropped by a preprocessor: uninterrupted and with a pause / suspension at every point (monitored only: RE.tla
    # describes what the engine sees)
    db = base_scenario("dropper")
    db["options"]["drop"] = ["null"]
    db["id"] = "dropper"
    nd = run_one(db)["points"]
    scs.append(db)
    for kind in ("pause", "suspend"):
        for p in range(0, nd + 1, 2 if quick_tier(tier) else 1):
            inj = [{"at": p, "kind": kind, "arg": "f1"}]
            if kind == "suspend":
                inj.append({"at": p + 2, "kind": "release", "arg": "f1"})
            scs.append(with_inject(db, inj, ["resume"] * 3, f"{kind}@{p}|resume"))
    # a document consumer (subscribed after the recorder) that fails once on a RunStart / a descriptor / a RunStop: the run has been
    # opened as far as the other subscribers are concerned and must still get its RunStop (monitored only)
    for kind in ("start", "descriptor", "stop"):
        for pn in ("simple", "fin", "multi"):
            sc0 = base_scenario(pn)
            sc0["options"]["raising_consumer"] = "doc:" + kind
            sc0["id"] = f"badconsumer:{pn}|doc:{kind}"
            scs.append(sc0)
    # the plan runs below set_run_key_wrapper(plan, "k1"); its second run uses the falsy key 0: every message must reach the
    # engine under the key it is meant for (monitored only: the gen events carry the intended key)
    for pn in ("multi", "multi_close"):
        b0 = base_scenario(pn)
        b0["options"]["run_key_wrapper"] = True
        b0["id"] = f"{pn}|rkwrap"
        scs.append(b0)
        for p in range(2, run_one(b0)["points"], 3):
            scs.append(with_inject(b0, [{"at": p, "kind": "pause"}], ["resume"] * 3, f"pause@{p}"))
    scs.append(base_scenario("badsave_fin"))       # (uninterrupted only: a rewind would replay the rejected bundle)
    scs.append(base_scenario("declare_bad"))
    scs += fault_scenarios(tier)
    scs += monitor_scenarios(tier)
    scs += suspender_scenarios(tier)
    scs += random_bundle_programs(tier)
    scs += random_programs(tier)
    scs += random_fly_programs(tier)
    scs += defer_pair_scenarios(tier)
    scs += double_suspension_scenarios(tier)
    scs += two_call_scenarios(tier)
    for pn, lst in sweep(["collide", "collide3", "emptysave", "ckptinb", "dupopen", "cfg", "cfginb", "cfgdrop", "multimon", "fly_decl"], ["pause", "suspend"] if quick_tier(tier) else ["pause", "suspend", "abort", "defer"],
                         ["resume"], record_intr=True):
        if isinstance(lst, dict):
            raise RuntimeError(f"baseline of {pn} failed: {lst['error']}")
        scs += lst
    if only:
        scs = [x for x in scs if "|" not in x["id"] or re.search(only, x["id"])]
    res = run_scenarios(scs)
    errs = [r for r in res if r["error"]]
    if errs:
        raise RuntimeError(f"{len(errs)} scenarios failed in the harness, e.g. {errs[0]['id']}: {errs[0]['error']}")
    # C03: the data recorded by the uninterrupted execution of each plan is prepended (as `exp` events) to every
    # execution of the same plan / devices, so that the monitor can compare what an interrupted execution recorded
    base = {}
    for r in res:
        if "|" not in r["id"] or r["id"].endswith("|slow") or "|fault:" in r["id"] and r["id"].count("|") == 1:
            base[r["id"]] = [["exp", e[1], e[2], "", "", e[5], e[6]] for e in r["events"]
                             if e[0] == "dat" and e[1] not in ("interruptions", "mon1")]
            rets = [e for e in r["events"] if e[0] == "ret"]
            if rets:
                base[r["id"]].append(["exp", "#outcome", rets[-1][2], "", "", 0, 0])
    out = []
    for r in res:
        key = r["id"]
        while key not in base and "|" in key:
            key = key.rsplit("|", 1)[0]
        exp = base.get(key, []) if "|nori" not in r["id"] else base.get(key, [])
        out.append({"id": r["id"], "events": exp + r["events"], "outcomes": r["outcomes"], "final": r["final"],
                    # (device behaviours RE.tla does not model: a signal that calls back at subscribe time, a failing clear_sub)
                    "conf": r["id"].split("|")[0] not in NOT_CONFORMANCE and not r["id"].startswith("mon|notify") and "clear_sub:raise" not in r["id"]
                            and "|consumer-updates-on-" not in r["id"] and "|rkwrap" not in r["id"]
                            and not r["id"].startswith("badconsumer:")})
    return {"traces": out, "wall": time.time() - t0}


def pair_scenarios():
    """two requests: every ordered pair of kinds at every pair of scheduling points (bounded) on two plans"""
    out = []
    for pn in ("simple", "fin"):
        base = base_scenario(pn)
        n = run_one(base)["points"]
        for k1 in REQ_KINDS:
            for k2 in REQ_KINDS:
                for p in range(0, n + 1):
                    for dp in (0, 1, 3):
                        inj = [{"at": p, "kind": k1, "arg": "f1"}, {"at": p + dp, "kind": k2, "arg": "f2"}]
                        if "suspend" in (k1, k2):
                            inj += [{"at": p + dp + 3, "kind": "release", "arg": "f1"}, {"at": p + dp + 4, "kind": "release", "arg": "f2"}]
                        out.append(with_inject(base, inj, ["resume", "resume", "abort"], f"{k1}@{p}+{k2}@{p + dp}"))
    return out


def fault_scenarios(tier):
    out = []
    quick = tier == "quick"
    for dev, op in (("motor", "set"), ("det", "trigger"), ("det", "read"), ("det", "stage"), ("det", "unstage")):
        for mode in ("raise", "fail_now", "fail_later", "none"):
            if mode != "raise" and op not in ("set", "trigger"):
                continue
            base = base_scenario("move", faults={dev: {op: mode}}, delay={dev: 1.0} if mode == "fail_later" else None)
            base["id"] = f"move|fault:{dev}.{op}:{mode}"
            out.append(base)
            n = run_one(base)["points"]
            # an interruption BEFORE the fault (the failure must still reach the plan afterwards) and, thorough, anywhere
            # (quick: for a raising call also right AFTER it -- the error is then waiting on the response stack while the engine
            #  pauses / suspends, rewinds and replays the call, which now succeeds: it must still reach the plan)
            for p in (range(n + 1) if not quick else (range(2, 10) if mode != "raise" else (range(n + 1) if op in ("set", "read") else ()))):
                out.append(with_inject(base, [{"at": p, "kind": "pause"}], ["resume"] * 3, f"pause@{p}"))
                if not quick or p % 2 == 0:
                    out.append(with_inject(base, [{"at": p, "kind": "suspend", "arg": "f1"}, {"at": p + 2, "kind": "release", "arg": "f1"}],
                                           ["resume"] * 3, f"suspend@{p}"))
    # flyers: kickoff / complete / collect that raise or report failure, in the plan and in the engine's backstop collection
    for prog, op, mode in (("fly", "kickoff", "raise"), ("fly", "kickoff", "fail_now"), ("fly", "complete", "raise"), ("fly", "complete", "fail_later"),
                           ("fly", "kickoff", "none"), ("fly_left", "kickoff", "none"), ("fly_fin", "kickoff", "none"),
                           ("fly", "collect", "raise"), ("fly_left", "collect", "raise"), ("fly_fin", "complete", "raise"), ("fly_fin", "collect", "raise"),
                           ("fly_twice", "collect", "raise"), ("fly_multi", "collect", "raise")):
        base = base_scenario(prog, faults={"fly1": {op: mode}}, delay={"fly1": 1.0} if mode == "fail_later" else None)
        base["id"] = f"{prog}|fault:fly1.{op}:{mode}"
        out.append(base)
        n = run_one(base)["points"]
        for p in range(0, n + 1, 2 if quick else 1):
            out.append(with_inject(base, [{"at": p, "kind": "pause"}], ["resume"] * 3, f"pause@{p}"))
            if not quick:
                out.append(with_inject(base, [{"at": p, "kind": "suspend", "arg": "f1"}, {"at": p + 2, "kind": "release", "arg": "f1"}],
                                       ["resume"] * 3, f"suspend@{p}"))
                out.append(with_inject(base, [{"at": p, "kind": "abort"}], ["resume"] * 3, f"abort@{p}"))
    # a call that succeeds the first time and raises when it is REPLAYED after a rewind: the data point already emitted was rolled
    # back for re-taking and the run then fails before the re-take
    for prog, dev, op in (("fly", "fly1", "collect"), ("two", "det", "read")):
        base = base_scenario(prog, faults={dev: {op: ["ok", "raise"]}})
        base["id"] = f"{prog}|fault2:{dev}.{op}"
        n = run_one(base)["points"]
        for p in range(0, n + 1, 2 if quick else 1):
            out.append(with_inject(base, [{"at": p, "kind": "pause"}], ["resume"] * 3, f"pause@{p}"))
            if not quick:
                out.append(with_inject(base, [{"at": p, "kind": "suspend", "arg": "f1"}, {"at": p + 2, "kind": "release", "arg": "f1"}],
                                       ["resume"] * 3, f"suspend@{p}"))
    # two statuses of one group failing one after the other (and only the first / only the second)
    for f1, f2 in (("fail_later", "fail_later"), ("fail_later", None), (None, "fail_later")):
        faults = {d: {"set": m} for d, m in (("motor", f1), ("motor2", f2)) if m}
        base = base_scenario("twofail", faults=faults, delay={"motor": 1.0, "motor2": 3.0})
        base["id"] = f"twofail|fault:set:{f1 or 'ok'}+{f2 or 'ok'}"
        out.append(base)
    base = base_scenario("move", delay={"motor": 1.0, "det": 1.0})
    base["id"] = "move|slow"
    n = run_one(base)["points"]
    out.append(base)
    for kind in (("pause",) if quick else ("pause", "suspend", "abort")):
        for p in range(n + 1):
            inj = [{"at": p, "kind": kind, "arg": "f1"}]
            if kind == "suspend":
                inj.append({"at": p + 2, "kind": "release", "arg": "f1"})
            out.append(with_inject(base, inj, ["resume"] * 3, f"{kind}@{p}"))
    return out


def monitor_scenarios(tier):
    """monitor updates at every scheduling point, alone and around a pause / suspension"""
    out = []
    # the device fails once when the engine removes its subscription (at unmonitor / close_run / clean-up)
    for prog in ("mon", "monleft"):
        sc = base_scenario(prog, faults={"mon1": {"clear_sub": "raise"}})
        sc["id"] = f"{prog}|fault:mon1.clear_sub:raise"
        out.append(sc)
    # a document consumer that makes the monitored signal update while it is handed the RunStop (a callback closing a shutter at
    # the end of a run): the run is over -- no monitor event may follow its RunStop (monitored only: the update happens inside
    # close_run, not at a parking place of the run task)
    for prog in ("mon", "monleft"):
        for on in ("stop", "start"):
            sc = base_scenario(prog)
            sc["options"]["consumer_updates"] = [on, "mon1"]
            sc["id"] = f"{prog}|consumer-updates-on-{on}"
            out.append(sc)
    # a signal that notifies on subscribe + a document consumer that rejects monitor events (the run fails inside `monitor`)
    sc = base_scenario("mon")
    sc["devices"]["mon1"]["notify"] = True
    sc["id"] = "mon|notify"
    out.append(copy.deepcopy(sc))
    sc["options"]["raising_consumer"] = "mon1"
    sc["id"] = "mon|notify+raising-consumer"
    out.append(sc)
    base = base_scenario("mon")
    n = run_one(base)["points"]
    for p in range(n + 1):
        out.append(with_inject(base, [{"at": p, "kind": "update", "arg": "mon1"}], [], f"update@{p}"))
        # an update while the engine is paused (made by the main thread between the pause and the resume)
        out.append(with_inject(base, [{"at": p, "kind": "pause"}], ["update:mon1", "resume", "resume"], f"pause@{p}|update-while-paused|resume"))
        for kind in ("pause", "suspend"):
            for q in ((p + 1,) if tier == "quick" else (p + 1, p + 3)):
                inj = [{"at": p, "kind": kind, "arg": "f1"}, {"at": q, "kind": "update", "arg": "mon1"}]
                if kind == "suspend":
                    inj.append({"at": q + 2, "kind": "release", "arg": "f1"})
                out.append(with_inject(base, inj, ["resume"] * 3, f"{kind}@{p}+update@{q}"))
    # histories within one call: an interruption BEFORE the signal is monitored (suspend/restore with nothing to do), then the
    # monitor starts, then a second interruption -- during which updates must not be reported, and after which exactly once
    for kind in ("pause", "suspend"):
        for q in range(6, n + 1, 1 if tier != "quick" else 3):
            inj = [{"at": 1, "kind": kind, "arg": "f1"}]
            if kind == "suspend":
                inj += [{"at": 3, "kind": "release", "arg": "f1"}, {"at": q, "kind": "suspend", "arg": "f2"},
                        {"at": q + 1, "kind": "update", "arg": "mon1"}, {"at": q + 3, "kind": "release", "arg": "f2"},
                        {"at": q + 6, "kind": "update", "arg": "mon1"}]
                out.append(with_inject(base, inj, ["resume"] * 3, f"suspend@1,then-suspend@{q}+updates"))
            else:
                inj += [{"at": q, "kind": "pause"}, {"at": q + 4, "kind": "update", "arg": "mon1"}]
                out.append(with_inject(base, inj, ["resume", "update:mon1", "resume", "resume"], f"pause@1,then-pause@{q}+updates"))
    # two interruptions while the signal is monitored (the second one must suspend the monitor again), with updates while paused
    for p1, p2 in ((5, 9), (5, 13)) if tier == "quick" else [(a, b) for a in range(4, n - 4, 2) for b in range(a + 3, n, 3)]:
        out.append(with_inject(base, [{"at": p1, "kind": "pause"}, {"at": p2, "kind": "pause"}, {"at": p2 + 4, "kind": "update", "arg": "mon1"}],
                               ["resume", "update:mon1", "resume", "resume"], f"pause@{p1},then-pause@{p2}+updates"))
    # interruptions after the monitor has been removed: the interruptions stream keeps its own numbering across rewinds
    base2 = base_scenario("mon_then")
    n2 = run_one(base2)["points"]
    for p1 in (range(14, n2 - 3, 3) if tier == "quick" else range(12, n2 - 2)):
        out.append(with_inject(base2, [{"at": p1, "kind": "pause"}, {"at": p1 + 2, "kind": "pause"}], ["resume"] * 4, f"pause@{p1},then-pause@{p1 + 2}"))
    return out


def suspender_scenarios(tier):
    """real SuspendBoolHigh suspenders on fake signals: pre-tripped at plan start, tripped / released / removed at every
    scheduling point, removed twice, signal changes after removal, two suspenders tripping together"""
    out = []
    quick = tier == "quick"
    sus = {"s1": {"signal": "sig1"}, "s2": {"signal": "sig2"}}

    def mk(plan, tag, signals, before, inj, timeout=6):
        sc = base_scenario(plan)
        sc.update({"id": f"sus:{plan}|{tag}", "signals": signals, "suspenders": sus, "before": before, "inject": inj,
                   "decisions": ["resume"] * 3, "timeout": timeout})
        return sc

    for plan in (("simple",) if quick else ("simple", "move", "two")):
        n = run_one(base_scenario(plan))["points"] + 4
        # A. tripped before the plan starts: released by the signal / by removal at every point (point 1.. are 'blocked' points)
        for p in range(0, 2):
            out.append(mk(plan, f"pre-tripped,put0@{p}", {"sig1": 0, "sig2": 0}, [["sig_put", "sig1", 1], ["sus_install", "s1", 0]],
                          [{"at": p, "kind": "sig_put", "arg": "sig1", "value": 0}]))
            out.append(mk(plan, f"pre-tripped,remove@{p}", {"sig1": 0, "sig2": 0}, [["sig_put", "sig1", 1], ["sus_install", "s1", 0]],
                          [{"at": p, "kind": "sus_remove", "arg": "s1"}, {"at": p + 2, "kind": "sus_remove", "arg": "s1"},
                           {"at": p + 3, "kind": "sig_put", "arg": "sig1", "value": 1}]))
        # A00. removed while tripped and installed again while the signal is still bad, all before the call: it must gate the start
        out.append(mk(plan, "tripped,removed,reinstalled,put0@blocked", {"sig1": 0, "sig2": 0},
                      [["sig_put", "sig1", 1], ["sus_install", "s1", 0], ["sus_remove", "s1", 0], ["sus_install", "s1", 0]],
                      [{"at": "blocked", "kind": "sig_put", "arg": "sig1", "value": 0}]))
        # A0. trips in the window between RE(...) consulting the suspenders and the run task's first step
        out.append(mk(plan, "trip@startup,put0@3", {"sig1": 0, "sig2": 0}, [["sus_install", "s1", 0]],
                      [{"at": "startup", "kind": "sig_put", "arg": "sig1", "value": 1}, {"at": 3, "kind": "sig_put", "arg": "sig1", "value": 0}]))
        # A1. the plan installs the suspender itself while its signal is already high (trips at once), released / removed later;
        #     and trips / releases around the plan's own install and remove
        if plan == "simple":
            b0 = base_scenario("susmsg")
            b0.update({"signals": {"sig1": 0, "sig2": 0}, "suspenders": sus})
            nn = run_one(b0)["points"] + 3

            def mk2(tag, before, inj):
                sc = base_scenario("susmsg")
                sc.update({"id": f"sus:susmsg|{tag}", "signals": {"sig1": 0, "sig2": 0}, "suspenders": sus, "before": before, "inject": inj,
                           "decisions": ["resume"] * 3, "timeout": 6})
                return sc
            # (installing an ALREADY TRIPPED suspender from the plan fails with RuntimeError("Could not create the ...") because
            #  SuspenderBase.__make_event waits on the loop thread for a callback that only the loop thread can run: a defect
            #  outside the listed properties, see DESIGN.md 8.3; the scenarios below trip the suspender after its installation)
            for p in range(6, nn if not quick else min(nn, 16)):
                out.append(mk2(f"trip@{p},put0@{p + 3}", [], [{"at": p, "kind": "sig_put", "arg": "sig1", "value": 1},
                                                              {"at": p + 3, "kind": "sig_put", "arg": "sig1", "value": 0},
                                                              {"at": "blocked", "kind": "sig_put", "arg": "sig1", "value": 0}]))
        # A2. a suspender with a settle time (sleep > 0): the signal goes bad again inside the settle window -- the release that
        #     is already scheduled must not end the new suspension
        if plan == "simple":
            sus_slow = {"s1": {"signal": "sig1", "kwargs": {"sleep": 2.0}}, "s2": {"signal": "sig2"}}
            for p in (3, 6, 9):
                sc = mk(plan, f"settle:trip@{p},put0@{p + 2},retrip@idle,put0@blocked", {"sig1": 0, "sig2": 0}, [["sus_install", "s1", 0]],
                        [{"at": p, "kind": "sig_put", "arg": "sig1", "value": 1}, {"at": p + 2, "kind": "sig_put", "arg": "sig1", "value": 0},
                         {"at": "idle", "kind": "sig_put", "arg": "sig1", "value": 1}, {"at": "blocked", "kind": "sig_put", "arg": "sig1", "value": 0}])
                sc["suspenders"] = sus_slow
                out.append(sc)
        # A'. paused while held by the tripped suspender; the suspender is removed / released while paused; then resume
        for p in range(0, 2):      # (only points 0 and 1 exist before the engine blocks on the tripped suspender)
            for dec in ("sus_remove:s1", "sig_put:sig1:0"):
                sc = mk(plan, f"pre-tripped,pause@{p},{dec},resume", {"sig1": 0, "sig2": 0}, [["sig_put", "sig1", 1], ["sus_install", "s1", 0]],
                        [{"at": p, "kind": "pause"}])
                sc["decisions"] = [dec, "resume", "resume"]
                out.append(sc)
        # B. trips while running, then release / removal; a removed suspender must not react any more
        for p in range(n):
            for d in ((2,) if quick else (1, 2, 4)):
                out.append(mk(plan, f"trip@{p},put0@{p + d}", {"sig1": 0, "sig2": 0}, [["sus_install", "s1", 0]],
                              [{"at": p, "kind": "sig_put", "arg": "sig1", "value": 1}, {"at": p + d, "kind": "sig_put", "arg": "sig1", "value": 0}]))
                out.append(mk(plan, f"trip@{p},remove@{p + d}", {"sig1": 0, "sig2": 0}, [["sus_install", "s1", 0]],
                              [{"at": p, "kind": "sig_put", "arg": "sig1", "value": 1}, {"at": p + d, "kind": "sus_remove", "arg": "s1"},
                               {"at": p + d + 1, "kind": "sus_remove", "arg": "s1"}, {"at": p + d + 2, "kind": "sig_put", "arg": "sig1", "value": 0},
                               {"at": p + d + 3, "kind": "sig_put", "arg": "sig1", "value": 1}]))
            # C. a second suspender trips right after the first one's request has landed (state 'suspending')
            out.append(mk(plan, f"trip-then-trip@{p}", {"sig1": 0, "sig2": 0}, [["sus_install", "s1", 0], ["sus_install", "s2", 0]],
                          [{"at": p, "kind": "sig_put", "arg": "sig1", "value": 1}, {"at": p + 1, "kind": "sig_put", "arg": "sig2", "value": 1},
                           {"at": p + 5, "kind": "sig_put", "arg": "sig1", "value": 0}, {"at": "blocked", "kind": "sig_put", "arg": "sig2", "value": 0}]))
            out.append(mk(plan, f"trip2@{p}", {"sig1": 0, "sig2": 0}, [["sus_install", "s1", 0], ["sus_install", "s2", 0]],
                          [{"at": p, "kind": "sig_put", "arg": "sig1", "value": 1}, {"at": p, "kind": "sig_put", "arg": "sig2", "value": 1},
                           {"at": p + 2, "kind": "sig_put", "arg": "sig1", "value": 0}, {"at": p + 5, "kind": "sig_put", "arg": "sig2", "value": 0}]))
    # D. a suspender with a dead band (SuspendFloor(sig3, 0.5, resume_thresh=1.5): trips below 0.5, releases above 1.5): a value
    #    inside the band (abstract value 2) neither trips nor releases it -- tripped before the plan starts / during the plan
    band = {"s3": {"signal": "sig3", "type": "SuspendFloor", "args": [0.5], "kwargs": {"resume_thresh": 1.5}}}
    vmaps = {"sig3": {0: 2.0, 1: 0.0, 2: 1.0}}

    def mk3(plan, tag, before, inj):
        sc = base_scenario(plan)
        sc.update({"id": f"sus:{plan}|band:{tag}", "signals": {"sig3": 0}, "vmaps": vmaps, "suspenders": band, "before": before, "inject": inj,
                   "decisions": ["resume"] * 3, "timeout": 6})
        return sc
    for plan in (("simple",) if quick else ("simple", "move")):
        n = run_one(base_scenario(plan))["points"]
        out.append(mk3(plan, "pre-tripped,band,put0@blocked", [["sus_install", "s3", 0], ["sig_put", "sig3", 1], ["sig_put", "sig3", 2]],
                       [{"at": "blocked", "kind": "sig_put", "arg": "sig3", "value": 0}]))
        out.append(mk3(plan, "band,installed,put0@2", [["sig_put", "sig3", 2], ["sus_install", "s3", 0]],
                       [{"at": 2, "kind": "sig_put", "arg": "sig3", "value": 0}]))
        for p in range(2, n, 2 if quick else 1):
            out.append(mk3(plan, f"trip@{p},band@{p + 2},put0@blocked", [["sus_install", "s3", 0]],
                           [{"at": p, "kind": "sig_put", "arg": "sig3", "value": 1}, {"at": p + 2, "kind": "sig_put", "arg": "sig3", "value": 2},
                            {"at": "blocked", "kind": "sig_put", "arg": "sig3", "value": 0}]))
    return out


def random_bundle_programs(tier, seed=0):
    """seeded random straight-line programs over the bundling vocabulary (two streams, four devices, drop / empty save /
    checkpoint between bundles, two run keys): executed uninterrupted and with a pause+resume at a few points"""
    rng = random.Random(1000 + seed)
    out = []
    nprog = 12 if tier == "quick" else 120
    streams = {"primary": [["det"], ["det", "motor"]], "baseline": [["det2"], ["det2", "pdet"]]}
    for n in range(nprog):
        msgs = [M("open_run"), M("checkpoint")]
        fixed = {s: rng.choice(v) for s, v in streams.items()}     # a stream keeps its device set (else: RuntimeError by design)
        for _ in range(rng.randint(3, 7)):
            sname = rng.choice(list(streams))
            msgs.append(M("create", a=sname))
            kind = rng.random()
            if kind < 0.15:
                msgs.append(M("save"))                  # empty bundle
            elif kind < 0.4:
                for d in rng.sample(["det", "det2", "motor", "pdet"], rng.randint(1, 2)):
                    msgs.append(M("read", d))
                msgs.append(M("drop"))
            else:
                for d in fixed[sname]:
                    msgs.append(M("read", d))
                msgs.append(M("save"))
            if rng.random() < 0.5:
                msgs.append(M("checkpoint"))
        msgs.append(M("close_run"))
        name = f"rb{n}"
        PROGRAMS[name] = {"msgs": msgs}
        base = base_scenario(name)
        out.append(base)
        npts = len(msgs) * 2
        for p in sorted(rng.sample(range(npts), 3 if tier == "quick" else 8)):
            out.append(with_inject(base, [{"at": p, "kind": "pause"}], ["resume"] * 3, f"pause@{p}|resume"))
    return out


def random_programs(tier, seed=0):
    """seeded random plan programs over the whole vocabulary RE.tla models (runs under one or two keys, bundles, checkpoints,
    non-resumable and non-rewindable sections, stage/unstage, set/trigger + wait, configure, monitor/unmonitor, the plan's own
    pauses, sleep, optional finalize clean-up): each is executed uninterrupted and with a pause / a suspension at sampled
    scheduling points; every execution is conformance-checked against RE.tla and judged by the monitors"""
    rng = random.Random(7000 + seed)
    out = []
    nprog = 40 if tier == "quick" else 120
    for n in range(nprog):
        msgs = []
        staged = rng.random() < 0.4
        if staged:
            msgs.append(M("stage", "det"))
        key = rng.choice(["", "", "k1"])
        msgs += [M("open_run", run=key)]
        monitored = rng.random() < 0.3
        if monitored:
            msgs.append(M("monitor", "mon1", run=key))
        if rng.random() < 0.85:
            msgs.append(M("checkpoint"))
        devs = {"primary": rng.choice([["det"], ["det", "motor"]]), "baseline": rng.choice([["det2"], ["det2", "pdet"]])}
        second_open = False
        nores = False
        for _ in range(rng.randint(4, 9)):
            r = rng.random()
            if r < 0.32:
                sname = rng.choice(["primary", "primary", "baseline"])
                msgs.append(M("create", run=key, a=sname))
                for d in devs[sname]:
                    msgs.append(M("read", d, run=key))
                msgs.append(M("save", run=key) if rng.random() < 0.85 else M("drop", run=key))
            elif r < 0.47:
                msgs.append(M("checkpoint"))
                nores = False
            elif r < 0.55:
                msgs.append(M("null"))
            elif r < 0.61:
                # (a checkpoint first: readings taken before the move must not be re-taken after it -- the plan is replay-safe)
                msgs += [M("checkpoint"), M("set", "motor", a="g1", value=rng.randint(1, 3)), M("wait", a="g1")]
                nores = False
            elif r < 0.66:
                msgs += [M("trigger", "det", a="g2"), M("wait", a="g2")]
            elif r < 0.72:
                msgs.append(M("configure", rng.choice(["det", "det2"]), run=key))
            elif r < 0.77 and not nores:
                msgs.append(M("clear_checkpoint"))
                nores = True
            elif r < 0.82:
                msgs += [M("rewindable", a="F"), M("null"), M("rewindable", a="T")]
            elif r < 0.86:
                msgs.append(M("pause", a=rng.choice(["T", "T", "F"])))
            elif r < 0.90:
                msgs += [M("stage", "det2"), M("null"), M("unstage", "det2")]
            elif r < 0.93:
                msgs.append(M("sleep"))
            elif r < 0.96 and monitored:
                msgs.append(M("unmonitor", "mon1", run=key))
                monitored = False
            elif not second_open and key != "k2":
                msgs += [M("open_run", run="k2"), M("create", run="k2", a="primary"), M("read", "det2", run="k2"), M("save", run="k2"),
                         M("close_run", run="k2")]
                second_open = True
        body_end = len(msgs)
        closes = rng.random() < 0.8
        cleanup = []
        if monitored and rng.random() < 0.6:
            cleanup.append(M("unmonitor", "mon1", run=key))
        if closes:
            cleanup.append(M("close_run", run=key))
        if staged:
            cleanup.append(M("unstage", "det"))
        prog = {"msgs": msgs + cleanup}
        if cleanup and rng.random() < 0.5:
            prog.update({"kind": "finalize", "try": [2 if staged else 1, body_end], "cleanup": [body_end + 1, body_end + len(cleanup)]})
        name = f"rp{n}"
        PROGRAMS[name] = prog
        base = base_scenario(name)
        b = run_one(base)
        if b["error"]:
            raise RuntimeError(f"random program {name} failed in the harness: {b['error']}")
        out.append(base)
        npts = b["points"]
        k = 6 if tier == "quick" else 10
        for p in sorted(rng.sample(range(npts + 1), min(k, npts + 1))):
            out.append(with_inject(base, [{"at": p, "kind": "pause"}], ["resume"] * 4, f"pause@{p}|resume"))
            out.append(with_inject(base, [{"at": p, "kind": "suspend", "arg": "f1"}, {"at": p + 2, "kind": "release", "arg": "f1"},
                                          {"at": "blocked", "kind": "release", "arg": "f1"}], ["resume"] * 4, f"suspend@{p}|resume"))
    return out


def random_fly_programs(tier, seed=0):
    """seeded random programs around flyers (rf<n>): kickoff / complete / collect mixed with bundles, checkpoints, sleeps and a
    second run with its own flyer; runs closed by the plan, by its clean-up, or left to the engine (backstop collection).
    (fly1 is only used in the first run and fly2 in the second: RunBundler._uncollected is a python set, the specification
    collects in DevOrder)"""
    rng = random.Random(9000 + seed)
    out = []
    nprog = 12 if tier == "quick" else 40
    for n in range(nprog):
        key = rng.choice(["", "k1"])
        msgs = [M("open_run", run=key)]
        if rng.random() < 0.8:
            msgs.append(M("checkpoint"))
        flying = False
        second = "none"          # none | open | closed
        for _ in range(rng.randint(4, 8)):
            r = rng.random()
            if r < 0.25 and not flying:
                msgs.append(M("kickoff", "fly1", run=key, a="g1"))
                if rng.random() < 0.7:
                    msgs.append(M("wait", a="g1"))
                flying = True
            elif r < 0.40 and flying:
                msgs += [M("complete", "fly1", run=key, a="g2"), M("wait", a="g2")]
            elif r < 0.60:
                msgs.append(M("collect", "fly1", run=key))
                flying = False
            elif r < 0.72:
                msgs += [M("create", run=key, a="primary"), M("read", "det", run=key), M("save", run=key)]
            elif r < 0.82:
                msgs.append(M("checkpoint"))
            elif r < 0.88:
                msgs.append(M("sleep"))
            elif r < 0.93:
                msgs.append(M("null"))
            elif second == "none":
                msgs += [M("open_run", run="k2"), M("kickoff", "fly2", run="k2", a="g3"), M("wait", a="g3")]
                second = "open"
            elif second == "open":
                if rng.random() < 0.6:
                    msgs.append(M("collect", "fly2", run="k2"))
                msgs.append(M("close_run", run="k2"))
                second = "closed"
        body_end = len(msgs)
        cleanup = []
        if rng.random() < 0.7:
            cleanup.append(M("close_run", run=key))
        prog = {"msgs": msgs + cleanup}
        if cleanup and rng.random() < 0.5:
            prog.update({"kind": "finalize", "try": [1, body_end], "cleanup": [body_end + 1, body_end + len(cleanup)]})
        name = f"rf{n}"
        PROGRAMS[name] = prog
        FLY_PLANS.add(name)
        if second != "none":
            MULTI_RUN_PLANS.add(name)
        base = base_scenario(name)
        b = run_one(base)
        if b["error"]:
            raise RuntimeError(f"random program {name} failed in the harness: {b['error']}")
        out.append(base)
        npts = b["points"]
        k = 5 if tier == "quick" else 9
        for p in sorted(rng.sample(range(npts + 1), min(k, npts + 1))):
            out.append(with_inject(base, [{"at": p, "kind": "pause"}], ["resume"] * 4, f"pause@{p}|resume"))
            out.append(with_inject(base, [{"at": p, "kind": "suspend", "arg": "f1"}, {"at": p + 2, "kind": "release", "arg": "f1"},
                                          {"at": "blocked", "kind": "release", "arg": "f1"}], ["resume"] * 4, f"suspend@{p}|resume"))
            out.append(with_inject(base, [{"at": p, "kind": "abort"}], ["resume"] * 4, f"abort@{p}|resume"))
    return out


def double_suspension_scenarios(tier):
    """two sequential suspensions (and pause/resume + suspension) in one call, after devices have been moved"""
    out = []
    for plan in ("move",) if tier == "quick" else ("move", "paus", "two"):
        base = base_scenario(plan)
        n = run_one(base)["points"]
        for p in range(4, n + 1, 2 if tier == "quick" else 1):
            for first in ("suspend", "pause"):
                inj = [{"at": p, "kind": first, "arg": "f1"}]
                if first == "suspend":
                    inj.append({"at": p + 2, "kind": "release", "arg": "f1"})
                inj += [{"at": p + 12, "kind": "suspend", "arg": "f2"}, {"at": p + 14, "kind": "release", "arg": "f2"}]
                out.append(with_inject(base, inj, ["resume"] * 4, f"{first}@{p}+suspend@{p + 12}"))
    return out


def two_call_scenarios(tier):
    """two RE(...) calls on the same engine: the first one ends in every way (completion, abort/stop/halt while running,
    while suspended, from a pause, failed pause, error); the second one monitors a signal and is paused with an update"""
    out = []
    second = {"plan": prog_plan("mon"), "inject": [{"at": 9, "kind": "pause"}], "decisions": ["update:mon1", "resume", "resume"]}
    firsts = []
    for plan in ("mon", "fin") if tier == "quick" else ("mon", "fin", "move", "err", "openonly"):
        base = base_scenario(plan)
        n = run_one(base)["points"]
        pts = range(3, n + 1, 3 if tier == "quick" else 1)
        for p in pts:
            for kind in ("abort", "stop", "halt"):
                firsts.append((plan, f"{kind}@{p}", [{"at": p, "kind": kind}], []))
                firsts.append((plan, f"suspend@{p}+{kind}@{p + 3}", [{"at": p, "kind": "suspend", "arg": "f1"}, {"at": p + 3, "kind": kind}], []))
                # ... and while the suspension is waiting for its release
                firsts.append((plan, f"suspend@{p}+{kind}@blocked", [{"at": p, "kind": "suspend", "arg": "f1"}, {"at": "blocked", "kind": kind}], []))
            firsts.append((plan, f"pause@{p}|abort", [{"at": p, "kind": "pause"}], ["abort"]))
        firsts.append((plan, "plain", [], []))
    for plan, tag, inj, dec in firsts:
        sc = with_inject(base_scenario(plan), inj, dec, tag + "|then-mon")
        sc["then"] = [copy.deepcopy(second)]
        sc["id"] = "2call:" + sc["id"]
        out.append(sc)
    # the first call ends while the engine is NOT resumable (inside a clear_checkpoint section: normally, after a failed pause,
    # aborted); the second call is paused / suspended BEFORE its plan's first checkpoint: a new call starts resumable
    for plan, tag, inj, dec in (("nores_open", "plain", [], []), ("nores_rew", "plain", [], []),
                                ("nores_open", "pause@8", [{"at": 8, "kind": "pause"}], []),
                                ("nores_open", "abort@8", [{"at": 8, "kind": "abort"}], []),
                                ("selfpause_nores", "plain", [], [])):
        for p in (1, 2, 3):
            for kind in ("pause", "suspend"):
                inj2 = [{"at": p, "kind": kind, "arg": "f1"}] + ([{"at": p + 2, "kind": "release", "arg": "f1"}] if kind == "suspend" else [])
                sc = with_inject(base_scenario(plan), inj, dec, tag + f"|then-simple-{kind}@{p}")
                sc["then"] = [{"plan": prog_plan("simple"), "inject": inj2, "decisions": ["resume", "resume"]}]
                sc["id"] = "2call:" + sc["id"]
                out.append(sc)
    # the first call subscribes a document consumer in-plan and ends in every way; nothing of the second call may reach it (C18)
    out += tmpsub_then_scenarios(tier)
    return out


def tmpsub_then_scenarios(tier):
    out = []
    for plan in ("tmpsub", "tmpsub_un", "tmpsub_pre", "tmpsub_left"):
        base = base_scenario(plan)
        n = run_one(base)["points"]
        firsts = [("plain", [], [])]
        for p in range(2, n + 1, 4 if tier == "quick" else 1):
            firsts.append((f"abort@{p}", [{"at": p, "kind": "abort"}], []))
            firsts.append((f"pause@{p}|stop", [{"at": p, "kind": "pause"}], ["stop"]))
            firsts.append((f"pause@{p}|resume", [{"at": p, "kind": "pause"}], ["resume"]))
        for tag, inj, dec in firsts:
            sc = with_inject(base_scenario(plan), inj, dec, tag + "|then-simple")
            sc["then"] = [{"plan": prog_plan("simple"), "inject": [{"at": 6, "kind": "pause"}], "decisions": ["resume", "resume"]}]
            sc["id"] = "2call:" + sc["id"]
            out.append(sc)
    return out


def defer_pair_scenarios(tier):
    """a deferred pause followed, before the next checkpoint, by another interruption (suspension, pause+resume)"""
    out = []
    for plan in ("defer",) if tier == "quick" else ("defer", "two", "norew"):
        base = base_scenario(plan)
        n = run_one(base)["points"]
        for p in range(n + 1):
            for d in (1, 2) if tier == "quick" else (1, 2, 3, 5):
                for k2 in ("suspend", "pause"):
                    inj = [{"at": p, "kind": "defer"}, {"at": p + d, "kind": k2, "arg": "f1"}]
                    if k2 == "suspend":
                        inj.append({"at": p + d + 2, "kind": "release", "arg": "f1"})
                    out.append(with_inject(base, inj, ["resume"] * 4, f"defer@{p}+{k2}@{p + d}"))
    return out


def get_corpus(tier):
    return cached(f"corpus-{tier}", lambda: build_corpus(tier))


def get_monitor(tier):
    def build():
        c = get_corpus(tier)
        d = OUT / "corpus" / f"mon-{tier}"
        d.mkdir(parents=True, exist_ok=True)
        pv, stats = monitor_many([t["events"] for t in c["traces"]], d, "m")
        return {"pv": pv, "stats": stats}
    return cached(f"mon-{tier}", build)


def get_validation(tier, proj):
    def build():
        c = get_corpus(tier)
        traces = [t["events"] if t.get("conf", True) else [] for t in c["traces"]]
        d = OUT / "corpus" / f"val-{tier}-{proj}"
        d.mkdir(parents=True, exist_ok=True)
        rejected, pv, stats, projected = validate_many(traces, proj, d, f"v{proj}")
        # binding self-check: corrupted copies of accepted traces (an event dropped, a seq_num changed, two events swapped,
        # a device call dropped) must every one be rejected -- a trace specification that accepts them binds nothing
        good = [i for i, t in enumerate(traces) if t and i not in rejected and "|" in c["traces"][i]["id"]]
        bad_traces, how = [], []
        for i in good[:: max(1, len(good) // 8)][:8]:
            for name, tr in corruptions([e for e in traces[i] if e[0] in PROJECTIONS[proj]]):
                bad_traces.append(tr)
                how.append(f"{c['traces'][i]['id']}:{name}")
        brej, _, _, _ = validate_batch(bad_traces, proj, d, "selfcheck") if bad_traces else ({}, None, None, None)
        accepted = [how[k] for k in range(len(bad_traces)) if k not in brej]
        return {"rejected": {str(k): v for k, v in rejected.items()}, "pv": pv, "stats": stats,
                "selfcheck": {"corrupted": len(bad_traces), "rejected": len(brej), "accepted": accepted}}
    return cached(f"val-{tier}-{proj}", build)


def corruptions(ev):
    """corrupted copies of one projected trace: [(name, events)]"""
    out = []
    docs = [i for i, e in enumerate(ev) if e[0] == "doc"]
    evs = [i for i, e in enumerate(ev) if e[0] == "doc" and e[1] == "event"]
    states = [i for i, e in enumerate(ev) if e[0] == "state"]
    devs = [i for i, e in enumerate(ev) if e[0] == "dev"]
    msgs = [i for i, e in enumerate(ev) if e[0] == "msg"]
    if docs:
        out.append(("doc-dropped", ev[:docs[0]] + ev[docs[0] + 1:]))
    if evs:
        k = evs[-1]
        out.append(("seq-changed", ev[:k] + [ev[k][:5] + [ev[k][5] + 1, ev[k][6]]] + ev[k + 1:]))
    if len(states) >= 2:
        k = states[1]
        out.append(("state-dropped", ev[:k] + ev[k + 1:]))
    if devs:
        k = devs[-1]
        out.append(("device-call-dropped", ev[:k] + ev[k + 1:]))
    if len(msgs) >= 3:
        a, b = msgs[1], msgs[2]
        sw = list(ev)
        sw[a], sw[b] = sw[b], sw[a]
        if sw != ev:
            out.append(("messages-swapped", sw))
    return out


# ---------------------------------------------------------------------------------------------------------------
# model checking of REMC
# ---------------------------------------------------------------------------------------------------------------
MC_BASE = {
    "RunKeys": {"", "k1", "k2"}, "Streams": {"primary", "baseline", "interruptions", "mon1"},
    "Dets": {"det", "det2", "pdet", "apdet", "npdet"}, "Motors": {"motor", "amotor"}, "Mons": {"mon1"}, "Pausables": {"pdet", "apdet", "npdet"}, "Flyers": set(),
    "AsyncDevs": set(), "FlyStream": "<- FlyStreamDef", "FlyN": "<- FlyNDef", "NoReplayDevs": set(),
    "ReadVal": "<- ReadValDef", "DataKeys": "<- DataKeysDef", "FutNames": {"f1", "f2"},
    "StreamOrder": "<- StreamOrderDef", "DevOrder": "<- DevOrderDef", "Prog": "<- ProgDef",
    "SuspPre": "<- SuspPreDef", "SuspPost": "<- SuspPostDef",
}


def mc_run(ctx, plan_name, *, max_req=2, req_kinds=REQ_KINDS, decisions=DECISIONS, max_faults=0, fault_kinds=(),
           max_calls=1, max_updates=0, record_intr=True, pre=(), post=(), workers=None, timeout=1500, tag=None, async_devs=(), suspenders=(), max_sus_ops=0,
           flyers=(), noreplay=()):
    """model-check REMC for one program; returns (TLCResult, propviol list)"""
    p = PROGRAMS[plan_name]
    d = ctx.out
    name = f"MC_{plan_name}_{tag or 'a'}"
    mod = f"""---- MODULE {name} ----
EXTENDS REMC
M(c, o, r, a) == Msg(c, o, r, a)
ProgDef == {prog_tla(p)}
XD == {{"det", "det2", "pdet", "npdet", "motor", "mon1", "amotor", "apdet"}}
ReadValDef == [d \\in XD |-> CASE d = "motor" -> "dict:motor,motor_setpoint" [] d = "amotor" -> "dict:amotor,amotor_setpoint" [] OTHER -> "dict:" \\o d]
DataKeysDef == [d \\in XD |-> CASE d = "motor" -> {{"motor", "motor_setpoint"}} [] d = "amotor" -> {{"amotor", "amotor_setpoint"}} [] OTHER -> {{d}}]
StreamOrderDef == <<{", ".join('"%s"' % x for x in sorted(MC_BASE["Streams"] | {f + "_stream" for f in flyers}))}>>
DevOrderDef == <<"det", "det2", "mon1", "motor", "pdet", "amotor", "apdet", "fly1", "fly2", "npdet">>
FlyStreamDef == [f \\in {{"fly1", "fly2"}} |-> f \\o "_stream"]
FlyNDef == [f \\in {{"fly1", "fly2"}} |-> 2]
XSus == {{{", ".join('"%s"' % x for x in suspenders)}}}
SigOfDef == [x \\in XSus |-> IF x = "s1" THEN "sig1" ELSE IF x = "s2" THEN "sig2" ELSE "sig3"]
SusFutsDef == [x \\in XSus |-> <<x \\o "a", x \\o "b", x \\o "c">>]
SuspPreDef == <<{", ".join(tla_msg(m) for m in pre)}>>
SuspPostDef == <<{", ".join(tla_msg(m) for m in post)}>>
====
"""
    # the module must live next to REMC.tla: write it into a per-run copy of the spec directory
    sd = d / "spec"
    sd.mkdir(exist_ok=True)
    for f in SD.glob("*.tla"):
        if not f.name.startswith("MC_"):
            (sd / f.name).write_text(f.read_text())
    (sd / f"{name}.tla").write_text(mod)
    consts = dict(MC_BASE)
    consts.update({"MaxReq": max_req, "ReqKinds": set(req_kinds), "MaxFaults": max_faults, "FaultKinds": set(fault_kinds),
                   "Decisions": set(decisions), "MaxCalls": max_calls, "MaxUpdates": max_updates, "RecordIntr": record_intr,
                   "AsyncDevs": set(async_devs), "Suspenders": "<- XSus", "SigOf": "<- SigOfDef", "SusFuts": "<- SusFutsDef",
                   "MaxSusOps": max_sus_ops, "Flyers": set(flyers), "SusBand": {x for x in suspenders if x == "s3"}, "NoReplayDevs": set(noreplay),
                   "Streams": MC_BASE["Streams"] | {f + "_stream" for f in flyers},
                   "FutNames": {"f1", "f2"} | {x + g for x in suspenders for g in "abc"}})
    cfg = write_cfg(sd / f"{name}.cfg", consts, spec="MCSpec", action_constraints=["MCReport"])
    res = run_tlc(name, cfg, spec_dir=sd, workers=workers or int(os.environ.get("VERIF_TLC_WORKERS", 8)), tag=name, timeout=timeout)
    return res, parse_propviol(res.stdout)


# ---------------------------------------------------------------------------------------------------------------
# per-property verdicts
# ---------------------------------------------------------------------------------------------------------------
def tag_pred(prop):
    """which PROPVIOL tags belong to a property"""
    if prop == "C40":
        return lambda t: t.startswith("C40:") or (t.startswith("C05:") and t.endswith(":interruptions"))
    if prop == "C41":
        return lambda t: t.startswith("C41:") or (t.startswith("C05:") and t.endswith(":monitor"))
    if prop == "C14":
        # "each run's documents satisfy the lifecycle and numbering guarantees on their own": C01 / C05 clauses count for C14
        # on executions that keep several runs open under different keys
        return lambda t, tid="": t.startswith("C14:") or ((t.startswith("C01:") or t.startswith("C05:")) and tid.split("|")[0] in MULTI_RUN_PLANS)
    return lambda t: t.startswith(prop + ":")


MC_JOBS = {
    # (plan, kwargs) per tier; kept small in quick (the machine-checked bound is stated in the evidence)
    "quick": [("simple", dict(max_req=1)), ("fin", dict(max_req=1)), ("two", dict(max_req=1, req_kinds=["pause", "suspend", "abort"])),
              # devices whose stop()/pause()/resume() really await: the pause sequence, suspension start and clean-up are parks
              ("aopen", dict(max_req=1, async_devs=["amotor", "apdet"])),
              # a suspender object on a signal: install / remove / signal changes at every park (incl. before the first step)
              ("simple", dict(max_req=0, suspenders=["s1"], max_sus_ops=3)),
              # seeded random programs over the whole vocabulary, one request of any kind, every caller decision
              ("rp0", dict(max_req=1)), ("rp5", dict(max_req=1)),
              # flyers: collect inside the plan, the engine's backstop collection (one more park inside the finally block), two runs
              ("fly_left", dict(max_req=1, flyers=["fly1"])), ("fly", dict(max_req=1, flyers=["fly1"], max_faults=1, fault_kinds=["raise", "nostatus"])),
              ("declare", dict(max_req=1)),
              # a suspender with a dead band (signal value 2 neither trips nor releases); a device whose pause() refuses replay
              ("simple", dict(max_req=0, suspenders=["s3"], max_sus_ops=3)),
              ("npaus", dict(max_req=1, req_kinds=["pause", "suspend", "abort"], noreplay=["npdet"])),
              # a subscription made by the plan (Msg('subscribe')): an implicit checkpoint in the middle of the run
              ("tmpsub", dict(max_req=1, req_kinds=["pause", "suspend", "abort"]))],
    "thorough": [("simple", dict(max_req=2)), ("fin", dict(max_req=2)), ("two", dict(max_req=2, req_kinds=["pause", "suspend", "abort", "defer"])),
                 ("move", dict(max_req=1, max_faults=1, fault_kinds=["raise", "fail", "later", "nostatus"])),
                 ("mon", dict(max_req=1, max_updates=2)), ("multi", dict(max_req=1)), ("defer", dict(max_req=2, req_kinds=["defer", "pause", "abort"])),
                 ("norew", dict(max_req=2, req_kinds=["pause", "suspend"])), ("err", dict(max_req=1)), ("openonly", dict(max_req=2)),
                 ("aopen", dict(max_req=2, async_devs=["amotor", "apdet"])), ("amove", dict(max_req=1, async_devs=["amotor", "apdet"])),
                 ("simple", dict(max_req=0, suspenders=["s1"], max_sus_ops=3)),
                 ("simple", dict(max_req=1, req_kinds=["pause", "abort"], suspenders=["s1"], max_sus_ops=3)),
                 ("two", dict(max_req=0, suspenders=["s1", "s2"], max_sus_ops=3))]
                + [(f"rp{i}", dict(max_req=1)) for i in range(10)] + [("rp3", dict(max_req=2, req_kinds=["pause", "suspend", "abort"]))]
                + [("fly_left", dict(max_req=2, flyers=["fly1"])), ("fly", dict(max_req=1, flyers=["fly1"], max_faults=1, fault_kinds=["raise", "fail", "later", "nostatus"])),
                   ("fly_fin", dict(max_req=2, req_kinds=["pause", "abort", "stop", "halt"], flyers=["fly1"])),
                   ("fly_twice", dict(max_req=1, flyers=["fly1"], max_faults=1, fault_kinds=["raise"])),
                   ("fly_multi", dict(max_req=1, flyers=["fly1", "fly2"], max_updates=1)), ("fly_prep", dict(max_req=1, flyers=["fly1"])),
                   ("declare", dict(max_req=2, req_kinds=["pause", "suspend", "abort"])), ("declare_mix", dict(max_req=1)),
                   ("simple", dict(max_req=1, req_kinds=["pause", "abort"], suspenders=["s3"], max_sus_ops=3)),
                   ("npaus", dict(max_req=2, req_kinds=["pause", "suspend", "abort"], noreplay=["npdet"])),
                   ("tmpsub", dict(max_req=2, req_kinds=["pause", "suspend", "abort", "defer"]))],
}


def get_mc(tier):
    """model-check every job of the tier once (cached, shared by all RE-core properties)"""
    def build():
        from harness.core import Ctx
        random_programs(tier)          # (defines the rp<n> programs the jobs below refer to)
        random_fly_programs(tier)
        ctx = Ctx("_mc", tier, 0)
        out = []
        for idx, (plan, kw) in enumerate(MC_JOBS[tier]):
            res, pv = mc_run(ctx, plan, tag=f"{tier}{idx}", **kw)
            sigs = {}
            for _tid, tags, reqs in pv:
                for tag in tags:
                    sigs.setdefault(signature(tag, reqs), 0)
                    sigs[signature(tag, reqs)] += 1
            out.append({"plan": plan, "kw": kw, "generated": res.generated, "distinct": res.distinct, "depth": res.depth,
                        "wall": res.wall_s, "sigs": sigs})
        return out
    return cached(f"mc-{tier}", build)


def sig_suffix(trace):
    """what kind of execution a signature comes from, where that decides which await points exist / which history it is"""
    trace_id = trace["id"]
    pn = trace_id.split("|")[0]
    s = "~async" if pn in ASYNC_PLANS else "~flyer" if (pn in FLY_PLANS or re.fullmatch(r"rf\d+", pn)) else "~noreplay" if pn in NOREPLAY_PLANS else ""
    if s == "~flyer":
        # did the PLAN close a run while a flyer that had been kicked off was not collected?  (the engine's backstop collection
        # only sees runs that are still open when the engine exits)
        flying, plancloses = set(), False
        for e in trace["events"]:
            if e[0] == "dev" and e[2] == "kickoff" and e[3] in ("", "nostatus"):
                flying.add(e[1])
            elif e[0] == "dev" and e[2] == "collect":
                flying.discard(e[1])
            elif e[0] == "msg" and e[1] == "close_run" and flying:
                plancloses = True
        if plancloses:
            s += "~plancloses"
        if "|fault:" in trace_id:
            s += "~fault:" + trace_id.split("|fault:")[1].split("|")[0]      # the device fault that was injected
    if "|fault2:" in trace_id:
        s += "~fails-on-replay:" + trace_id.split("|fault2:")[1].split("|")[0]      # the device call fails when it is replayed
    if trace_id.startswith("badconsumer:"):
        s += "~consumer-fails-on-" + trace_id.split("|doc:")[1]      # the fault that was injected
    return s


def sig_class(sig):
    """abstract a signature to (tag, kinds with tail markers) for matching model findings against trace findings"""
    tag, _, rest = sig.partition("|")
    kinds = []
    for part in rest.split(","):
        k = part.split("@")[0]
        kinds.append(k + ("@tail" if "@tail/" in part else ""))
    return tag + "|" + ",".join(kinds)


def check_property(ctx, prop, proj="full", extra_rule=""):
    pred = tag_pred(prop)
    tier = ctx.tier
    # 1. model checking (bounded exhaustive) -- model-level findings
    mc = get_mc(tier)
    model_sigs = {}
    for job in mc:
        ctx.cov["states"] += job["distinct"]
        ctx.cov["transitions"] += job["generated"]
        ctx.note(f"REMC {job['plan']} {job['kw']}: {job['generated']} generated / {job['distinct']} distinct, depth {job['depth']}, {job['wall']:.0f}s")
        for s, n in job["sigs"].items():
            if pred(s.split("|")[0]):
                model_sigs.setdefault(sig_class(s), s)
    # 2. implementation traces (every scheduling point of the corpus plans):
    #    (a) conformance: TLC checks each trace is a behaviour of RE.tla (RETrace) -- binds the specification to the code;
    #    (b) the property monitors of REProps are evaluated by TLC on every event of every trace (REMon) -- the verdict.
    corpus = get_corpus(tier)
    traces = corpus["traces"]
    val = get_validation(tier, "full")
    rejected = {int(k): v for k, v in val["rejected"].items()}
    sc = val.get("selfcheck", {})
    if sc.get("accepted") or sc.get("corrupted", 0) < 5:
        ctx.machinery(f"RETrace binding self-check failed: corrupted traces accepted {sc.get('accepted')} (of {sc.get('corrupted')})")
    ctx.cov["binding_selfcheck"] = {"corrupted_traces": sc["corrupted"], "rejected": sc["rejected"]}
    mon = get_monitor(tier)
    ctx.cov["states"] += val["stats"]["distinct"] + mon["stats"]["distinct"]
    ctx.cov["transitions"] += val["stats"]["generated"] + mon["stats"]["generated"]
    seen_classes = set()
    for i, t in enumerate(traces):
        ctx.case(t["id"], "|" in t["id"])
    nconf = sum(1 for t in traces if t.get("conf", True))
    ctx.traces(nconf - len(rejected))
    ctx.cov["traces_monitored_only"] = len(traces) - nconf
    ctx.cov["traces_not_conforming_to_spec"] = len(rejected)
    if rejected:
        ex = []
        for i, upto in sorted(rejected.items())[:5]:
            t = traces[i]
            pe = [e for e in t["events"] if e[0] in PROJECTIONS["full"]]
            ex.append(f"{t['id']} (accepted {upto} of {len(pe)} events, next {pe[upto][:4] if upto < len(pe) else 'END'})")
        ctx.note(f"SPEC-DRIFT: {len(rejected)} implementation traces are not behaviours of RE.tla (the implementation or the specification "
                 f"changed); property verdicts below come from the monitors evaluated on the recorded events. Examples: {ex}")
        print(f"NOTE: {len(rejected)} of {len(traces)} implementation traces are not accepted by RE.tla (spec drift), e.g. {ex[0]}")
    for i, tags, reqs in mon["pv"]:
        for tag in tags:
            if (pred(tag, traces[i]["id"]) if prop == "C14" else pred(tag)):
                s = signature(tag, reqs) + sig_suffix(traces[i])
                seen_classes.add(sig_class(s))
                t = traces[i]
                ctx.violation(s, f"{tag} on implementation trace {t['id']} (outcomes {t['outcomes']})",
                              {"scenario": t["id"], "tag": tag, "requests": reqs})
    for t in traces[:400]:
        if "|" in t["id"] and len(ctx.cov["samples"]) < 3:
            ctx.sample({"scenario": t["id"], "outcomes": t["outcomes"], "first_events": t["events"][:8]})
    unconfirmed = sorted(c for c in model_sigs if c not in seen_classes)
    if unconfirmed:
        ctx.note(f"model-level findings of REMC not (yet) reproduced by an implementation trace of this tier: {unconfirmed[:12]}")
    ctx.cov["model_findings"] = sorted(model_sigs)[:40]
    ctx.cov["exhaustive"] = True
    ctx.rule = ("implementation executions = every scheduling point of the corpus plans (plan programs shared with REMC + built-in plans) x "
                "request kind x caller decision (+ pairs, device faults, monitor updates), each recorded through public hooks and validated "
                "by TLC against RE.tla (RETrace) with the property monitors of REProps evaluated on every step; non-trivial = has at least one "
                "request/fault; distinct by scenario id. " + extra_rule)
    ctx.assumptions += ["single-step virtual-time loop explores callback-boundary interleavings of one request thread with the run task",
                        "fake devices implement bluesky.protocols synchronously (awaits inside pause/cleanup sequences do not suspend)",
                        "TLC 1.8.0, CPython 3.12 asyncio internals (_PyTask, BaseEventLoop._ready/_scheduled)"]
