----------------------------- MODULE Dispatcher -----------------------------
(***************************************************************************)
(* C18 / C19 (delivery part) -- RunEngine.subscribe / unsubscribe /        *)
(* per-call subs / in-plan subscribe, and Dispatcher.process.              *)
(*                                                                         *)
(* Implementation-shaped: the Dispatcher keeps a public token -> private   *)
(* cids map (Dispatcher._token_mapping) on top of a CallbackRegistry that  *)
(* hands out ONE cid per (signal, callable) pair (connect() de-duplicates  *)
(* equal callables).  RefCount = TRUE models the repaired Dispatcher, which*)
(* counts how many public tokens share a private cid and disconnects it    *)
(* only when the last one goes; RefCount = FALSE is the code as found.     *)
(***************************************************************************)
EXTENDS Naturals, Sequences, FiniteSets, TLC, Json

CONSTANTS Fns,          \* callables (model values / strings)
          Sigs,         \* document kinds, e.g. {"start","stop"}
          MaxOps,       \* bound on history length
          MaxTok,       \* bound on number of tokens issued
          RefCount      \* BOOLEAN: repaired behaviour

Names == Sigs \cup {"all"}
Scopes == {"perm", "call", "plan"}

VARIABLES
  toks,       \* issued public tokens: token -> [fn, name, scope, live]   (abstract view, the property's vocabulary)
  nextTok,
  cid,        \* registry: <<sig, fn>> -> cid (0 = not connected)
  nextCid,
  refs,       \* cid -> number of public tokens holding it (only meaningful when RefCount)
  priv,       \* token -> set of private cids (Dispatcher._token_mapping); absent once popped
  temp,       \* RunEngine._temp_callback_ids
  inCall,     \* a RE(...) call is in progress
  out,        \* result of the last step: token issued / set of callables a document was delivered to
  hist        \* history of operations with their results (part of the state: every history is explored and replayed)

vars == <<toks, nextTok, cid, nextCid, refs, priv, temp, inCall, out, hist>>

NoOut == [tok |-> 99, to |-> {}]
SigsOf(name) == IF name = "all" THEN Sigs ELSE {name}

Init == /\ toks = <<>>
        /\ nextTok = 0
        /\ cid = [p \in Sigs \X Fns |-> 0]
        /\ nextCid = 1
        /\ refs = <<>>
        /\ priv = <<>>
        /\ temp = {}
        /\ inCall = FALSE
        /\ out = NoOut
        /\ hist = <<>>

E(op, f, name, tok, sig, to) == [op |-> op, fn |-> f, name |-> name, tok |-> tok, sig |-> sig, to |-> to]
Log(e) == hist' = Append(hist, e)

\* token t is live in the abstract sense: subscribed and not unsubscribed / dropped
Live(t) == t \in DOMAIN toks /\ toks[t].live

\* Dispatcher.subscribe: connect per signal (reusing a cid for an equal callable), new public token
DoSubscribe(f, name, scope) ==
    LET sigs == SigsOf(name)
        new  == {s \in sigs : cid[<<s, f>>] = 0}
        \* fresh cids are handed out in DocumentNames order; only their identity matters
        newCid == CHOOSE g \in [new -> nextCid..(nextCid + Cardinality(new))] :
                      /\ \A a, b \in new : a # b => g[a] # g[b]
                      /\ \A a \in new : g[a] < nextCid + Cardinality(new)
        cidOf(s) == IF s \in new THEN newCid[s] ELSE cid[<<s, f>>]
        mine == {cidOf(s) : s \in sigs}
    IN /\ nextTok < MaxTok
       /\ cid' = [p \in DOMAIN cid |-> IF p[2] = f /\ p[1] \in new THEN newCid[p[1]] ELSE cid[p]]
       /\ nextCid' = nextCid + Cardinality(new)
       /\ refs' = [c \in (DOMAIN refs) \cup mine |->
                     IF c \in mine THEN (IF c \in DOMAIN refs THEN refs[c] + 1 ELSE 1) ELSE refs[c]]
       /\ priv' = [t \in (DOMAIN priv) \cup {nextTok} |-> IF t = nextTok THEN mine ELSE priv[t]]
       /\ toks' = [t \in (DOMAIN toks) \cup {nextTok} |->
                     IF t = nextTok THEN [fn |-> f, name |-> name, scope |-> scope, live |-> TRUE] ELSE toks[t]]
       /\ nextTok' = nextTok + 1
       /\ out' = [tok |-> nextTok, to |-> {}]

\* Dispatcher.unsubscribe(token): pop the mapping, disconnect each private cid (RefCount: when last holder)
Disconnect(cids, cidf, refsf) ==
    LET gone == IF RefCount THEN {c \in cids : refsf[c] = 1} ELSE cids
    IN [cidn |-> [p \in DOMAIN cidf |-> IF cidf[p] \in gone THEN 0 ELSE cidf[p]],
        refsn |-> [c \in DOMAIN refsf |-> IF c \in cids /\ refsf[c] > 0 THEN refsf[c] - 1 ELSE refsf[c]]]

DoUnsubscribe(t) ==
    LET mine == IF t \in DOMAIN priv THEN priv[t] ELSE {}
        d == Disconnect(mine, cid, refs)
    IN /\ cid' = d.cidn
       /\ refs' = d.refsn
       /\ priv' = [u \in (DOMAIN priv) \ {t} |-> priv[u]]
       /\ toks' = [u \in DOMAIN toks |-> IF u = t THEN [toks[u] EXCEPT !.live = FALSE] ELSE toks[u]]

----------------------------------------------------------------------------
\* public API between calls or during a call from another thread: RE.subscribe / RE.unsubscribe
Subscribe(f, name) ==
    /\ DoSubscribe(f, name, "perm")
    /\ UNCHANGED <<temp, inCall>>
    /\ Log(E("subscribe", f, name, nextTok, "", {}))

Unsubscribe(t) ==
    /\ t \in 0..(nextTok - 1)
    /\ t \notin temp            \* (the engine's own bookkeeping of temp tokens is exercised via PlanUnsubscribe)
    /\ DoUnsubscribe(t)
    /\ UNCHANGED <<nextTok, nextCid, temp, inCall>>
    /\ out' = NoOut
    /\ Log(E("unsubscribe", "", "", t, "", {}))

\* RE(plan, subs): _clear_call_cache drops the previous call's temp tokens, then per-call subs are added.
\* One step per per-call subscription (CallSub) keeps the action simple; CallStart only clears.
RECURSIVE DropAll(_, _, _, _, _)
DropAll(S, cidf, refsf, privf, toksf) ==
    IF S = {} THEN [cidn |-> cidf, refsn |-> refsf, privn |-> privf, toksn |-> toksf]
    ELSE LET t == CHOOSE x \in S : \A y \in S : x <= y
             mine == IF t \in DOMAIN privf THEN privf[t] ELSE {}
             d == Disconnect(mine, cidf, refsf)
         IN DropAll(S \ {t}, d.cidn, d.refsn,
                    [u \in (DOMAIN privf) \ {t} |-> privf[u]],
                    [u \in DOMAIN toksf |-> IF u = t THEN [toksf[u] EXCEPT !.live = FALSE] ELSE toksf[u]])

CallStart ==
    /\ ~inCall
    /\ LET d == DropAll(temp, cid, refs, priv, toks)
       IN /\ cid' = d.cidn /\ refs' = d.refsn /\ priv' = d.privn /\ toks' = d.toksn
    /\ temp' = {}
    /\ inCall' = TRUE
    /\ UNCHANGED <<nextTok, nextCid>>
    /\ out' = NoOut
    /\ Log(E("call_start", "", "", 99, "", {}))

CallSub(f, name) ==      \* a subscription passed as RE(plan, subs): only right at the start of the call
    /\ inCall
    /\ Len(hist) > 0 /\ hist[Len(hist)].op \in {"call_start", "call_sub"}
    /\ DoSubscribe(f, name, "call")
    /\ temp' = temp \cup {nextTok}
    /\ UNCHANGED inCall
    /\ Log(E("call_sub", f, name, nextTok, "", {}))

PlanSubscribe(f, name) ==   \* Msg('subscribe', None, f, name)
    /\ inCall
    /\ DoSubscribe(f, name, "plan")
    /\ temp' = temp \cup {nextTok}
    /\ UNCHANGED inCall
    /\ Log(E("plan_subscribe", f, name, nextTok, "", {}))

PlanUnsubscribe(t) ==       \* Msg('unsubscribe', token=t) for a token obtained in this call
    /\ inCall /\ t \in temp
    /\ DoUnsubscribe(t)
    /\ temp' = temp \ {t}
    /\ UNCHANGED <<nextTok, nextCid, inCall>>
    /\ out' = NoOut
    /\ Log(E("plan_unsubscribe", "", "", t, "", {}))

\* Dispatcher.process: every callable connected for the signal is called (once)
Delivered(s) == {f \in Fns : cid[<<s, f>>] # 0}
Emit(s) ==
    /\ inCall
    /\ out' = [tok |-> 99, to |-> Delivered(s)]
    /\ UNCHANGED <<toks, nextTok, cid, nextCid, refs, priv, temp, inCall>>
    /\ Log(E("emit", "", "", 99, s, Delivered(s)))

CallEnd ==
    /\ inCall
    /\ inCall' = FALSE
    /\ out' = NoOut
    /\ UNCHANGED <<toks, nextTok, cid, nextCid, refs, priv, temp>>
    /\ Log(E("call_end", "", "", 99, "", {}))

Next ==
    /\ Len(hist) < MaxOps
    /\ \/ \E f \in Fns, n \in Names : Subscribe(f, n) \/ CallSub(f, n) \/ PlanSubscribe(f, n)
       \/ \E t \in 0..(MaxTok - 1) : Unsubscribe(t) \/ PlanUnsubscribe(t)
       \/ CallStart \/ CallEnd
       \/ \E s \in Sigs : Emit(s)

Spec == Init /\ [][Next]_vars

----------------------------------------------------------------------------
(* The property, in the vocabulary of the statement (tokens and their scope). *)

\* A token should be receiving iff it was issued, not unsubscribed, and (if temporary) its call has not
\* been superseded.  Temp tokens die at the next CallStart; no document is emitted between calls, so
\* "dropped at the end of their call" is observationally the same.
Matches(t, s) == toks[t].name = "all" \/ toks[t].name = s
Expected(s) == {toks[t].fn : t \in {u \in DOMAIN toks : toks[u].live /\ Matches(u, s)}}

\* C18: what is delivered is exactly what the live tokens ask for -- in particular unsubscribing one
\* token never silences another one, also when both hold the same callable.
C18_DeliveryMatchesLiveTokens == \A s \in Sigs : Delivered(s) = Expected(s)

\* C18: per-call and in-plan subscriptions never outlive the start of the next call
C18_TempDropped == ~inCall => \A t \in DOMAIN toks : toks[t].live /\ toks[t].scope # "perm" => t \in temp
C18_TempDroppedAtCall == [][CallStart => \A t \in DOMAIN toks' : toks'[t].scope # "perm" => ~toks'[t].live]_vars

\* C18: unsubscribing changes only that token (action property)
C18_OnlyOwnToken ==
    [][\A t \in 0..(MaxTok - 1) : (Unsubscribe(t) \/ PlanUnsubscribe(t)) =>
          \A s \in Sigs : \A f \in Fns :
              (f \in Delivered(s) /\ f \notin Delivered(s)') =>
                  (Live(t) /\ toks[t].fn = f /\ Matches(t, s)
                   /\ ~\E u \in DOMAIN toks : u # t /\ toks[u].live /\ toks[u].fn = f /\ Matches(u, s))]_vars

\* used as a CONSTRAINT in the replay-generation config: print every maximal history as JSON
DumpHist == (Len(hist) = MaxOps) => PrintT(<<"HIST", ToJson(hist)>>)

TypeOK == /\ nextTok \in 0..MaxTok
          /\ DOMAIN toks = 0..(nextTok - 1)
          /\ temp \subseteq DOMAIN toks
=============================================================================
