"""C23 -- paired-action wrappers always undo what they did.

spec/wrappers/Paired.tla specifies run_wrapper, stage_wrapper, lazily_stage_wrapper, subs_wrapper, suspend_wrapper,
monitor_during_wrapper and fly_during_wrapper by the statement / insertion rule they document, between a driver
(send / throw RequestStop, RequestAbort, error / close) and an environment plan, over a device forest with shared
roots.  Monitors over the message trace carry the property (one close_run with the right status per open_run; every
staged device unstaged once in reverse order; everything installed removed; nothing monitored / every flyer completed
and collected at each close_run; no undo after GeneratorExit); TLC checks them for all behaviours within the bound.
Every maximal TLC behaviour is replayed through the REAL wrapper and a literal Python reference with a scripted
(real) generator as wrapped plan; executions that differ from the behaviour they were derived from, random chains of
real wrappers under a random driver, and the same chains executed by a real RunEngine on protocol-only fake devices
(with device ledgers) are validated by TLC (PairedTrace).
"""
import copy
import json
import random
import re
import sys

from harness import wrapproto as wp
from harness.core import MachineryError
from harness.tlc import run_tlc, write_cfg, SPEC
from harness.tracecheck import validate_traces

SD = SPEC / "wrappers"
DESIGN_REF = "DESIGN.md section 7 (C23), Appendix E; notes/C23.md"
TECHNIQUE = ("TLA+ reference semantics of the paired-action wrappers with message-trace monitors, exhaustive TLC; replay of "
             "every TLC behaviour through the real wrappers and a literal reference; batch trace validation of random chains "
             "under a scripted driver and under a real RunEngine with device ledgers")
C23_INVS = ["C23_RunClosedOnce", "C23_RunOutcome", "C23_UnstageReverse", "C23_StageOncePerTree", "C23_SubsRemoved",
            "C23_SuspendersRemoved", "C23_RemoveOnlyAtEnd", "C23_UndoneBeforeClose", "C23_NoCleanupOnClose"]
KINDS = set(wp.PAIRED_KINDS)
HIST_RE = re.compile(r'<<"HIST", "((?:[^"\\]|\\.)*)">>')
KF_SIG = {1: "C23:lazily_stage_wrapper:shared-root-staged-again:stage-reports-root-only",
          2: "C23:lazily_stage_wrapper:status-returning-stage:TypeError-nothing-unstaged"}
KF_WHAT = {1: "lazily_stage_wrapper stages (and later unstages) the root again for a message on a child device whose root it "
              "already staged (the 'already staged' test is made on the child, not on the root)",
           2: "lazily_stage_wrapper extends its list with the Status returned by a new-style stage(): TypeError is thrown into "
              "the plan and the staged root is never unstaged by the wrapper"}


def cfg_key(c):
    return f"{c['kind']}:{','.join(map(str, c['devs']))}:{c['style']}:{c.get('pk', '')}:{''.join(map(str, c['forest']))}"


def nontrivial(h):
    return any((e["g"] == "drv" and e["op"] != "send") or (e["g"] == "p" and e["r"] == "raise") for e in h)


def tlc_histories(res):
    return [json.loads(json.loads('"' + m.group(1) + '"')) for m in HIST_RE.finditer(res.stdout)]


def run(ctx):
    old_hook = sys.unraisablehook
    sys.unraisablehook = lambda *a: None
    try:
        run_paired(ctx, "C23", "Paired_C23_small.cfg" if ctx.quick else "Paired_C23_large.cfg", KINDS, C23_INVS,
                   replay_plans(ctx.quick), wp.PAIRED_KINDS, KF_SIG, KF_WHAT)
    finally:
        sys.unraisablehook = old_hook
    ctx.assumptions += [
        "CPython generator semantics; the driver answers every message (a real RunEngine is used for the ledger runs)",
        "an exception thrown at one of the wrapper's own undo messages (unstage / unsubscribe / close_run ...) aborts the rest "
        "of the undo, as in Python's finally; the pairing is demanded when the driver lets the undo messages through",
        "devices are protocol-only fakes (bluesky.protocols) with parent links; stage() answers [self], [self + descendants] "
        "(ophyd style) or a Status",
        "a device counts as staged by the wrapper when its stage message was answered normally",
    ]


def replay_plans(quick):
    base = {"PRaise": {"ErrI"}, "CatchThrow": True, "MisbehaveClose": False, "AsCoded": True, "PosKinds": {"locate"},
            "Positions": {0}, "Offsets": {1}, "Styles": {"self", "status", "tree"}}
    if quick:
        return [dict(base, Kinds=set(KINDS), MaxOps=4, PMsgs=2, Thrown={"Err", "Abort"}, Forests="<- FShared", DevLists="<- ListsCurated")]
    return [dict(base, Kinds={"run", "subs", "suspend", "monitor_during", "fly_during"}, MaxOps=6, PMsgs=3,
                 Thrown={"Err", "Stop", "Abort"}, Forests="<- FShared", DevLists="<- Lists4x3", MisbehaveClose=True),
            dict(base, Kinds={"stage"}, MaxOps=5, PMsgs=2, Thrown={"Err", "Stop", "Abort"}, Forests="<- FBoth",
                 DevLists="<- Lists4x3"),
            dict(base, Kinds={"lazy_stage"}, MaxOps=5, PMsgs=3, Thrown={"Err", "Abort"}, Forests="<- FBoth",
                 DevLists="<- NoLists")]


def run_paired(ctx, prop, exhaustive_cfg, kinds, invs, plans, pool, kf_sig, kf_what):
    """shared by C23 and C24 (the two properties use the same machine, different wrapper kinds and invariants)"""
    # ---- 1. the design ------------------------------------------------------------------------------------------
    res = run_tlc("MCPaired", exhaustive_cfg, spec_dir=SD, tag=prop, timeout=3400)
    ctx.add_tlc(res, "Paired exhaustive " + exhaustive_cfg)
    if not res.ok:
        st = res.trace[-1][1] if res.trace else {}
        h = [wp.short(e) for e in st.get("hist", ())]
        ctx.violation(f"spec:{res.violated}", f"Paired.tla {res.kind} {res.violated} violated: cfg={st.get('cfg')} history {h}",
                      {"hist": h, "cfg": str(st.get("cfg"))})
        return
    ctx.cov["exhaustive"] = True
    ctx.rule = ("case = one maximal behaviour of Paired.tla (wrapper kind and arguments, device forest, response style, driver "
                "script, reactions of the wrapped plan) replayed through the real wrapper and a literal reference, or one "
                "interface trace of a wrapper instance in a random chain (scripted driver / real RunEngine); distinct by "
                "(configuration, full event sequence); non-trivial = contains a throw, a close or a raising plan")
    # ---- 2. spec -> code ------------------------------------------------------------------------------------------
    deferred = []
    kf_seen_model = set()
    for pk, consts in enumerate(plans):
        cfgp = write_cfg(ctx.out / f"replay{pk}.cfg", consts, invariants=invs, constraints=["DumpHist"])
        res = run_tlc("MCPaired", cfgp, spec_dir=SD, tag=prop + "r", workers=1, timeout=6000)
        ctx.add_tlc(res, f"replay generation kinds={sorted(consts['Kinds'])} MaxOps={consts['MaxOps']} PMsgs={consts['PMsgs']}")
        if not res.ok:
            raise MachineryError(f"replay generation config violated {res.violated}")
        hists = tlc_histories(res)
        if not hists:
            raise MachineryError("no histories printed by Paired.tla")
        for H in hists:
            cfg, h, kf = H["cfg"], H["h"], H["kf"]
            if kf:
                kf_seen_model.add(kf)
            ctx.case((cfg_key(cfg), tuple(wp.short(e) for e in h)), nontrivial(h))
            if not kf:
                got = wp.replay_paired(cfg, h, "literal")
                if wp.first_diff(h, got):
                    deferred.append({"cfg": cfg, "h": wp.usable_prefix(got), "ledger": [], "led": False, "src": "literal", "spec_h": h})
            got = wp.replay_paired(cfg, h, "real")
            if wp.first_diff(h, got) is None:
                if kf:
                    ctx.violation(kf_sig[kf], f"{kf_what[kf]}; replayed TLC behaviour {[wp.short(e) for e in h]}", {"cfg": cfg, "hist": h})
                elif nontrivial(h):
                    ctx.sample({"cfg": cfg_key(cfg), "events": [wp.short(e) for e in h]})
            else:
                deferred.append({"cfg": cfg, "h": wp.usable_prefix(got), "ledger": [], "led": False, "src": "real", "spec_h": h})
    for k in kf_sig:
        if k not in kf_seen_model:
            raise MachineryError(f"the as-coded alternative of open finding {k} was not generated (vacuous exemption)")
    # executions that left the behaviour they were derived from (unspecified unsubscribe order, as-coded alternatives)
    # are still genuine executions; they must be behaviours of the specification
    seen = set()
    batch = []
    for t in deferred:
        key = json.dumps([t["cfg"], t["h"]], sort_keys=True)
        if key not in seen and t["h"]:
            seen.add(key)
            t["src"] = f"replay of a TLC behaviour through the {t['src']} implementation"
            t["count"] = False
            batch.append(t)

    # ---- 3. code -> spec ------------------------------------------------------------------------------------------
    rng = random.Random(ctx.seed)
    n1, n2 = (150, 120) if ctx.quick else (5000, 2500)
    for src, traces in (("random chain, scripted driver", wp.random_paired_traces(rng, n1, pool)),
                        ("random chain, real RunEngine", wp.re_paired_traces(rng, n2, pool))):
        for t in traces:
            if t["cfg"]["kind"] in kinds:
                t["src"] = src
                t["count"] = True
                batch.append(t)
    nled = sum(1 for t in batch if t["led"] and t["ledger"])
    ctx.note(f"{len(batch)} implementation traces to validate, {nled} of them RunEngine executions with a non-empty device ledger")
    if nled == 0:
        raise MachineryError("no device ledger was compared (vacuous ledger check)")
    validate(ctx, prop, batch, kf_sig, kf_what)


def corrupted(part):
    """binding self-check: corrupted copies of real traces (wrong outcome, dropped message, dropped ledger entry)"""
    out = []
    bare = lambda t: copy.deepcopy({k: t[k] for k in ("cfg", "h", "ledger", "led")})   # noqa: E731
    for t in part:
        if len(t["h"]) >= 6 and t["h"][-1]["g"] == "out" and t["h"][-1]["r"] in ("return", "raise") and not t["led"]:
            c1 = bare(t)
            c1["h"][-1]["r"] = "return" if c1["h"][-1]["r"] != "return" else "raise"
            c2 = bare(t)
            del c2["h"][max(j for j, e in enumerate(c2["h"][:-1]) if e["g"] == "out")]
            out += [c1, c2]
            break
    for t in part:
        if t["led"] and len(t["ledger"]) >= 2:
            c3 = bare(t)
            del c3["ledger"][-1]
            out.append(c3)
            break
    return out


def validate(ctx, prop, traces, kf_sig, kf_what):
    chunk = 3000
    n_corrupt = 0
    for c0 in range(0, len(traces), chunk):
        part = traces[c0:c0 + chunk]
        extra = corrupted(traces) if c0 == 0 else []
        n_corrupt += len(extra)
        payload = [{k: t[k] for k in ("cfg", "h", "ledger", "led")} for t in part] + extra
        v = validate_traces("PairedTrace", "PairedTrace.cfg", payload, SD, ctx.out, tag=f"{prop}t", timeout=3400)
        ctx.add_tlc(v.res, f"PairedTrace ({len(part)} traces)")
        for j in range(len(extra)):
            if not v.invariant and len(part) + j not in v.rejected:
                raise MachineryError("a corrupted trace / ledger was accepted by PairedTrace (binding broken)")
        ends = {}
        for a, b in re.findall(r'<<"END", (\d+), (\d+)>>', v.res.stdout):
            ends.setdefault(int(a) - 1, set()).add(int(b))
        if v.invariant:
            t = part[v.inv_trace_index] if v.inv_trace_index is not None and v.inv_trace_index < len(part) else None
            ctx.violation(f"trace-invariant:{v.invariant}:{cfg_key(t['cfg']) if t else '?'}",
                          f"{v.invariant} violated on an implementation trace ({t['src'] if t else ''}): "
                          f"{[wp.short(e) for e in t['h']] if t else ''}",
                          {"trace": {k: t[k] for k in ("cfg", "h", "ledger", "led")} if t else None})
            continue        # TLC stops at the first violated invariant: the rest of the chunk is not judged
        n_acc = 0
        for idx, t in enumerate(part):
            if t.get("count", True):
                ctx.case((cfg_key(t["cfg"]), tuple(wp.short(e) for e in t["h"])), nontrivial(t["h"]))
            if idx in v.rejected:
                upto = v.rejected[idx]
                evs = [wp.short(e) for e in t["h"]]
                where = wp.short(t["h"][upto]) if upto < len(t["h"]) else "end"
                if upto == len(t["h"]) - 1 and t["led"]:
                    where += "/ledger"
                ctx.violation(f"trace-rejected:{t['cfg']['kind']}:{where}",
                              f"execution of the real {t['cfg']['kind']} wrapper ({t['src']}) is not a behaviour of Paired.tla: "
                              f"event {upto} of {evs}" + (f" ledger {[wp.short_v(x) for x in t['ledger']]}" if t["led"] else "")
                              + (f"; derived from TLC behaviour {[wp.short(e) for e in t['spec_h']]}" if "spec_h" in t else ""),
                              {"trace": {k: t[k] for k in ("cfg", "h", "ledger", "led")}, "accepted_prefix": upto})
                continue
            n_acc += 1
            fin = ends.get(idx, {0})
            if 0 not in fin:          # only explained by the as-coded alternative of an open finding
                for k in sorted(fin):
                    ctx.violation(kf_sig[k], f"{kf_what[k]}; {t['src']}: {[wp.short(e) for e in t['h']]}",
                                  {"trace": {k2: t[k2] for k2 in ("cfg", "h", "ledger", "led")}})
        ctx.traces(n_acc)
    if n_corrupt < 3:
        raise MachineryError("could not build the corrupted traces for the binding self-check")
