CONSTANTS
  Skels = {}
SPECIFICATION TraceSpec
INVARIANT T_WellFormed
INVARIANT T_Returns
INVARIANT T_SameShape
INVARIANT T_Leaves
POSTCONDITION AllSeen
