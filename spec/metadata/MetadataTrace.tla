---------------------------- MODULE MetadataTrace ----------------------------
(* Batch validation of implementation traces against Metadata.tla.                  *)
(* TRACE_FILE: ndjson, one trace per line = sequence of events                       *)
(*   [op, o, vmode, nmode, kind, start, md, kw, ident]                               *)
(* recorded by the harness from a real RunEngine: "init" (initial RE.md), "set_md",   *)
(* "call_start" (kw = RE(...) keywords, ident = identity of the plan object),         *)
(* "open" (o = open_run keywords, vmode / nmode = what validator / normalizer were    *)
(* told to do; kind / start / md = what was OBSERVED: start document or rejection,    *)
(* RE.md afterwards), "call_end".  Every dictionary is total over AllKeys, 0 = absent.*)
(* Each event must be explained by the corresponding Metadata action with exactly the *)
(* observed results; every invariant of Metadata is evaluated in every state of every *)
(* accepted trace.  Variant = "either": a rejected open may take the repaired or the  *)
(* as-found step; the as-found step is announced as <<"KF-GAP", tid, l, ...>>.        *)
EXTENDS Metadata, IOUtils

Traces == ndJsonDeserialize(IOEnv.TRACE_FILE)

VARIABLES tid, l
tvars == <<vars, tid, l>>

TraceInit == /\ tid \in 1..Len(Traces)
             /\ Traces[tid][1].op = "init"
             /\ InitWith(Traces[tid][1].md)
             /\ l = 2
             /\ TLCSet(tid, 2)

E == Traces[tid][l]

Step ==
    \/ E.op = "set_md" /\ SetMd(E.md)
    \/ E.op = "call_start" /\ CallStart(E.kw, E.ident)
    \/ E.op = "open" /\ Open(E.o, E.vmode, E.nmode) /\ last'.kind = E.kind /\ last'.start = E.start
    \/ E.op = "call_end" /\ CallEnd

TraceNext == /\ l <= Len(Traces[tid])
             /\ Step
             /\ md' = E.md                       \* the observed persistent metadata after the operation
             /\ l' = l + 1
             /\ UNCHANGED tid
             /\ TLCSet(tid, l + 1)
             /\ (gaps' > gaps => PrintT(<<"KF-GAP", tid, l, E.vmode, E.nmode>>))

TraceSpec == TraceInit /\ [][TraceNext]_tvars

Progress(t) == TLCGet(t)
TraceAccepted ==
    \A t \in 1..Len(Traces) :
        \/ Progress(t) = Len(Traces[t]) + 1
        \/ PrintT(<<"REJECTED", t, Progress(t)>>) /\ FALSE
=============================================================================
