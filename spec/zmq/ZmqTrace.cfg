CONSTANTS
  Prefixes = {}
  BadPrefixes = {}
  DPrefixes = {}
  GoodNames = {}
  BadKinds = {}
  MaxFrames = 100000
  MaxInFlight = 100000
  Repaireds = {}
SPECIFICATION TraceSpec
INVARIANT C33_OnlyOwnInOrder
INVARIANT C33_NothingLost
INVARIANT C33_StrictRaisesOnMalformed
INVARIANT C33_NonStrictNeverStops
INVARIANT KFReport
INVARIANT C33_MalformedDeliversNothing
POSTCONDITION TraceAccepted
