------------------------- MODULE DispatcherErrTrace -------------------------
(* Batch validation of implementation traces against DispatcherErr.tla.          *)
(* TRACE_FILE: ndjson, one trace per line:                                        *)
(*   [cfg |-> [names, raise (sequences of indices), ignore, catch, cmds],         *)
(*    ev  |-> sequence of events [op, idx, kind, status, calls, msg, who, how]]   *)
(* recorded by harness/props/C19.py from a real RunEngine: "emit" (one per        *)
(* document handed to the dispatcher, with the callbacks invoked, in order),      *)
(* "plan_exc" (the plan was thrown an exception at message msg, raised by         *)
(* callback who), "end" (how the call ended).  The events of every step of       *)
(* DispatcherErr must be exactly the next events of the trace.                    *)
(* The behaviour may follow the registry as found or the repaired one             *)
(* (deliverAll); all invariants are evaluated in every state.                     *)
EXTENDS DispatcherErr, IOUtils

Traces == ndJsonDeserialize(IOEnv.TRACE_FILE)

VARIABLES tid, l
tvars == <<vars, tid, l>>

CfgOf(t) == [names |-> t.cfg.names,
             raise |-> [f \in DOMAIN t.cfg.raise |-> Range(t.cfg.raise[f])],
             ignore |-> t.cfg.ignore, catch |-> t.cfg.catch, cmds |-> t.cfg.cmds]

TraceInit == /\ tid \in 1..Len(Traces)
             /\ \E da \in BOOLEAN : InitWith(CfgOf(Traces[tid]), da)
             /\ l = 1
             /\ TLCSet(tid, 1)

Max(a, b) == IF a > b THEN a ELSE b

\* every step produces events: they must be exactly the next events of the trace
TraceNext == /\ (Emit \/ Finish)
             /\ l + Len(out') - 1 <= Len(Traces[tid].ev)
             /\ out' = SubSeq(Traces[tid].ev, l, l + Len(out') - 1)
             /\ l' = l + Len(out')
             /\ UNCHANGED tid
             /\ TLCSet(tid, Max(TLCGet(tid), l + Len(out')))

TraceSpec == TraceInit /\ [][TraceNext]_tvars

\* TLC names the traces on which the known finding shows (the strict property fails, inside the finding's signature)
KFReport == (phase = "done" /\ KF_C19_1 /\ ~ClosedForAll) => PrintT(<<"KF1", tid>>)

Progress(t) == TLCGet(t)
TraceAccepted ==
    \A t \in 1..Len(Traces) :
        \/ Progress(t) = Len(Traces[t].ev) + 1
        \/ PrintT(<<"REJECTED", t, Progress(t)>>) /\ FALSE
=============================================================================
