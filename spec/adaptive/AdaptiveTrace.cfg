SPECIFICATION TraceSpec
INVARIANT TR_AdaptiveInRange
INVARIANT TR_TuneInRange
INVARIANT TR_ParkInRange
INVARIANT TR_IterBound
POSTCONDITION TraceAccepted
