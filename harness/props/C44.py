"""C44 -- peak statistics describe the data they were given.

spec/peakstats/PeakStats.tla defines the statistics from the class documentation in exact rationals and TLC checks the
C44 invariants (max/min are arg-extrema, centre of mass and centre within the x range, every crossing between two
adjacent samples straddling the half-maximum and every such pair crossed, fwhm = distance of the outermost crossings)
for EVERY strictly monotonic small-integer x (increasing / decreasing, uniform / non-uniform), y in 0..3, n <= 4 (quick)
/ 6 (thorough), with and without edge background subtraction.  Every enumerated case is replayed into the real
PeakStats callback (start / descriptor / event / stop documents) and compared.  Random larger arrays: the
implementation's outputs are logged in 10^-6 fixed point and TLC evaluates the C44 invariants on the recorded values
(PeakStatsTrace.tla) -- that half is predicate checking on recorded outputs, not state exploration.

Assurance: model_checking in the sense of DESIGN.md section 7 (C44): the specification is an executable oracle over the
exhaustively enumerated abstract domain + conformance of the implementation on every enumerated and every recorded case.
"""
import json
import math
import random
from fractions import Fraction

from harness.adaptive_helpers import SC, peakstats_run
from harness.tlc import run_tlc, SPEC

SD = SPEC / "peakstats"
DESIGN_REF = "DESIGN.md section 7 (C44)"
TECHNIQUE = "TLA+ (exact rationals) as oracle checked by TLC over the whole bounded domain; replay of every case into the " \
            "real callback; TLC predicate checking of recorded outputs"
LEVEL_NOTE = ("TLC 1.8.0 and the CommunityModules are trusted; `exhaustive` refers to the enumerated abstract domain only "
              "(small-integer x, y in 0..3, n <= 6); the random-array half is predicate checking by TLC on recorded outputs")
SMALL_JVM = ["-XX:-UseParallelGC", "-XX:+UseSerialGC", "-Xss64m"]
TOL = 1e-9


def fr(v):
    return Fraction(v[0], v[1])


def describe(x, y, edge):
    return f"x={list(x)} y={list(y)} edge_count={edge}"


def check_case(ctx, c, out):
    """compare the implementation's outputs with one TLC case; returns the list of (sig, what)"""
    x, y, e = c["x"], c["y"], c["edge"] or None
    lo, hi = min(x), max(x)
    tag = f"n={len(x)}:edge={c['edge']}"
    bad = []
    # max / min: the x of the largest / smallest y (any of them when several are equal)
    if out["max"] is None or out["max"][0] not in c["maxxs"]:
        bad.append((f"max:{tag}", f"max reported at x={out['max']} but the largest y is at x in {c['maxxs']}"))
    elif out["max"][1] != y[x.index(int(out["max"][0]))]:
        bad.append((f"max-y:{tag}", f"max reports y={out['max'][1]} which is not the y recorded at x={out['max'][0]}"))
    if out["min"] is None or out["min"][0] not in c["minxs"]:
        bad.append((f"min:{tag}", f"min reported at x={out['min']} but the smallest y is at x in {c['minxs']}"))
    # centre of mass within the x range
    com = out["com"]
    if c["sumzero"]:
        if com is not None and math.isnan(com):
            bad.append((f"com:nan:zero-mass:{tag}", "com is NaN: the (background-subtracted) y sums to zero"))
        elif com is not None and not (lo - TOL <= com <= hi + TOL):
            bad.append((f"com:range:{tag}", f"com={com} outside [{lo}, {hi}]"))
    else:
        if com is None or math.isnan(com) or not (lo - TOL <= com <= hi + TOL):
            bad.append((f"com:range:{tag}", f"com={com} outside the x range [{lo}, {hi}]"))
    # crossings / cen / fwhm
    exp_cr = [float(fr(v)) for v in c["cr"]]
    cr = out["crossings"] or []
    exact = not (c["edge"] and c["midtie"])       # a sample exactly at the half-maximum + float background: either side
    if exact:
        if len(cr) != len(exp_cr) or any(abs(a - b) > TOL * 10 for a, b in zip(cr, exp_cr)):
            bad.append((f"crossings:{tag}", f"crossings {cr} but the polyline crosses the half-maximum at {exp_cr}"))
    else:
        if any(not (lo - TOL <= v <= hi + TOL) for v in cr):
            bad.append((f"crossings:range:{tag}", f"crossings {cr} outside the x range"))
    if cr:
        if out["cen"] is None or not (lo - TOL <= out["cen"] <= hi + TOL):
            bad.append((f"cen:range:{tag}", f"cen={out['cen']} outside the x range [{lo}, {hi}] (crossings {cr})"))
    elif out["cen"] is not None:
        bad.append((f"cen:without-crossings:{tag}", f"cen={out['cen']} reported without any crossing"))
    if len(cr) >= 2:
        want = max(cr) - min(cr)
        if out["fwhm"] is None or abs(out["fwhm"] - want) > TOL * 10 or abs(out["fwhm"] - abs(cr[-1] - cr[0])) > TOL * 10:
            bad.append((f"fwhm:{tag}", f"fwhm={out['fwhm']} but the outermost crossings {min(cr)}, {max(cr)} are {want} apart"))
        elif exact and abs(out["fwhm"] - float(fr(c["fwhm"]))) > TOL * 10:
            bad.append((f"fwhm:{tag}", f"fwhm={out['fwhm']} but specified {float(fr(c['fwhm']))}"))
    elif out["fwhm"] not in (None, 0.0):
        bad.append((f"fwhm:without-two-crossings:{tag}", f"fwhm={out['fwhm']} with {len(cr)} crossing(s)"))
    return bad


def random_case(rng, i):
    n = rng.randint(2, 40)
    step = rng.choice([1, 10, 1000, 250000])
    xs = [rng.randint(-200, 200) * 1000]
    d = rng.choice([1, -1])
    for _ in range(n - 1):
        xs.append(xs[-1] + d * rng.randint(1, 6) * step)
    shape = rng.choice(["peak", "dip", "noise", "step", "two", "flat", "ramp"])
    c = rng.uniform(min(xs), max(xs))
    w = (max(xs) - min(xs) + 1) * rng.uniform(0.05, 0.5)
    amp = rng.choice([1, 5, 100, 400])
    ys = []
    for v in xs:
        g = math.exp(-0.5 * ((v - c) / w) ** 2)
        if shape == "peak":
            t = amp * g
        elif shape == "dip":
            t = amp * (1 - g)
        elif shape == "noise":
            t = rng.uniform(-amp, amp)
        elif shape == "step":
            t = amp if v > c else 0
        elif shape == "two":
            t = amp * (g + math.exp(-0.5 * ((v - c - 3 * w) / w) ** 2))
        elif shape == "flat":
            t = amp
        else:
            t = amp * (v - xs[0]) / (xs[-1] - xs[0])
        if rng.random() < 0.5:
            t += rng.uniform(-0.05, 0.05) * amp
        ys.append(round(t * 1000))          # y in units of 10^-3: exact in 10^-6 fixed point
    edge = None
    if n >= 4 and i % 3 == 0:
        edge = rng.randint(1, n // 2)
    return [v / SC for v in xs], [v / 1000 for v in ys], xs, [v * 1000 for v in ys], edge, shape


def run(ctx):
    quick = ctx.quick
    ctx.rule = ("(a) every (x, y, edge_count) of the bounded domain of PeakStats.tla replayed into the real PeakStats callback; "
                "distinct = the input itself, non-trivial = y not constant; (b) random larger arrays (n <= 40, seven shapes, "
                "with/without edge_count) whose recorded outputs are checked by TLC; distinct = the input")
    cfgs = ["PeakStats_small.cfg"] if quick else ["PeakStats_large.cfg", "PeakStats_n6.cfg"]
    agree = total = ties = defined = 0
    ok_spec = True
    for cfg in cfgs:
        cases_file = ctx.out / f"cases_{cfg}.ndjson"
        res = run_tlc("PeakStats", cfg, spec_dir=SD, env={"CASES_OUT": cases_file}, tag="C44", timeout=3000,
                      java_opts=SMALL_JVM)
        ctx.add_tlc(res, "PeakStats.tla exhaustive " + cfg)
        if not res.ok:
            ok_spec = False
            st = res.trace[-1][1] if res.trace else {}
            ctx.violation(f"spec:{res.violated}", f"PeakStats.tla invariant {res.violated} violated on the specification itself "
                          f"for x={st.get('x')} y={st.get('y')} edge={st.get('edge')}", {"tlc_trace": str(res.trace)[:3000]})
            continue
        for ln in open(cases_file):
            c = json.loads(ln)
            # (every third / fourth case: the run also has a second stream whose events carry only x, or only y)
            out = peakstats_run(c["x"], c["y"], c["edge"] or None, other=(None, None, "mot", "det")[total % 4])
            ctx.case((tuple(c["x"]), tuple(c["y"]), c["edge"]), len(set(c["y"])) > 1)
            total += 1
            if c["edge"] and c["midtie"]:
                ties += 1
            defined += c["comdef"]
            if c["comdef"] and out["com"] is not None and abs(out["com"] - float(fr(c["com"]))) <= 1e-7:
                agree += 1
            for sig, what in check_case(ctx, c, out):
                ctx.violation(sig, f"PeakStats {describe(c['x'], c['y'], c['edge'] or None)}: {what}",
                              {"x": c["x"], "y": c["y"], "edge_count": c["edge"] or None, "implementation": out,
                               "specified": {k: c[k] for k in ("maxxs", "minxs", "cr", "cen", "fwhm", "com", "comdef")}})
            if len(c["cr"]) >= 3 and c["edge"] == 0:
                ctx.sample({"x": c["x"], "y": c["y"], "crossings": [float(fr(v)) for v in c["cr"]],
                            "fwhm": float(fr(c["fwhm"])), "implementation": out})
    ctx.cov["exhaustive"] = ok_spec
    ctx.note(f"{total} enumerated cases replayed; com equals the specified interpolated index centre of mass in {agree} of the {defined} "
             f"with non-zero mass (informational: C44 only demands the range); {ties} cases with background subtraction and a sample exactly at the "
             "half-maximum are compared on range / consistency only (floating point may put that sample on either side)")
    # random larger arrays: implementation outputs recorded, C44 predicates evaluated by TLC on the recorded values
    rng = random.Random(ctx.seed)
    recs = []
    inputs = []
    for i in range(80 if quick else 1500):
        xf, yf, xi, yi, edge, shape = random_case(rng, i)
        out = peakstats_run(xf, yf, edge, other=(None, "mot", "det")[i % 3])
        ctx.case((tuple(xi), tuple(yi), edge), shape != "flat")
        if edge is None:
            ysub, tol = yi, 0
        else:
            m, b = out["lin_bkg"]
            ysub, tol = [int(round((yv - (m * xv + b)) * SC)) for xv, yv in zip(xf, yf)], 4
        zero = (sum(ysub) == 0) if edge is None else abs(sum(ysub)) <= 4 * len(ysub)
        com = out["com"]
        if zero and com is not None and math.isnan(com):
            ctx.violation(f"com:nan:zero-mass:n={len(xi)}:edge={edge or 0}",
                          f"PeakStats x={xf} y={yf} edge_count={edge}: com is NaN (y sums to zero)", {"x": xf, "y": yf, "edge_count": edge})
        cr = out["crossings"] or []
        recs.append({"x": xi, "ys": ysub, "tol": tol,
                     "maxx": int(round(out["max"][0] * SC)), "minx": int(round(out["min"][0] * SC)),
                     "hascom": not zero, "comnan": com is None or math.isnan(com),
                     "com": 0 if com is None or math.isnan(com) else int(round(com * SC)),
                     "cr": [int(round(v * SC)) for v in cr],
                     "hascen": out["cen"] is not None, "cen": 0 if out["cen"] is None else int(round(out["cen"] * SC)),
                     "hasfwhm": out["fwhm"] is not None, "fwhm": 0 if out["fwhm"] is None else int(round(out["fwhm"] * SC))})
        inputs.append((xf, yf, edge, out))
    uniq = {json.dumps(r, sort_keys=True): k for k, r in enumerate(recs)}
    keep = sorted(uniq.values())
    tf = ctx.out / "impl_outputs.ndjson"
    with open(tf, "w") as fh:
        for k in keep:
            fh.write(json.dumps(recs[k]) + "\n")
    res = run_tlc("PeakStatsTrace", "PeakStatsTrace.cfg", spec_dir=SD, env={"TRACE_FILE": tf}, tag="C44t", workers=1,
                  timeout=3000, java_opts=SMALL_JVM)
    ctx.add_tlc(res, "PeakStatsTrace")
    ctx.note("PeakStatsTrace: predicate checking on recorded outputs -- TLC evaluates the C44 invariants on the values the "
             "implementation reported for random larger arrays (10^-6 fixed point); no state exploration is involved")
    if res.ok:
        ctx.traces(len(keep))
    elif res.violated == "postcondition":
        ctx.machinery("PeakStatsTrace: not every recorded case was evaluated")
    else:
        st = res.trace[-1][1] if res.trace else {}
        k = keep[st["k"] - 1] if "k" in st else None
        xf, yf, edge, out = inputs[k] if k is not None else (None, None, None, None)
        ctx.violation(f"recorded:{res.violated}:n={len(xf) if xf else '?'}:edge={edge or 0}",
                      f"{res.violated} fails on the outputs PeakStats reported for x={xf} y={yf} edge_count={edge}: {out}",
                      {"x": xf, "y": yf, "edge_count": edge, "implementation": out, "violated": res.violated})
    ctx.assumptions += ["numpy behaves as documented; |x| <= 1000, |y| <= 500 in the recorded cases (32-bit fixed point)",
                        "edge_count is None or 1 <= edge_count <= n/2 (non-overlapping edges; with more the background line "
                        "is undefined)",
                        "com is compared on the range only (the property); its agreement with the interpolated index centre of "
                        "mass is reported as a note"]


def replay(ctx, obj):
    """./check C44 --replay FILE: re-execute the failing input of a violation file on the real PeakStats"""
    rp = obj.get("replay") or obj
    if "x" not in rp:
        print(json.dumps(obj, indent=1)[:4000])
        return 0
    out = peakstats_run(rp["x"], rp["y"], rp.get("edge_count"))
    print(f"PeakStats x={rp['x']} y={rp['y']} edge_count={rp.get('edge_count')}\n-> {out}")
    print("reported:", obj.get("what"))
    return 0
