------------------------------- MODULE Scans -------------------------------
(***************************************************************************)
(* C25 -- step scans visit exactly the documented trajectory.              *)
(*                                                                         *)
(* Table-like module (same scheme as Snake.tla).  A *case* is what the     *)
(* caller asks for: a kind ("inner" = scan / inner_product_scan / list_scan*)
(* / scan_nd over an inner product, "outer" = grid_scan / list_grid_scan / *)
(* scan_nd over a mesh, "x2x" = x2x_scan, "log" = log_scan on the exponent *)
(* grid), one (start, stop, num) per axis and a snake flag per axis.       *)
(* The expected trajectory is defined from the documentation:              *)
(*   Linspace(a, b, n)  n equally spaced values from a to b inclusive, in  *)
(*                      exact rationals <<num, den>> (reduced, den > 0);   *)
(*   inner product      point k takes value k of every axis;               *)
(*   outer product      all combinations, first axis slowest (row-major),  *)
(*                      axis i reversed on odd passes when snaked -- the   *)
(*                      index order is Snake!SnakeOrder (C26 module,    *)
(*                      instantiated read-only).                           *)
(* Per point the plan must emit  checkpoint . set* . wait . trigger . wait *)
(* . create . read* . save  (PointMsgs); a 'set' is mandatory for an axis  *)
(* whose coordinate differs from the previous point (or at the first       *)
(* point) and optional otherwise.  Md is the start-document metadata the   *)
(* statement talks about (num_points, shape, extents).                     *)
(* Every property is its own INVARIANT; TLC checks them on every case of   *)
(* the bounded domain (Profiles), DumpCases writes one row per case which  *)
(* harness/props/C25.py replays through the real plans.  (The cases are    *)
(* successors of NBlocks initial "block" states only so that TLC's workers *)
(* share them; TLC reports NBlocks more states than there are cases.)      *)
(***************************************************************************)
EXTENDS Integers, Sequences, SequencesExt, FiniteSets, TLC, Json, IOUtils

CONSTANTS Profiles      \* set of [kind, nmin, nmax, lo, hi, maxnum, maxtotal, strict]: the bounded input domain

VARIABLES case, pts, md,
          ord,      \* meshes: the index order (Snake!SnakeOrder), computed once; <<>> otherwise
          blk       \* > 0: a block of the domain still to be expanded (lets TLC's workers share the cases); 0: a case
vars == <<case, pts, md, ord, blk>>

----------------------------------------------------------------------------
\* exact rationals
RECURSIVE GCD(_, _)
GCD(a, b) == IF b = 0 THEN a ELSE GCD(b, a % b)
Abs(x) == IF x < 0 THEN -x ELSE x
Norm(n, d) == LET s == IF d < 0 THEN -1 ELSE 1
                  g == GCD(Abs(n), Abs(d))
              IN <<(s * n) \div g, (s * d) \div g>>
R(i) == <<i, 1>>
Z == R(0)
RAdd(p, q) == Norm(p[1] * q[2] + q[1] * p[2], p[2] * q[2])
RSub(p, q) == Norm(p[1] * q[2] - q[1] * p[2], p[2] * q[2])
RMulI(p, k) == Norm(p[1] * k, p[2])
RDivI(p, k) == Norm(p[1], p[2] * k)                \* k > 0
RLe(p, q) == p[1] * q[2] <= q[1] * p[2]
IsRat(p) == p[2] > 0 /\ GCD(Abs(p[1]), p[2]) = 1

\* n equally spaced values from a to b inclusive (a alone when n = 1)
Linspace(a, b, n) == [k \in 1..n |-> IF n = 1 THEN a ELSE RAdd(a, RDivI(RMulI(RSub(b, a), k - 1), n - 1))]

----------------------------------------------------------------------------
\* the snake index order of C26 (operators only; Snake's variables are bound to this module's case)
NAx(c) == Len(c.axes)
Lens(c) == [i \in 1..NAx(c) |-> c.axes[i].num]
S == INSTANCE Snake WITH MaxAxes <- 0, MaxLen <- 0, MaxTotal <- 0,
                         lens <- Lens(case), flags <- case.snake, order <- <<>>
Order(c) == S!SnakeOrder(Lens(c), c.snake)
\* Snake's invariants, read on this module's case
SV == INSTANCE Snake WITH MaxAxes <- 0, MaxLen <- 0, MaxTotal <- 0,
                          lens <- Lens(case), flags <- case.snake, order <- ord

IsOuter(c) == c.kind = "outer"
Lin(c, i) == Linspace(c.axes[i].start, c.axes[i].stop, c.axes[i].num)

\* lin[i] = the list of positions of axis i
PointsFrom(outer, lin, snake) ==
    LET n == Len(lin)
    IN IF outer
       THEN LET o == S!SnakeOrder([i \in 1..n |-> Len(lin[i])], snake)
            IN [t \in 1..Len(o) |-> [i \in 1..n |-> lin[i][o[t][i] + 1]]]
       ELSE [k \in 1..Len(lin[1]) |-> [i \in 1..n |-> lin[i][k]]]
Points(c) == PointsFrom(IsOuter(c), [i \in 1..NAx(c) |-> Lin(c, i)], c.snake)

Md(c) == [num_points |-> Len(Points(c)),
          shape |-> IF IsOuter(c) THEN Lens(c) ELSE <<>>,
          extents |-> IF IsOuter(c) THEN [i \in 1..NAx(c) |-> <<c.axes[i].start, c.axes[i].stop>>] ELSE <<>>]

----------------------------------------------------------------------------
\* expected messages.  devices: motors 1..n, the detector n+1, 0 = no object
Ev(cmd, m, v, must) == [c |-> cmd, m |-> m, v |-> v, must |-> must]
Must(p, t, i) == t = 1 \/ p[t][i] # p[t - 1][i]
PointMsgs(p, n, t) ==
    <<Ev("checkpoint", 0, Z, TRUE)>>
    \o [i \in 1..n |-> Ev("set", i, p[t][i], Must(p, t, i))]
    \o <<Ev("wait", 0, Z, TRUE), Ev("trigger", n + 1, Z, TRUE), Ev("wait", 0, Z, TRUE),
         Ev("create", 0, Z, TRUE), Ev("read", n + 1, Z, TRUE)>>
    \o [i \in 1..n |-> Ev("read", i, Z, TRUE)]
    \o <<Ev("save", 0, Z, TRUE)>>
Skeleton(p, n) == FlattenSeq([t \in 1..Len(p) |-> PointMsgs(p, n, t)])

----------------------------------------------------------------------------
\* bounded domain
Axis(s, e, n) == [start |-> s, stop |-> e, num |-> n]
NoSnake(n) == [i \in 1..n |-> FALSE]
RECURSIVE ProdSeq(_, _)
ProdSeq(s, a) == IF a > Len(s) THEN 1 ELSE s[a] * ProdSeq(s, a + 1)

Pairs(p) == {v \in (p.lo..p.hi) \X (p.lo..p.hi) : p.strict => v[1] < v[2]}       \* (start, stop)
\* cases of profile p with n axes (the parts for different p / n are disjoint and are concatenated as sequences:
\* TLC's UNION of large sets of records is quadratic)
InnerCasesN(p, n) ==
    {[kind |-> "inner", axes |-> [i \in 1..n |-> Axis(R(f[i][1]), R(f[i][2]), num)], snake |-> NoSnake(n)] :
        f \in [1..n -> Pairs(p)], num \in 1..p.maxnum}
OuterCasesN(p, n) ==
    {[kind |-> "outer", axes |-> [i \in 1..n |-> Axis(R(x[1][i][1][1]), R(x[1][i][1][2]), x[1][i][2])], snake |-> x[2]] :
        x \in {y \in [1..n -> Pairs(p) \X (1..p.maxnum)] \X [1..n -> BOOLEAN] :
                  ~y[2][1] /\ ProdSeq([i \in 1..n |-> y[1][i][2]], 1) <= p.maxtotal}}
X2XCases(p) ==
    {[kind |-> "x2x", axes |-> <<Axis(R(s), R(e), num), Axis(Norm(s, 2), Norm(e, 2), num)>>, snake |-> NoSnake(2)] :
        s \in p.lo..p.hi, e \in p.lo..p.hi, num \in 1..p.maxnum}
LogCases(p) ==
    {[kind |-> "log", axes |-> <<Axis(R(s), R(e), num)>>, snake |-> NoSnake(1)] :
        s \in p.lo..p.hi, e \in p.lo..p.hi, num \in 1..p.maxnum}
CasesN(p, n) == CASE p.kind = "inner" -> InnerCasesN(p, n)
                  [] p.kind = "outer" -> OuterCasesN(p, n)
                  [] p.kind = "x2x" -> X2XCases(p)
                  [] p.kind = "log" -> LogCases(p)
SeqOfProfile(p) == FlattenSeq([m \in 1..(p.nmax - p.nmin + 1) |-> SetToSeq(CasesN(p, p.nmin + m - 1))])
DomSeq == LET ps == SetToSeq(Profiles) IN FlattenSeq([k \in 1..Len(ps) |-> SeqOfProfile(ps[k])])

Prof(k, a, b, lo, hi, mn, mt, st) ==
    [kind |-> k, nmin |-> a, nmax |-> b, lo |-> lo, hi |-> hi, maxnum |-> mn, maxtotal |-> mt, strict |-> st]
\* quick tier (1312 cases): inner product 100 + 324 + 192, meshes 100 + 288 + 108, x2x 100, log 100
ProfilesQuick == {Prof("inner", 1, 1, -2, 2, 4, 0, FALSE), Prof("inner", 2, 2, -1, 1, 4, 0, FALSE), Prof("inner", 3, 3, 0, 1, 3, 0, FALSE),
                  Prof("outer", 1, 1, -2, 2, 4, 4, FALSE), Prof("outer", 2, 2, 0, 1, 3, 9, FALSE), Prof("outer", 3, 3, 0, 1, 3, 27, TRUE),
                  Prof("x2x", 2, 2, -2, 2, 4, 0, FALSE), Prof("log", 1, 1, -2, 2, 4, 0, FALSE)}
\* thorough tier: the full assigned bounds (1-3 motors, num 1..4, starts/stops -2..2) for the inner product (65100 cases)
\* and for meshes of 1-2 axes (100 + 20000); 3-axis meshes with start < stop in -1..1, num 1..3 (2916) and with
\* arbitrary starts/stops in 0..1, num 1..2 (2048, 32 of them also in the previous profile); x2x / log 100 each
ProfilesThorough == {Prof("inner", 1, 3, -2, 2, 4, 0, FALSE), Prof("outer", 1, 2, -2, 2, 4, 16, FALSE),
                     Prof("outer", 3, 3, -1, 1, 3, 27, TRUE), Prof("outer", 3, 3, 0, 1, 2, 8, FALSE),
                     Prof("x2x", 2, 2, -2, 2, 4, 0, FALSE), Prof("log", 1, 1, -2, 2, 4, 0, FALSE)}
ProfilesNone == {}

\* The cases are the successors of NBlocks initial "block" states: TLC computes initial states in one thread but
\* expands different states in different workers.
NBlocks == 64
NoCase == [kind |-> "none", axes |-> <<>>, snake |-> <<>>]
IsCase == blk = 0
Init == /\ blk \in 1..NBlocks
        /\ case = NoCase /\ pts = <<>> /\ md = [num_points |-> 0, shape |-> <<>>, extents |-> <<>>] /\ ord = <<>>
Next == /\ blk > 0
        /\ \E j \in {x \in 1..Len(DomSeq) : x % NBlocks = blk - 1} :
              /\ case' = DomSeq[j]
              /\ pts' = Points(DomSeq[j])
              /\ md' = Md(DomSeq[j])
              /\ ord' = IF IsOuter(DomSeq[j]) THEN Order(DomSeq[j]) ELSE <<>>
        /\ blk' = 0
Spec == Init /\ [][Next]_vars

----------------------------------------------------------------------------
\* Properties (statement vocabulary)
N == NAx(case)

Holds_TypeOK == /\ \A t \in 1..Len(pts) : Len(pts[t]) = N /\ \A i \in 1..N : IsRat(pts[t][i])
          /\ Len(case.snake) = N /\ ~case.snake[1]

\* linspace: starts at start, ends at stop, equal steps
Holds_LinspaceEquallySpaced ==
    \A i \in 1..N :
        LET a == case.axes[i] L == Lin(case, i) IN
        /\ Len(L) = a.num
        /\ L[1] = a.start
        /\ a.num >= 2 => L[a.num] = a.stop
        /\ \A k \in 1..(a.num - 2) : RSub(L[k + 1], L[k]) = RSub(L[k + 2], L[k + 1])

\* inner product: num points, point k is value k of every axis
Holds_InnerProduct ==
    ~IsOuter(case) =>
        /\ Len(pts) = case.axes[1].num
        /\ \A k \in 1..Len(pts) : \A i \in 1..N : pts[k][i] = Lin(case, i)[k]

\* outer product: every combination exactly once (as index tuples), first axis slowest, requested snaking
Holds_OuterEveryCombinationOnce == IsOuter(case) => SV!Permutation
Holds_OuterRowMajor == IsOuter(case) => SV!UnsnakedProductOrder
Holds_OuterSnaking == IsOuter(case) => SV!SnakedReverses /\ SV!FastestChanged
Holds_OuterCoordinates ==
    IsOuter(case) =>
        /\ ord = Order(case)
        /\ Len(pts) = Len(ord)
        /\ \A t \in 1..Len(pts) : \A i \in 1..N : pts[t][i] = Lin(case, i)[ord[t][i] + 1]

\* one checkpointed reading per point: in the message skeleton every point has exactly one checkpoint, then
\* the moves, then exactly one create..save bundle reading every device, taken with the motors at the point
Idx(sk, cmd) == SelectSeq([j \in 1..Len(sk) |-> j], LAMBDA j : sk[j].c = cmd)
PosAt(sk, k, i) == LET js == {j \in 1..k : sk[j].c = "set" /\ sk[j].m = i}
                   IN IF js = {} THEN <<0, 0>> ELSE sk[CHOOSE j \in js : \A j2 \in js : j2 <= j].v
ReadsBetween(sk, a, b) == {sk[j].m : j \in {j2 \in a..b : sk[j2].c = "read"}}
OneReadingPerPoint(sk) ==
    LET ck == Idx(sk, "checkpoint") cr == Idx(sk, "create") sv == Idx(sk, "save") IN
    /\ Len(ck) = Len(pts) /\ Len(cr) = Len(pts) /\ Len(sv) = Len(pts)
    /\ \A j \in 1..Len(pts) :
        /\ ck[j] < cr[j] /\ cr[j] < sv[j]
        /\ j < Len(pts) => sv[j] < ck[j + 1]
        /\ \A i \in 1..N : PosAt(sk, cr[j], i) = pts[j][i]
        /\ ReadsBetween(sk, cr[j], sv[j]) = 1..(N + 1)
        /\ Cardinality({j2 \in cr[j]..sv[j] : sk[j2].c = "read"}) = N + 1
Holds_OneCheckpointedReadingPerPoint == OneReadingPerPoint(Skeleton(pts, N))
\* ... and the optional moves really are optional: dropping them leaves every reading at the same place
Holds_MandatoryMovesSuffice == OneReadingPerPoint(SelectSeq(Skeleton(pts, N), LAMBDA e : e.must))

\* metadata consistent with what the plan does
Holds_MdConsistent ==
    /\ md.num_points = Len(pts)
    /\ md.num_points = Len(Idx(Skeleton(pts, N), "create"))
    /\ (IsOuter(case) /\ md.shape # <<>>) =>       \* plans over a mesh that record shape / extents (grid_scan, list_grid_scan)
        /\ Len(md.shape) = N /\ Len(md.extents) = N
        /\ ProdSeq(md.shape, 1) = md.num_points
        /\ \A i \in 1..N :
            LET lo == IF RLe(md.extents[i][1], md.extents[i][2]) THEN md.extents[i][1] ELSE md.extents[i][2]
                hi == IF RLe(md.extents[i][1], md.extents[i][2]) THEN md.extents[i][2] ELSE md.extents[i][1]
                vis == {pts[t][i] : t \in 1..Len(pts)}
            IN /\ \A v \in vis : RLe(lo, v) /\ RLe(v, hi)
               /\ md.shape[i] >= 2 => lo \in vis /\ hi \in vis
               /\ Cardinality(vis) <= md.shape[i]

\* the properties proper: stated on cases (block states carry no case)
TypeOK == IsCase => Holds_TypeOK
C25_LinspaceEquallySpaced == IsCase => Holds_LinspaceEquallySpaced
C25_InnerProduct == IsCase => Holds_InnerProduct
C25_OuterEveryCombinationOnce == IsCase => Holds_OuterEveryCombinationOnce
C25_OuterRowMajor == IsCase => Holds_OuterRowMajor
C25_OuterSnaking == IsCase => Holds_OuterSnaking
C25_OuterCoordinates == IsCase => Holds_OuterCoordinates
C25_OneCheckpointedReadingPerPoint == IsCase => Holds_OneCheckpointedReadingPerPoint
C25_MandatoryMovesSuffice == IsCase => Holds_MandatoryMovesSuffice
C25_MdConsistent == IsCase => Holds_MdConsistent

----------------------------------------------------------------------------
\* case dump for replay: one row per case
Row(c) == LET p == Points(c) n == NAx(c) IN
          [kind |-> c.kind, axes |-> c.axes, snake |-> c.snake, pts |-> p,
           lin |-> [i \in 1..n |-> Lin(c, i)],
           must |-> [t \in 1..Len(p) |-> [i \in 1..n |-> Must(p, t, i)]],
           pat |-> [j \in 1..Len(PointMsgs(p, n, 1)) |-> PointMsgs(p, n, 1)[j].c],
           md |-> Md(c)]
DumpCases == TLCGet("stats").generated >= 0 /\ ndJsonSerialize(IOEnv.CASES_OUT, [j \in 1..Len(DomSeq) |-> Row(DomSeq[j])])
=============================================================================
