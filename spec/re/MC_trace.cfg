CONSTANTS
  RunKeys = {"", "k1", "k2"}
  Streams = {"primary", "baseline", "interruptions", "mon1"}
  Dets = {"det", "det2", "pdet"}
  Motors = {"motor", "motor2"}
  Mons = {"mon1"}
  Pausables = {"pdet"}
  Flyers = {}
  AsyncDevs = {}
  FlyStream <- FlyStreamDef
  FlyN <- FlyNDef
  Suspenders <- XSus
  SigOf <- SigOfDef
  SusFuts <- SusFutsDef
  SusBand = {"s3"}
  NoReplayDevs = {}
  ReadVal <- ReadValDef
  DataKeys <- DataKeysDef
  FutNames = {"f1", "f2", "s1a", "s1b", "s1c", "s1d", "s2a", "s2b", "s2c", "s2d"}
  StreamOrder <- StreamOrderDef
  DevOrder <- DevOrderDef
  PlanLib <- PlanLibDef
  ProjKinds = {"call", "ret", "req", "reqret", "msg", "gen", "dev", "stat", "state", "doc", "nev"}
SPECIFICATION TraceSpec
POSTCONDITION TraceAccepted
ACTION_CONSTRAINT TraceReport
