------------------------------ MODULE Metadata ------------------------------
(***************************************************************************)
(* C17 -- RunStart metadata precedence, scan_id bookkeeping, validator.    *)
(*                                                                         *)
(* A metadata dictionary is a TOTAL function  AllKeys -> Nat  where 0      *)
(* means "key absent" (keeps every variable uniformly typed).  Four layers *)
(* feed a RunStart:                                                        *)
(*    md     persistent metadata (RE.md)                                   *)
(*    ident  plan identity (plan_type, plan_name), computed from the plan  *)
(*    o      keyword arguments of Msg('open_run', **o)                     *)
(*    kw     keyword arguments of RE(plan, **kw)                           *)
(* Later layers win.  The merged dictionary is handed to the validator     *)
(* (may reject) and then to the normalizer (identity / rename one key /    *)
(* reject); the result is the RunStart.                                    *)
(*                                                                         *)
(* Implementation-shaped where it matters (run_engine.py _open_run):       *)
(*  - the merge is a ChainMap lookup: the first map of <<kw, o, ident, md>>*)
(*    that contains the key answers;                                       *)
(*  - the scan_id is computed from the persistent metadata by the default  *)
(*    source (md.get('scan_id', 0) + 1) and stored in the persistent       *)
(*    metadata.  The code as found stores it BEFORE validator/normalizer   *)
(*    run, so a rejected open still advances it (Variant = "asfound");     *)
(*    the repaired step stores it only when the run is opened (Variant =   *)
(*    "fixed").  Variant = "either" offers both steps (trace validation:   *)
(*    the recorded persistent metadata selects the step; the defective     *)
(*    step is counted in `gaps` and announced with PrintT "KF-GAP").       *)
(***************************************************************************)
EXTENDS Naturals, Sequences, FiniteSets, TLC, Json

CONSTANTS AllKeys,     \* key universe (strings); must contain "scan_id", "plan_type", "plan_name"
          PKeys,       \* keys the initial persistent metadata may define      (model checking only)
          OKeys,       \* keys an open_run message may define                  (model checking only)
          KKeys,       \* keys the RE(...) call may define                     (model checking only)
          PVals, OVals, KVals,   \* values used by the three layers in model checking (positive integers; disjoint
                       \* sets tag each value with its layer, equal sets allow any coincidence)
          Idents,      \* identities explored: 10 * plan_type + plan_name (two positive digits)
          VModes,      \* subset of {"accept", "reject"}
          NModes,      \* subset of {"identity", "rename", "reject", "idraise"}; idraise = identity, and a later subscriber raises on the emitted RunStart (the run is opened all the same)
          RenFrom, RenTo,   \* the rename normalizer moves key RenFrom to key RenTo
          MaxOpens,    \* bound on open_run messages per history
          MaxCalls,    \* bound on RE(...) calls per history
          MaxCells,    \* bound on defined (layer, key) cells of each open: initial md + kw + o
          RichRejects, \* BOOLEAN: FALSE = a rejected open is explored with empty open_run metadata only
          Variant,     \* "fixed" | "asfound" | "either"
          KeepHist     \* BOOLEAN: keep the whole history in the state (replay generation)

ASSUME {"scan_id", "plan_type", "plan_name"} \subseteq AllKeys
ASSUME Variant \in {"fixed", "asfound", "either"}

Zero == [k \in AllKeys |-> 0]
Cells(m) == Cardinality({k \in AllKeys : m[k] # 0})
MapsOver(S, V) == {[k \in AllKeys |-> IF k \in S THEN f[k] ELSE 0] : f \in [S -> V \cup {0}]}
\* zero-arity constant definitions: TLC evaluates them once
PMaps == MapsOver(PKeys, PVals)
OMaps == MapsOver(OKeys, OVals)
KMaps == MapsOver(KKeys, KVals)
\* the maps with at most n defined keys (so that Next enumerates only the admissible ones)
PLe == [n \in 0..MaxCells |-> {m \in PMaps : Cells(m) <= n}]
OLe == [n \in 0..MaxCells |-> {m \in OMaps : Cells(m) <= n}]
KLe == [n \in 0..MaxCells |-> {m \in KMaps : Cells(m) <= n}]
IdentMap(i) == [k \in AllKeys |-> IF k = "plan_type" THEN i \div 10 ELSE IF k = "plan_name" THEN i % 10 ELSE 0]

VARIABLES
  md,        \* persistent metadata
  inCall,    \* a RE(...) call is in progress
  kw,        \* metadata of the current call (Zero outside calls)
  ident,     \* identity layer of the current call (Zero outside calls)
  base,      \* monitor: scan_id in the persistent metadata when it was last set by the user
  opened,    \* monitor: number of runs opened since
  gaps,      \* monitor: number of defective steps taken (rejected open that advanced the scan_id)
  cells0,    \* number of cells of the initial persistent metadata (model-checking bound only)
  ncalls, nopens,
  last,      \* the last operation with its inputs and results (uniformly typed record)
  hist       \* all operations so far (only when KeepHist)

vars == <<md, inCall, kw, ident, base, opened, gaps, cells0, ncalls, nopens, last, hist>>

Ev(op, o, vm, nm, kind, start, mdAfter, kwx, idx) ==
    [op |-> op, o |-> o, vmode |-> vm, nmode |-> nm, kind |-> kind, start |-> start, md |-> mdAfter, kw |-> kwx, ident |-> idx]
Log(e) == /\ last' = e
          /\ hist' = IF KeepHist THEN Append(hist, e) ELSE hist

InitWith(m) ==
    /\ md = m
    /\ inCall = FALSE /\ kw = Zero /\ ident = Zero
    /\ base = m["scan_id"] /\ opened = 0 /\ gaps = 0
    /\ cells0 = Cells(m)
    /\ ncalls = 0 /\ nopens = 0
    /\ last = Ev("init", Zero, "", "", "", Zero, m, Zero, Zero)
    /\ hist = IF KeepHist THEN <<Ev("init", Zero, "", "", "", Zero, m, Zero, Zero)>> ELSE <<>>

Init == \E m \in PLe[MaxCells] : InitWith(m)

----------------------------------------------------------------------------
(* the user replaces the content of RE.md between calls *)
SetMd(m) ==
    /\ ~inCall
    /\ md' = m
    /\ base' = m["scan_id"] /\ opened' = 0 /\ gaps' = 0
    /\ UNCHANGED <<inCall, kw, ident, cells0, ncalls, nopens>>
    /\ Log(Ev("set_md", Zero, "", "", "", Zero, m, Zero, Zero))

(* RE(plan, **k): the call metadata and the plan identity are fixed for the call *)
CallStart(k, idm) ==
    /\ ~inCall
    /\ inCall' = TRUE /\ kw' = k /\ ident' = idm
    /\ ncalls' = ncalls + 1
    /\ UNCHANGED <<md, base, opened, gaps, cells0, nopens>>
    /\ Log(Ev("call_start", Zero, "", "", "", Zero, md, k, idm))

CallEnd ==
    /\ inCall
    /\ inCall' = FALSE /\ kw' = Zero /\ ident' = Zero
    /\ UNCHANGED <<md, base, opened, gaps, cells0, ncalls, nopens>>
    /\ Log(Ev("call_end", Zero, "", "", "", Zero, md, Zero, Zero))

(* ChainMap(kw, o, ident, md)[k]: the first map that has the key answers *)
Chain(maps, k) ==
    LET has == {i \in 1..Len(maps) : maps[i][k] # 0}
    IN IF has = {} THEN 0 ELSE maps[CHOOSE i \in has : \A j \in has : i <= j][k]
ChainDict(maps) == [k \in AllKeys |-> Chain(maps, k)]

Normalize(nm, m) ==
    IF nm = "rename"
    THEN [k \in AllKeys |-> IF k = RenFrom /\ RenFrom # RenTo THEN 0
                            ELSE IF k = RenTo /\ m[RenFrom] # 0 THEN m[RenFrom]
                            ELSE m[k]]
    ELSE m

(* Msg('open_run', **oo) processed with a validator / normalizer behaving as vm / nm *)
Open(oo, vm, nm) ==
    LET sid      == md["scan_id"] + 1                       \* default_scan_id_source
        mdNew    == [md EXCEPT !["scan_id"] = sid]
        merged   == ChainDict(<<kw, oo, ident, mdNew>>)
        rejected == vm = "reject" \/ nm = "reject"
    IN /\ inCall
       /\ nopens' = nopens + 1
       /\ UNCHANGED <<inCall, kw, ident, base, cells0, ncalls>>
       /\ IF ~rejected
          THEN /\ md' = mdNew
               /\ opened' = opened + 1
               /\ gaps' = gaps
               /\ Log(Ev("open", oo, vm, nm, "start", Normalize(nm, merged), mdNew, kw, ident))
          ELSE /\ opened' = opened
               /\ \/ /\ Variant \in {"fixed", "either"}          \* repaired: nothing is persisted
                     /\ md' = md /\ gaps' = gaps
                     /\ Log(Ev("open", oo, vm, nm, "rejected", Zero, md, kw, ident))
                  \/ /\ Variant \in {"asfound", "either"}        \* as coded: scan_id already stored
                     /\ md' = mdNew /\ gaps' = gaps + 1
                     /\ Log(Ev("open", oo, vm, nm, "rejected", Zero, mdNew, kw, ident))

Next ==
    \/ /\ ncalls < MaxCalls /\ nopens < MaxOpens
       /\ \E k \in KLe[MaxCells - cells0], i \in Idents : CallStart(k, IdentMap(i))
    \/ /\ nopens < MaxOpens
       /\ inCall
       /\ \E oo \in OLe[MaxCells - cells0 - Cells(kw)], vm \in VModes, nm \in NModes :
              /\ (vm = "reject" => nm = "identity")       \* the normalizer is not reached: one representative
              /\ (~RichRejects /\ (vm = "reject" \/ nm = "reject") => oo = Zero)
              /\ Open(oo, vm, nm)
    \/ CallEnd

Spec == Init /\ [][Next]_vars

----------------------------------------------------------------------------
(* The property, in the vocabulary of the statement.                        *)

IsOpen == last.op = "open"
Started == IsOpen /\ last.kind = "start"

\* "persistent metadata overlaid by the plan identity, then the open_run metadata, then the RE(...)
\* keyword metadata (later sources win)": per key, the latest source that defines it.
Winner(k) == IF last.kw[k] # 0 THEN last.kw[k]
             ELSE IF last.o[k] # 0 THEN last.o[k]
             ELSE IF last.ident[k] # 0 THEN last.ident[k]
             ELSE md[k]                       \* persistent metadata, which holds this run's scan_id
Overlay == [k \in AllKeys |-> Winner(k)]

C17_Precedence == Started /\ last.nmode \in {"identity", "idraise"} => last.start = Overlay

C17_Normalized ==
    Started /\ last.nmode = "rename" =>
        /\ last.start[RenTo] = (IF Overlay[RenFrom] # 0 THEN Overlay[RenFrom] ELSE Overlay[RenTo])
        /\ RenFrom # RenTo => last.start[RenFrom] = 0
        /\ \A k \in AllKeys \ {RenFrom, RenTo} : last.start[k] = Overlay[k]

\* the identity of the plan is in every start document unless a later source overrides it
C17_IdentityPresent ==
    Started /\ last.nmode \in {"identity", "idraise"} =>
        \A k \in {"plan_type", "plan_name"} :
            last.start[k] = (IF last.kw[k] # 0 THEN last.kw[k] ELSE IF last.o[k] # 0 THEN last.o[k] ELSE last.ident[k])

\* a rejecting validator (or normalizer) prevents the RunStart; otherwise there is one
C17_RejectNoStart ==
    IsOpen => /\ (last.vmode = "reject" \/ last.nmode = "reject") => (last.kind = "rejected" /\ last.start = Zero)
              /\ (last.vmode = "accept" /\ last.nmode # "reject") => last.kind = "start"

\* scan_id: kept in the persistent metadata, one per OPENED run
C17_ScanIdCountsOpenedRuns == md["scan_id"] = base + opened + gaps
C17_NoGap == gaps = 0            \* the part exempted by the open finding (only the defective step breaks it)

\* without an override the start document carries that scan_id
C17_StartScanId ==
    Started /\ last.nmode \in {"identity", "idraise"} /\ last.kw["scan_id"] = 0 /\ last.o["scan_id"] = 0 =>
        last.start["scan_id"] = base + opened + gaps

\* an opened run advances the persistent scan_id by exactly one; nothing else of the persistent metadata
\* ever changes through open_run / calls (call and open_run metadata never leak into RE.md)
C17_ScanIdStep ==
    [][/\ (last'.op = "open" /\ last'.kind = "start") => md'["scan_id"] = md["scan_id"] + 1
       /\ (last'.op = "open" /\ last'.kind = "rejected" /\ gaps' = gaps) => md' = md
       /\ last'.op \in {"call_start", "call_end"} => md' = md
       /\ last'.op # "set_md" => \A k \in AllKeys \ {"scan_id"} : md'[k] = md[k]]_vars

TypeOK == /\ md \in [AllKeys -> Nat]
          /\ kw \in [AllKeys -> Nat] /\ ident \in [AllKeys -> Nat]
          /\ inCall \in BOOLEAN
          /\ ~inCall => kw = Zero /\ ident = Zero

\* CONSTRAINT of the replay-generation configs: print every maximal history as JSON
Maximal == ~inCall /\ (nopens = MaxOpens \/ ncalls = MaxCalls)
Sparse(m) == [k \in {x \in AllKeys : m[x] # 0} |-> m[k]]         \* only the defined keys (compact JSON)
Compact(e) == [op |-> e.op, o |-> Sparse(e.o), vmode |-> e.vmode, nmode |-> e.nmode, kind |-> e.kind,
               start |-> Sparse(e.start), md |-> Sparse(e.md), kw |-> Sparse(e.kw), ident |-> Sparse(e.ident)]
DumpHist == (KeepHist /\ Maximal /\ last.op = "call_end") =>
                PrintT(<<"HIST", ToJson([i \in 1..Len(hist) |-> Compact(hist[i])])>>)
=============================================================================
