"""Regenerate /verif/MANIFEST.json from the check modules present in harness/props.

Each module may define: LEVEL ('model_checking'), LEVEL_TEXT, LEVEL_NOTE, TECHNIQUE, DESIGN_REF, NOT_APPLICABLE (reason).
"""
import importlib
import json
import sys
from pathlib import Path

ROOT = Path(__file__).resolve().parent.parent
sys.path.insert(0, str(ROOT))

HOOK_COMMITS_FILE = ROOT / "hooks.json"


def main():
    props = [json.loads(ln) for ln in open(ROOT / "properties.jsonl")]
    checks, na = [], []
    engines = {}
    for p in props:
        pid = p["id"]
        f = ROOT / "harness" / "props" / f"{pid}.py"
        if not f.exists():
            na.append({"property_id": pid, "reason": "check not built yet (work in progress; see DESIGN.md section 7 for the plan)"})
            continue
        mod = importlib.import_module(f"harness.props.{pid}")
        if getattr(mod, "NOT_APPLICABLE", None):
            na.append({"property_id": pid, "reason": mod.NOT_APPLICABLE})
            continue
        level = getattr(mod, "LEVEL", "model_checking")
        checks.append({
            "property_id": pid,
            "quick_cmd": f"./check {pid} --tier quick",
            "thorough_cmd": f"./check {pid} --tier thorough",
            "evidence_file": f"/verif/evidence/{pid}.json",
            "replay_cmd_template": f"./check {pid} --replay {{path}}",
            "engine": getattr(mod, "ENGINE", "tlc+replay"),
            "level_claimed": {
                "category": level,
                "text": getattr(mod, "LEVEL_TEXT", (mod.__doc__ or "").strip().split("\n\n")[-1].replace("\n", " ")),
                "design_ref": getattr(mod, "DESIGN_REF", f"DESIGN.md section 7 ({pid})"),
            },
            "level_note": getattr(mod, "LEVEL_NOTE", "TLC 1.8.0 and the CommunityModules are trusted; bounds as stated in the evidence file; "
                                  "conformance covers only the implementation executions the harness performs."),
            "technique": getattr(mod, "TECHNIQUE", "explicit TLA+ spec checked by TLC (bounded exhaustive) + replay of TLC cases into the code + "
                                 "TLC validation of recorded implementation traces"),
        })
        eng = getattr(mod, "ENGINE", "tlc+replay")
        engines.setdefault(eng, []).append(pid)
    hooks = json.loads(HOOK_COMMITS_FILE.read_text()) if HOOK_COMMITS_FILE.exists() else {"source_commits": []}
    man = {
        "version": 1,
        "setup_cmd": "./setup.sh",
        "hooks": {
            "guard": "BLUESKY_VERIF",
            "enable": "export BLUESKY_VERIF=1 (set by ./check); bluesky is imported from /repo/src, nothing is built",
            "baseline_off_cmd": "cd /repo && env -u BLUESKY_VERIF /venv/bin/python -m pytest -ra -q -p no:cacheprovider --timeout=900 --continue-on-collection-errors",
            "source_commits": hooks.get("source_commits", []),
            "add_only": True,
        },
        "engines": [{"name": k, "path": "/verif/harness", "serves_properties": v,
                     "kind_free_text": "TLA+ specs in /verif/spec checked with TLC; python harness replays TLC cases into bluesky and records implementation traces that TLC validates"}
                    for k, v in engines.items()],
        "checks": checks,
        "notes": "See DESIGN.md. exit 0 held / 1 VIOLATION / 2 machinery failure.",
        "not_applicable": na,
    }
    (ROOT / "MANIFEST.json").write_text(json.dumps(man, indent=1) + "\n")
    try:
        import jsonschema
        jsonschema.validate(man, json.load(open("/root/.vp/MANIFEST.schema.json")))
        print(f"MANIFEST.json: {len(checks)} checks, {len(na)} not_applicable; schema OK")
    except ImportError:
        print("jsonschema not available; not validated")


if __name__ == "__main__":
    main()
