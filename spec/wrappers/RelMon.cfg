SPECIFICATION Spec
INVARIANT C24_OffsetsFromInitial
INVARIANT C24_ResetCommanded
INVARIANT C24_FinalPositions
POSTCONDITION AllSeen
