----------------------------- MODULE SpiralTrace -----------------------------
(***************************************************************************)
(* Implementation outputs recorded by the harness, judged by Spiral.tla.   *)
(* TRACE_FILE: ndjson, one case per line                                   *)
(*   t = "square": xn, yn, idx = the points of spiral_square_pattern       *)
(*       mapped to 0-based lattice indices (<<-1, -1>> = not on the        *)
(*       lattice).  The recorded walk becomes the variable `walk`, so the  *)
(*       square-spiral invariants of Spiral are evaluated on it.           *)
(*   t = "rect": fn ("spiral" | "spiral_fermat"), the request in 10^-6     *)
(*       fixed point (cx, cy, xr, yr, tn/td = tan(tilt), an/ad = dr_y/dr)  *)
(*       and pts, every point the pattern produced.  This half is          *)
(*       predicate checking on logged points, not state exploration.       *)
(* Known finding KF-C27-1: spiral_fermat with dr_y < dr.  The defective    *)
(* alternative (InRectFermatAsCoded) is exempted and reported with         *)
(* PrintT; a repaired tree simply never needs it.                          *)
(***************************************************************************)
EXTENDS Spiral

Cases == ndJsonDeserialize(IOEnv.TRACE_FILE)

VARIABLES k, bad
tvars == <<vars, k, bad>>

Rel(c) == [a \in 1..Len(c.idx) |-> <<c.idx[a][1] + XLo(c.xn), c.idx[a][2] + YLo(c.yn)>>]

TraceInit ==
    /\ k \in 1..Len(Cases)
    /\ LET c == Cases[k] IN
       IF c.t = "square"
       THEN /\ xn = c.xn /\ yn = c.yn /\ ring = LastRing(c.xn, c.yn) /\ walk = Rel(c)
            /\ bad = {}
       ELSE /\ xn = 1 /\ yn = 1 /\ ring = 1 /\ walk = <<<<0, 0>>>>
            /\ bad = {i \in 1..Len(c.pts) : ~InRect(c.pts[i], c)}
TraceNext == UNCHANGED tvars
TraceSpec == TraceInit /\ [][TraceNext]_tvars

C == Cases[k]
KF_FermatAsCoded == /\ C.t = "rect" /\ C.fn = "spiral_fermat" /\ C.an < C.ad
                    /\ \A i \in bad : InRectFermatAsCoded(C.pts[i], C)
C27_PointsInRectangle == bad = {} \/ KF_FermatAsCoded
\* always true; tells the harness which cases produced points outside the rectangle
Report == bad = {} \/ PrintT(<<"OUTSIDE", k, Cardinality(bad), CHOOSE i \in bad : \A j \in bad : i <= j>>)

AllSeen == TLCGet("stats").distinct = Len(Cases)
=============================================================================
