CONSTANTS
  Skels = {1, 2, 4, 5, 7, 10, 11, 12, 13, 15, 16, 17, 18}
SPECIFICATION Spec
INVARIANT S_TypeOK
INVARIANT S_AllowedIsSafe
INVARIANT S_InRangeFixed
INVARIANT S_OutOfRangeChanges
INVARIANT S_AsFoundOnlyKnown
POSTCONDITION DumpCases
