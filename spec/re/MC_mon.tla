------------------------------- MODULE MC_mon -------------------------------
EXTENDS REMon
XD == {"det", "det2", "pdet", "motor", "motor2", "mon1"}
ReadValDef == [d \in XD |-> "dict"]
DataKeysDef == [d \in XD |-> {d}]
StreamOrderDef == <<"baseline", "interruptions", "mon1", "primary">>
DevOrderDef == <<"det", "det2", "mon1", "motor", "motor2", "pdet">>
=============================================================================
