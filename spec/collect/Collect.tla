------------------------------- MODULE Collect -------------------------------
(***************************************************************************)
(* C45 -- collected stream assets line up with the stream's event numbering *)
(*                                                                         *)
(* Models RunBundler.collect / _pack_external_assets /                     *)
(* _pack_seq_nums_into_stream_datum / declare_stream / rewind /            *)
(* reset_checkpoint_state / close_run (bluesky/bundlers.py) for detectors  *)
(* that only write stream assets (WritesStreamAssets + Collectable +       *)
(* Flyable), one run.                                                      *)
(*                                                                         *)
(* Environment: every detector d has written avail[d] frames (the          *)
(* environment adds 0..MaxF frames per Env step) and has handed out stream *)
(* datums up to last[d].  A detector answers collect_asset_docs(index) as  *)
(* documented: a stream_resource the first time (lazy: together with its   *)
(* first stream_datum), and ONE stream_datum with indices [last, index)    *)
(* when there are new frames, none otherwise (index = None: everything it  *)
(* has).  A detector in `greedy` ignores the index it is given (a device   *)
(* that does not honour the protocol): the engine must refuse the collect. *)
(*                                                                         *)
(* Engine (implementation-shaped): a collect of the detectors ds into      *)
(* stream s needs decl[s] = ds (declare_stream first, for exactly that     *)
(* group); with several detectors the index passed down is the minimum of  *)
(* the get_index() answers; documents are packed and emitted one by one,   *)
(* every stream_datum of the collect gets seq_nums [ctr, ctr + width);     *)
(* a datum whose width differs from the previous one raises (that datum    *)
(* and everything after it is not emitted), datums for only some of the    *)
(* declared detectors raise after emission; the stream counter advances    *)
(* ONCE per successful collect, by the common width.  close: num_events =  *)
(* ctr - 1.  checkpoint: copy := ctr.  pause + resume (rewind): as found   *)
(* ctr := copy (KF-C45-1: the frames already handed out cannot be taken    *)
(* again, so seq_nums are re-issued); repaired: ctr stays.                 *)
(*                                                                         *)
(* The property is stated on the emitted documents only (monitors mIdx,    *)
(* mSeq, viol: no specification variable enters them), in the statement's  *)
(* vocabulary: C45_IndexContiguous, C45_SeqContiguous, C45_Aligned,        *)
(* C45_SameMinimum, C45_NumEvents, C45_MustRaise.                          *)
(***************************************************************************)
EXTENDS Integers, Sequences, FiniteSets, TLC, Json

CONSTANTS ND,          \* detectors 1..ND
          NS,          \* number of streams (names SOrder[1..NS], declared in this order when exploring)
          MaxF,        \* frames added per detector per Env step: 0..MaxF
          MaxEnv, MaxCol, MaxPause, MaxCkpt, MaxCfg,      \* bounds on the history
          GreedySets,  \* set of sets of detectors ignoring the index (chosen in Init)
          LazyModes,   \* subset of BOOLEAN: stream_resource with the first datum (TRUE) / at the first call (FALSE)
          WrongGroup,  \* BOOLEAN: also explore collects of a group that was not declared for the stream
          Choice       \* "asfound" | "fixed" | "both": alternatives offered at a rewind

Dets == 1..ND
SOrder == SubSeq(<<"primary", "second", "third">>, 1, NS)       \* (a cfg file cannot hold a tuple)
Streams == {SOrder[i] : i \in 1..Len(SOrder)}

VARIABLES
  decl,     \* stream -> set of detectors it was declared for ({} = not declared)
  avail,    \* detector -> frames written
  last,     \* detector -> frames handed out in stream datums (the detector's own book-keeping)
  res,      \* detector -> stream_resource already produced
  greedy,   \* detectors ignoring the index
  lazy,     \* stream_resource only together with the first datum
  ctr,      \* stream -> RunBundler._sequence_counters[stream]       (0 = no entry)
  copy,     \* stream -> RunBundler._sequence_counters_copy[stream]
  phase,    \* "open" | "closed"
  failed,   \* an exception went into the plan: the run is closed with exit_status fail
  cache,    \* collect messages processed since the last checkpoint (RunEngine._msg_cache, collects only): <<stream, ds>>
  pend,     \* collect messages still to be processed again after a rewind (the plan made from the cache)
  kf,       \* an as-found rewind rolled back a counter that a collect had advanced (signature of KF-C45-1)
  cnt,      \* [env, col, pause, ckpt] operation counts (bounds only)
  mIdx,     \* MONITOR detector -> stop of the last emitted stream_datum's indices (0 before the first)
  mSeq,     \* MONITOR detector -> stop of the last emitted stream_datum's seq_nums (1 before the first)
  viol,     \* MONITOR which clauses of the statement were contradicted by the emitted documents
  out,      \* the operation just performed with everything observable about it
  hist      \* all operations so far (every history is explored and replayed)

vars == <<decl, avail, last, res, greedy, lazy, ctr, copy, phase, failed, cache, pend, kf, cnt, mIdx, mSeq, viol, out, hist>>

----------------------------------------------------------------------------
Range(f) == {f[i] : i \in DOMAIN f}
MinOf(S) == CHOOSE x \in S : \A y \in S : x <= y
RECURSIVE Asc(_)
Asc(S) == IF S = {} THEN <<>> ELSE LET m == MinOf(S) IN <<m>> \o Asc(S \ {m})
RECURSIVE Flat(_)
Flat(ss) == IF ss = <<>> THEN <<>> ELSE Head(ss) \o Flat(Tail(ss))

NoNe == [s \in Streams |-> 0]
NoViol == [idx |-> FALSE, seq |-> FALSE, width |-> FALSE, min |-> FALSE, ne |-> FALSE, guard |-> FALSE]

Doc(k, d, i0, i1, s0, s1) == [k |-> k, d |-> d, i0 |-> i0, i1 |-> i1, s0 |-> s0, s1 |-> s1]

\* one operation with its observable results (uniformly typed)
\*   op: init | declare | env | collect | checkpoint | pause | close
\*   s stream, ds detectors (sequence), f frames added per detector, rep get_index() answers, cap index passed down
\*   (-1 = None), docs emitted stream_resource / stream_datum documents, err an exception reached the plan,
\*   ne / status of the stop document, alt alternative taken at a rewind, lz lazy
E0 == [op |-> "", s |-> "", ds |-> <<>>, f |-> <<>>, rep |-> <<>>, cap |-> <<>>, docs |-> <<>>, err |-> FALSE,
       ne |-> NoNe, status |-> "", alt |-> "", lz |-> FALSE]

InitWith(g, lz) ==
    /\ decl = [s \in Streams |-> {}]
    /\ avail = [d \in Dets |-> 0]
    /\ last = [d \in Dets |-> 0]
    /\ res = [d \in Dets |-> FALSE]
    /\ greedy = g
    /\ lazy = lz
    /\ ctr = [s \in Streams |-> 0]
    /\ copy = [s \in Streams |-> 0]
    /\ phase = "open"
    /\ failed = FALSE
    /\ cache = <<>> /\ pend = <<>>
    /\ kf = FALSE
    /\ cnt = [env |-> 0, col |-> 0, pause |-> 0, ckpt |-> 0, cfg |-> 0]
    /\ mIdx = [d \in Dets |-> 0]
    /\ mSeq = [d \in Dets |-> 1]
    /\ viol = NoViol
    /\ out = [E0 EXCEPT !.op = "init", !.ds = Asc(g), !.lz = lz]
    /\ hist = <<[E0 EXCEPT !.op = "init", !.ds = Asc(g), !.lz = lz]>>
Init == \E g \in GreedySets, lz \in LazyModes : InitWith(g, lz)

Log(e) == out' = e /\ hist' = Append(hist, e)
Declared == UNION {decl[s] : s \in Streams}

----------------------------------------------------------------------------
(* MONITORS: functions of the emitted documents (and of what the detectors were asked / answered) only *)

RECURSIVE MonDocs(_, _, _, _)
MonDocs(docs, mi, ms, v) ==
    IF docs = <<>> THEN [mi |-> mi, ms |-> ms, v |-> v]
    ELSE LET x == Head(docs) IN
         IF x.k # "datum" THEN MonDocs(Tail(docs), mi, ms, v)
         ELSE MonDocs(Tail(docs), [mi EXCEPT ![x.d] = x.i1], [ms EXCEPT ![x.d] = x.s1],
                      [v EXCEPT !.idx = @ \/ x.i0 # mi[x.d] \/ x.i1 < x.i0,        \* index ranges contiguous from 0
                                !.seq = @ \/ x.s0 # ms[x.d] \/ x.s1 < x.s0,        \* seq_num ranges contiguous from 1
                                !.width = @ \/ (x.s1 - x.s0) # (x.i1 - x.i0)])     \* as many seq_nums as frames

\* after a collect: ds the detectors collected together, rep their get_index() answers, cap the indices passed down
MonCollect(ds, rep, cap, docs, err, declared) ==
    LET m == MonDocs(docs, mIdx, mSeq, viol)
        joint == Len(ds) > 1
        mn == IF joint /\ Len(rep) = Len(ds) THEN MinOf(Range(rep)) ELSE 0
        got == {docs[i].d : i \in {j \in 1..Len(docs) : docs[j].k = "datum"}}
        widths == {docs[i].i1 - docs[i].i0 : i \in {j \in 1..Len(docs) : docs[j].k = "datum"}}
        badmin == /\ joint /\ ~err
                  /\ \/ Len(rep) # Len(ds) \/ Len(cap) # Len(ds)
                     \/ \E i \in 1..Len(cap) : cap[i] # mn                    \* everybody is asked for the minimum
                     \/ \E i \in 1..Len(ds) : m.mi[ds[i]] # mn                \* and everybody has advanced to it
        \* the engine must refuse a collect whose datums do not cover the same frames for all declared detectors
        badguard == ~err /\ (Cardinality(widths) > 1 \/ (got # {} /\ got # declared))
    IN [mi |-> m.mi, ms |-> m.ms, v |-> [m.v EXCEPT !.min = @ \/ badmin, !.guard = @ \/ badguard]]

\* at the stop document of a run that did not fail: num_events of every declared stream = frames declared by
\* (every one of) its detectors; streams without an entry count as 0
MonClose(ne, dcl, isFailed) ==
    [viol EXCEPT !.ne = @ \/ (~isFailed /\ \E s \in Streams : \E d \in dcl[s] : ne[s] # mIdx[d])]

----------------------------------------------------------------------------
(* the detectors *)
Upto(d, cap) == IF cap = -1 \/ d \in greedy THEN avail[d] ELSE cap
DetDocs(d, cap) ==
    LET u == Upto(d, cap)
        new == u > last[d]
    IN (IF ~res[d] /\ (new \/ ~lazy) THEN <<Doc("res", d, 0, 0, 0, 0)>> ELSE <<>>)
       \o (IF new THEN <<Doc("datum", d, last[d], u, 0, 0)>> ELSE <<>>)

(* the engine: _pack_external_assets over the flat document list; c = the stream counter during this collect *)
RECURSIVE Pack(_, _, _, _, _, _)
Pack(docs, c, prevW, recv, acc, want) ==
    IF docs = <<>>
    THEN IF recv # {} /\ recv # want THEN [docs |-> acc, err |-> TRUE, w |-> 0]      \* a datum for each external data key
         ELSE [docs |-> acc, err |-> FALSE, w |-> prevW]
    ELSE LET x == Head(docs) IN
         IF x.k = "res" THEN Pack(Tail(docs), c, prevW, recv, Append(acc, x), want)
         ELSE LET w == x.i1 - x.i0 IN
              IF prevW # 0 /\ prevW # w THEN [docs |-> acc, err |-> TRUE, w |-> 0]   \* different width: raise
              ELSE Pack(Tail(docs), c, w, recv \cup {x.d}, Append(acc, [x EXCEPT !.s0 = c, !.s1 = c + w]), want)

----------------------------------------------------------------------------
(* operations of the plan *)

\* Msg('declare_stream', None, *ds, name=s, collect=True): descriptor, counter entry 1 (and its copy)
Declare(s, D) ==
    /\ phase = "open" /\ ~failed /\ pend = <<>>
    /\ decl[s] = {} /\ D # {} /\ D \cap Declared = {}       \* a detector feeds one stream (assumption)
    /\ decl' = [decl EXCEPT ![s] = D]
    /\ ctr' = [ctr EXCEPT ![s] = 1]
    /\ copy' = [copy EXCEPT ![s] = 1]
    /\ UNCHANGED <<avail, last, res, greedy, lazy, phase, failed, cache, pend, kf, cnt, mIdx, mSeq, viol>>
    /\ Log([E0 EXCEPT !.op = "declare", !.s = s, !.ds = Asc(D)])

\* the detectors write frames
Env(f) ==
    /\ phase = "open" /\ ~failed /\ pend = <<>>
    /\ avail' = [d \in Dets |-> avail[d] + f[d]]
    /\ cnt' = [cnt EXCEPT !.env = @ + 1]
    /\ UNCHANGED <<decl, last, res, greedy, lazy, ctr, copy, phase, failed, cache, pend, kf, mIdx, mSeq, viol>>
    /\ Log([E0 EXCEPT !.op = "env", !.f = f])

\* Msg('collect', *ds, name=s), from the plan or (pend # <<>>) processed again after a rewind: alt = "replay"
Collect(s, ds) ==
    /\ phase = "open" /\ ~failed
    /\ ds # <<>> /\ Cardinality(Range(ds)) = Len(ds)
    /\ pend # <<>> => (Head(pend) = <<s, ds>>)
    /\ pend' = IF pend # <<>> THEN Tail(pend) ELSE pend
    /\ cache' = Append(cache, <<s, ds>>)
    /\ cnt' = [cnt EXCEPT !.col = IF pend # <<>> THEN @ ELSE @ + 1]
    /\ UNCHANGED <<decl, avail, greedy, lazy, copy, phase, kf>>
    /\ IF decl[s] # Range(ds)
       THEN \* no stream s declared for exactly this group: AssertionError before anything is asked of the detectors
            /\ failed' = TRUE
            /\ UNCHANGED <<last, res, ctr, mIdx, mSeq, viol>>
            /\ Log([E0 EXCEPT !.op = "collect", !.s = s, !.ds = ds, !.err = TRUE, !.alt = IF pend # <<>> THEN "replay" ELSE ""])
       ELSE LET n == Len(ds)
                rep == IF n > 1 THEN [i \in 1..n |-> avail[ds[i]]] ELSE <<>>
                mn == IF n > 1 THEN MinOf(Range(rep)) ELSE -1
                cap == [i \in 1..n |-> mn]
                flat == Flat([i \in 1..n |-> DetDocs(ds[i], mn)])
                p == Pack(flat, ctr[s], 0, {}, <<>>, decl[s])
                m == MonCollect(ds, rep, cap, p.docs, p.err, decl[s])
            IN \* the detectors have handed out their documents whatever the engine then does with them
               /\ last' = [d \in Dets |-> IF d \in Range(ds) /\ Upto(d, mn) > last[d] THEN Upto(d, mn) ELSE last[d]]
               /\ res' = [d \in Dets |-> res[d] \/ (d \in Range(ds) /\ (~lazy \/ Upto(d, mn) > last[d]))]
               /\ failed' = p.err
               /\ ctr' = [ctr EXCEPT ![s] = IF p.err THEN @ ELSE @ + p.w]      \* once per collect
               /\ mIdx' = m.mi /\ mSeq' = m.ms /\ viol' = m.v
               /\ Log([E0 EXCEPT !.op = "collect", !.s = s, !.ds = ds, !.rep = rep, !.cap = cap, !.docs = p.docs, !.err = p.err,
                                 !.alt = IF pend # <<>> THEN "replay" ELSE ""])

\* Msg('checkpoint'): RunBundler.reset_checkpoint_state
Checkpoint ==
    /\ phase = "open" /\ ~failed /\ pend = <<>>
    /\ copy' = ctr
    /\ cache' = <<>>
    /\ cnt' = [cnt EXCEPT !.ckpt = @ + 1]
    /\ UNCHANGED <<decl, avail, last, res, greedy, lazy, ctr, phase, failed, pend, kf, mIdx, mSeq, viol>>
    /\ Log([E0 EXCEPT !.op = "checkpoint"])

\* Msg('configure', det, ...): RunBundler.configure re-describes every stream the detector feeds (a new descriptor for the
\* same stream): numbering, declared groups and what a rewind restores are not affected
Configure(d) ==
    /\ phase = "open" /\ ~failed /\ pend = <<>>
    /\ d \in Declared
    /\ cnt' = [cnt EXCEPT !.cfg = @ + 1]
    /\ UNCHANGED <<decl, avail, last, res, greedy, lazy, ctr, copy, phase, failed, cache, pend, kf, mIdx, mSeq, viol>>
    /\ Log([E0 EXCEPT !.op = "configure", !.ds = <<d>>])

\* Msg('pause') ... RE.resume(): RunEngine._rewind -> RunBundler.rewind.  The messages since the last checkpoint are
\* processed again before the plan continues: every cached collect is an ordinary Collect step (it hands out whatever
\* frames its detectors have written since -- e.g. frames that arrived while another stream was being collected).
Pause ==
    /\ phase = "open" /\ ~failed /\ pend = <<>>
    /\ pend' = cache /\ cache' = <<>>
    /\ cnt' = [cnt EXCEPT !.pause = @ + 1]
    /\ UNCHANGED <<decl, avail, last, res, greedy, lazy, copy, phase, failed, mIdx, mSeq, viol>>
    /\ IF ctr = copy
       THEN ctr' = ctr /\ kf' = kf /\ Log([E0 EXCEPT !.op = "pause", !.alt = "same"])
       ELSE \/ /\ Choice \in {"asfound", "both"}                 \* as found: the counters go back to the checkpoint
               /\ ctr' = copy /\ kf' = TRUE
               /\ Log([E0 EXCEPT !.op = "pause", !.alt = "asfound"])
            \/ /\ Choice \in {"fixed", "both"}                   \* repaired: frames handed out are not taken again
               /\ ctr' = ctr /\ kf' = kf
               /\ Log([E0 EXCEPT !.op = "pause", !.alt = "fixed"])

\* Msg('close_run') or the engine closing the run after a failure: the stop document
NumEvents == [s \in Streams |-> IF decl[s] # {} THEN ctr[s] - 1 ELSE 0]
Close ==
    /\ phase = "open" /\ (pend = <<>> \/ failed)
    /\ phase' = "closed"
    /\ viol' = MonClose(NumEvents, decl, failed)
    /\ UNCHANGED <<decl, avail, last, res, greedy, lazy, ctr, copy, failed, cache, pend, kf, cnt, mIdx, mSeq>>
    /\ Log([E0 EXCEPT !.op = "close", !.ne = NumEvents, !.status = IF failed THEN "fail" ELSE "success"])

----------------------------------------------------------------------------
(* bounded exploration: streams are declared first, in SOrder; every declared group is collected in ascending order *)
Fresh == cnt.env = 0 /\ cnt.col = 0 /\ cnt.pause = 0 /\ cnt.ckpt = 0
Next ==
    \/ /\ Fresh
       /\ \E i \in 1..Len(SOrder) : \E D \in (SUBSET Dets) \ {{}} :
             /\ \A j \in 1..(i - 1) : decl[SOrder[j]] # {}
             /\ Dets \ Declared # {} /\ MinOf(D) = MinOf(Dets \ Declared)      \* (detector names are interchangeable)
             /\ Declare(SOrder[i], D)
    \/ /\ cnt.env < MaxEnv /\ Declared # {} /\ cnt.col < MaxCol       \* (frames nobody collects afterwards are unobservable)
       /\ \E f \in [Dets -> 0..MaxF] : (\A d \in Dets \ Declared : f[d] = 0) /\ Env(f)
    \/ pend # <<>> /\ Collect(Head(pend)[1], Head(pend)[2])             \* the rewound messages come first
    \/ /\ cnt.col < MaxCol /\ pend = <<>>
       /\ \E s \in Streams : \/ decl[s] # {} /\ Collect(s, Asc(decl[s]))
                             \/ /\ WrongGroup /\ s = SOrder[1] /\ cnt.env = 0 /\ cnt.col = 0     \* (frames play no role)
                                /\ \E D \in (SUBSET Dets) \ {{}, decl[s]} : Collect(s, Asc(D))
    \* a checkpoint / a pause is placed right after a collect (a pause also right after that checkpoint): their effect
    \* depends on the counters only, which nothing else changes
    \/ cnt.ckpt < MaxCkpt /\ out.op = "collect" /\ pend = <<>> /\ Checkpoint
    \/ cnt.cfg < MaxCfg /\ out.op = "collect" /\ pend = <<>> /\ \E d \in Declared : Configure(d)
    \/ cnt.pause < MaxPause /\ out.op \in {"collect", "checkpoint", "configure"} /\ pend = <<>> /\ Pause
    \* the run is closed when the bounds are used up (shorter histories are prefixes of these) or after a failure
    \/ (failed \/ (cnt.env = MaxEnv /\ cnt.col = MaxCol)) /\ Close

Spec == Init /\ [][Next]_vars

----------------------------------------------------------------------------
(* C45, clause by clause, on the emitted documents.  KF-C45-1: after an as-found rewind that rolled back a counter   *)
(* advanced by a collect the seq_nums are re-issued and num_events under-counts; only that scenario is exempted.     *)
C45_IndexContiguous == ~viol.idx
C45_SeqContiguous   == ~viol.seq \/ kf
C45_Aligned         == ~viol.width
C45_SameMinimum     == ~viol.min
C45_NumEvents       == ~viol.ne \/ kf
C45_MustRaise       == ~viol.guard
C45_SeqContiguous_Strict == ~viol.seq
C45_NumEvents_Strict     == ~viol.ne

\* at every emitted stream_datum: seq_nums = indices + 1 (consequence of the clauses for detectors starting at 0; kept as a
\* cross-check of the monitors, it mentions the documents only)
C45_LinedUp == [][\A i \in 1..Len(out'.docs) : out'.docs[i].k = "datum" =>
                     (kf' \/ (out'.docs[i].s0 = out'.docs[i].i0 + 1 /\ out'.docs[i].s1 = out'.docs[i].i1 + 1))]_vars

\* the monitors agree with the specification's own book-keeping (not part of the property; guards the model)
ModelSane == /\ \A d \in Dets : mIdx[d] <= last[d] /\ last[d] <= avail[d]
             /\ \A s \in Streams : decl[s] = {} <=> ctr[s] = 0
             /\ (~failed /\ ~kf) => \A s \in Streams : \A d \in decl[s] : ctr[s] = mSeq[d] /\ last[d] = mIdx[d]

\* vacuity: each of these must be REFUTED by TLC (Collect_reach.cfg)
Reach_NoNewFrames == ~(out.op = "collect" /\ ~out.err /\ Len(out.ds) > 1 /\ out.docs = <<>> /\ \E d \in Dets : mIdx[d] > 0)
Reach_WidthRaise  == ~(out.op = "collect" /\ out.err /\ out.docs # <<>>)
Reach_Undeclared  == ~(out.op = "collect" /\ out.err /\ out.rep = <<>> /\ out.docs = <<>>)
Reach_TwoStreams  == ~(phase = "closed" /\ ~failed /\ \A s \in Streams : NumEvents[s] > 0)
Reach_Unequal     == ~(out.op = "collect" /\ ~out.err /\ Len(out.rep) > 1 /\ Cardinality(Range(out.rep)) > 1 /\ out.docs # <<>>)

\* replay generation (CONSTRAINT, workers = 1): print every maximal history
DumpHist == (phase = "closed") => PrintT(<<"HIST", ToJson(hist)>>)
=============================================================================
