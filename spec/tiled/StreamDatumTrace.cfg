CONSTANTS
  Part = "none"
  Off = 1
  CBounds <- CB_none
  MaxChunk = 1
  MaxCLen = 0
  MaxConsume = 0
  MaxDLen = 1
  Mults = {0}
SPECIFICATION TraceSpec
INVARIANT T_ConcatConforms
INVARIANT T_ConcatCoversParts
INVARIANT T_Returns
INVARIANT T_ConsConforms
INVARIANT T_ChunksTile
INVARIANT T_ChunkSizeRespected
INVARIANT T_SeqMapTotal
INVARIANT T_JoinShape
POSTCONDITION AllSeen
