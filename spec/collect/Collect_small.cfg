CONSTANTS
  ND = 2
  NS = 2
  MaxF = 2
  MaxEnv = 2
  MaxCol = 2
  MaxPause = 1
  MaxCkpt = 1
  MaxCfg = 1
  GreedySets = {{}}
  LazyModes = {FALSE}
  WrongGroup = TRUE
  Choice = "both"
SPECIFICATION Spec
INVARIANT ModelSane
INVARIANT C45_IndexContiguous
INVARIANT C45_SeqContiguous
INVARIANT C45_Aligned
INVARIANT C45_SameMinimum
INVARIANT C45_NumEvents
INVARIANT C45_MustRaise
PROPERTY C45_LinedUp
