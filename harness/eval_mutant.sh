#!/bin/sh
# coordinator helper: evaluate seeded-change candidates in /tmp/mut/<Cxx>b (demo with / without the change, then the check)
# usage: harness/eval_mutant.sh C32 C34 ...      (runs the checks 3 at a time)
cd /verif || exit 2
n=0
for p in "$@"; do
  (
    w=/tmp/mut/${p}${SUF:-b}
    a=$(cd /tmp && PYTHONPATH=$w/src timeout 600 /venv/bin/python $w/_out/demo.py 2>&1 | tail -n 1 | cut -c1-70)
    b=$(cd /tmp && PYTHONPATH=/repo/src timeout 600 /venv/bin/python $w/_out/demo.py 2>&1 | tail -n 1 | cut -c1-30)
    VERIF_REPO_SRC=$w/src VERIF_OUT=/verif/out/scratch/${p}${SUF:-b} ./check $p > /tmp/mut/${p}${SUF:-b}.check.log 2>&1
    rc=$?
    echo "== $p demo:[$a]/[$b] check exit=$rc $(grep -c '^VIOLATION' /tmp/mut/${p}${SUF:-b}.check.log) violations; $(grep -m1 '^VIOLATION' /tmp/mut/${p}${SUF:-b}.check.log | cut -c1-260)"
  ) &
  n=$((n+1))
  if [ $((n % 3)) -eq 0 ]; then wait; fi
done
wait
