\* tune_centroid(start=0, stop=4, min_step=1/2, num=3, step_factor=2), <= 5 visits
CONSTANTS
  Plan = "tune"
  Den = 2
  StartN = 0
  StopN = 8
  MinStepN = 1
  MaxStepN = 4
  TargetN = 4
  ThrN = 4
  ThrD = 5
  Num = 3
  SfN = 2
  SfD = 1
  Readings = {0, 1, 2, 5}
  MaxIter = 5
  Fuzz = TRUE
  Flips = {FALSE, TRUE}
  Backsteps = {FALSE, TRUE}
  Snakes = {FALSE, TRUE}
SPECIFICATION Spec
INVARIANT TypeOK
INVARIANT TC_VisitedInRange
INVARIANT TC_ParkInRange
INVARIANT TC_PassInRange
INVARIANT IterBound
PROPERTY TC_StepShrinks
