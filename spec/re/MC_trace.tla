------------------------------ MODULE MC_trace ------------------------------
EXTENDS RETrace
XDets == {"det", "det2", "pdet", "apdet", "npdet"}
XMotors == {"motor", "motor2", "amotor"}
XMons == {"mon1"}
ReadValDef == [d \in XDets \cup XMotors \cup XMons |->
                 CASE d = "amotor" -> "dict:amotor,amotor_setpoint" [] d = "apdet" -> "dict:apdet" [] d = "det" -> "dict:det" [] d = "det2" -> "dict:det2" [] d = "pdet" -> "dict:pdet" [] d = "npdet" -> "dict:npdet"
                   [] d = "motor" -> "dict:motor,motor_setpoint" [] d = "motor2" -> "dict:motor2,motor2_setpoint"
                   [] d = "mon1" -> "dict:mon1"]
DataKeysDef == [d \in XDets \cup XMotors \cup XMons |->
                 CASE d = "amotor" -> {"amotor", "amotor_setpoint"} [] d = "apdet" -> {"apdet"} [] d = "det" -> {"det"} [] d = "det2" -> {"det2"} [] d = "pdet" -> {"pdet"} [] d = "npdet" -> {"npdet"}
                   [] d = "motor" -> {"motor", "motor_setpoint"} [] d = "motor2" -> {"motor2", "motor2_setpoint"}
                   [] d = "mon1" -> {"mon1"}]
StreamOrderDef == <<"baseline", "fly1_stream", "fly2_stream", "interruptions", "mon1", "primary">>
DevOrderDef == <<"det", "det2", "mon1", "motor", "motor2", "pdet", "amotor", "apdet", "fly1", "fly2", "npdet">>
FlyStreamDef == [f \in {"fly1", "fly2"} |-> f \o "_stream"]
FlyNDef == [f \in {"fly1", "fly2"} |-> 2]
XSus == {"s1", "s2", "s3"}
SigOfDef == [x \in XSus |-> IF x = "s1" THEN "sig1" ELSE IF x = "s2" THEN "sig2" ELSE "sig3"]
SusFutsDef == [x \in XSus |-> IF x = "s1" THEN <<"s1a", "s1b", "s1c", "s1d">> ELSE IF x = "s2" THEN <<"s2a", "s2b", "s2c", "s2d">> ELSE <<"s3a", "s3b", "s3c", "s3d">>]
M(c, o, r, a) == Msg(c, o, r, a)
PlanLibDef == [n |-> <<M("null", "", "", "")>>, s |-> <<M("sleep", "", "", "")>>,
               nn |-> <<M("null", "", "", ""), M("null", "", "", "")>>]
=============================================================================
