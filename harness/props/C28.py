"""C28 -- count and repeat run the inner plan exactly num times with the right delays.

spec/patterns/Repeat.tla models the repeat loop (loop counter, remaining delays, virtual clock, inner-plan duration,
emitted messages) and offers every alternative the statement leaves open; TLC checks the property's invariants over all
behaviours of the bound (num in None, 0..3; scalar / sized / unsized delays; durations) and prints every maximal
history; each history is replayed on the real bluesky.plan_stubs.repeat and bluesky.plans.count (default per_shot and
a marker per_shot) driven by hand with time.time replaced by a virtual clock, and the projected message sequence and
outcome must be one of the specified behaviours of that request; random larger runs are validated by TLC (RepeatTrace).
"""
import json
import random
import re

from harness.pattern_helpers import Det, VirtualClock, cheap_plan_stacks, last_state, virtual_time
from harness.tlc import SPEC, run_tlc
from harness.tracecheck import validate_traces

SD = SPEC / "patterns"
DESIGN_REF = "DESIGN.md section 7 (C28)"
TECHNIQUE = ("implementation-shaped TLA+ specification of the repeat loop with a virtual clock, checked exhaustively by TLC; every "
             "maximal history replayed on the real repeat/count generators under a virtual time.time; random longer runs validated by TLC")
BINDINGS = ("repeat", "count", "count_per_shot")


def execute(binding, num, dkind, delays, durs, stop):
    """Drive the real plan by hand.  num: -1 = None.  durs: duration of each run of the inner plan (virtual seconds).
    stop: close the plan when repetition stop+1 is about to start (None: never).
    Returns (projected events [(c, v)], outcome 'done' | 'error' | 'closed' | 'raised:<type>')."""
    import bluesky.plan_stubs as bps
    import bluesky.plans as bp
    from bluesky.utils import Msg
    clock = VirtualClock(1000)
    n = None if num < 0 else num
    if dkind == "scalar":
        delay = delays[0]
    elif dkind == "list":
        delay = list(delays)
    else:
        delay = (d for d in list(delays))
    dur_it = iter(list(durs) + [0] * 64)
    if binding == "repeat":
        def inner():
            yield Msg("null")
        plan = bps.repeat(inner, num=n, delay=delay)
    elif binding == "count":
        plan = bp.count([Det("det")], num=n, delay=delay)
    else:
        def shot(detectors):
            yield Msg("null")
        plan = bp.count([Det("det")], num=n, delay=delay, per_shot=shot)
    ev = []
    outcome = None
    with virtual_time(clock):
        it = iter(plan)
        resp = None
        first = True
        nmsg = 0
        try:
            while True:
                msg = next(it) if first else it.send(resp)
                first = False
                nmsg += 1
                if nmsg > 5000:
                    it.close()
                    outcome = "runaway"
                    break
                resp = None
                c = msg.command
                if c == "checkpoint":
                    if binding == "count" and ev and ev[-1][0] == "checkpoint":
                        continue                      # one_shot's own checkpoint, part of the inner plan
                    if stop is not None and sum(1 for e in ev if e[0] == "inner") >= stop:
                        it.close()
                        outcome = "closed"
                        break
                    ev.append(("checkpoint", 0))
                elif c == "sleep":
                    amount = msg.args[0]
                    clock.advance(amount)
                    ev.append(("sleep", amount))
                elif (c == "null" and binding != "count") or (c == "save" and binding == "count"):
                    d = next(dur_it)
                    clock.advance(d)                  # the inner plan took d
                    ev.append(("inner", d))
                elif c == "open_run":
                    resp = "uid-0"
                elif c == "read":
                    resp = msg.obj.read()
                elif c in ("stage", "unstage"):
                    resp = [msg.obj]
        except StopIteration:
            outcome = "done"
        except ValueError:
            outcome = "error"
        except Exception as ex:  # noqa
            outcome = f"raised:{type(ex).__name__}"
    return ev, outcome


def norm(ev):
    return tuple((c, int(v)) if float(v) == int(v) else (c, float(v)) for c, v in ev)


def sig_req(binding, num, dkind, delays):
    n = "None" if num < 0 else num
    if dkind == "scalar":
        d = f"scalar={delays[0]}"
    else:
        rel = "short" if (num > 0 and num - 1 > len(delays)) else "enough"
        d = f"{dkind}:len={len(delays)}:{rel}"
    return f"{binding}:num={n}:{d}"


def run(ctx):
    # 1. exhaustive model checking (+ every maximal history printed)
    if ctx.quick:
        res = run_tlc("Repeat", "Repeat_small.cfg", spec_dir=SD, tag="C28", workers=1, timeout=1500)
        ctx.add_tlc(res, "Repeat exhaustive Repeat_small.cfg (histories printed)")
        hist_out = res.stdout
    else:
        res = run_tlc("Repeat", "Repeat_large.cfg", spec_dir=SD, tag="C28", timeout=3000)
        ctx.add_tlc(res, "Repeat exhaustive Repeat_large.cfg")
        hist_out = ""
    if not res.ok:
        st = last_state(res)
        ctx.violation(f"spec:{res.violated}", f"Repeat.tla {res.kind} {res.violated} violated on the specification itself: "
                      f"num={st.get('num')} dkind={st.get('dkind')} delays={st.get('delays0')} hist={st.get('hist')}", {"tlc_trace": str(res.trace)[:3000]})
        return
    ctx.cov["exhaustive"] = True
    if not ctx.quick:
        r2 = run_tlc("Repeat", "Repeat_replay.cfg", spec_dir=SD, tag="C28r", workers=1, timeout=3000)
        ctx.add_tlc(r2, "Repeat replay generation Repeat_replay.cfg")
        hist_out = r2.stdout
    hists = {}
    for m in re.finditer(r'<<"HIST", "((?:[^"\\]|\\.)*)">>', hist_out):
        h = json.loads(json.loads('"' + m.group(1) + '"'))
        key = (h["num"], h["dkind"], tuple(h["delays"]), tuple((e["c"], e["v"]) for e in h["hist"]), h["outcome"])
        hists[key] = h
    if not hists:
        ctx.machinery("no histories printed by the replay-generation config")
    allowed = {}
    for (num, dkind, delays, hist, outcome) in hists:
        allowed.setdefault((num, dkind, delays), set()).add((hist, outcome))
    # vacuity: the antecedents of the invariants are reachable in what TLC generated
    n_err = sum(1 for k in hists if k[4] == "error")
    n_sleep = sum(1 for k in hists if any(c == "sleep" for c, _ in k[3]))
    n_nosleep2 = sum(1 for k in hists if sum(c == "inner" for c, _ in k[3]) >= 2 and not any(c == "sleep" for c, _ in k[3]))
    n_closed = sum(1 for k in hists if k[4] == "closed")
    ctx.note(f"{len(hists)} distinct maximal histories: {n_err} end in ValueError, {n_closed} closed by the consumer, {n_sleep} contain a sleep, "
             f"{n_nosleep2} have >= 2 repetitions and no sleep")
    if not (n_err and n_sleep and n_nosleep2 and n_closed):
        ctx.machinery("vacuous model: some outcome class is unreachable")
    ctx.rule = ("every maximal behaviour of the replay-generation config (quick: Repeat_small.cfg, thorough: Repeat_replay.cfg; request = num, delay kind, delays; environment = durations, consumer stop) is "
                "replayed on the real generators of plan_stubs.repeat, plans.count (default per_shot) and plans.count (marker per_shot) under "
                "a virtual time.time; the projected message sequence and outcome must be one of the specified behaviours of the request; "
                "non-trivial = at least two repetitions or a ValueError; distinct by (binding, request, durations, stop); plus random longer "
                "runs validated by TLC (RepeatTrace)")
    with cheap_plan_stacks():
        for (num, dkind, delays, hist, outcome), h in hists.items():
            durs = [v for c, v in hist if c == "inner"]
            stop = len(durs) if outcome == "closed" else None
            for b in BINDINGS:
                ev, got = execute(b, num, dkind, delays, durs, stop)
                ctx.case((b, num, dkind, delays, tuple(durs), stop), len(durs) >= 2 or outcome == "error")
                if (norm(ev), got) not in allowed[(num, dkind, delays)]:
                    ctx.violation(f"{sig_req(b, num, dkind, delays)}:outcome={got}",
                                  f"{b}(num={None if num < 0 else num}, delay {dkind} {list(delays)}) with inner durations {durs}"
                                  f"{' stopped after ' + str(stop) if stop is not None else ''}: messages {list(norm(ev))} ending in '{got}' is not a "
                                  f"specified behaviour (e.g. specified: {list(hist)} ending in '{outcome}')",
                                  {"binding": b, "num": num, "dkind": dkind, "delays": list(delays), "durs": durs, "stop": stop,
                                   "observed": [list(norm(ev)), got], "a_specified_behaviour": [list(hist), outcome]})
            if len(durs) >= 2 and any(c == "sleep" for c, _ in hist):
                ctx.sample({"num": num, "dkind": dkind, "delays": list(delays), "hist": list(hist), "outcome": outcome}, limit=3)

    # 2. random longer runs -> TLC
    rng = random.Random(ctx.seed)
    traces, meta = [], []
    with cheap_plan_stacks():
        for _ in range(60 if ctx.quick else 1500):
            b = rng.choice(BINDINGS)
            num = rng.choice([-1, -1, 0, 1] + list(range(2, 10)))
            dkind = rng.choice(["scalar", "list", "gen"])
            if dkind == "scalar":
                delays = [rng.randint(0, 9)]
            else:
                want = max(num - 1, 0) if num >= 0 else rng.randint(0, 8)
                ln = max(0, want + rng.choice([-3, -1, 0, 0, 0, 1, 4]))
                delays = [rng.randint(0, 9) for _ in range(ln)]
            durs = [rng.randint(0, 9) for _ in range(14)]
            stop = rng.randint(1, 10) if num < 0 else None
            ev, got = execute(b, num, dkind, delays, durs, stop)
            rec = {"num": num, "dkind": dkind, "delays": delays,
                   "ev": [{"c": c, "v": int(v), "o": ""} for c, v in norm(ev)] + [{"c": "end", "v": 0, "o": got}]}
            traces.append(rec)
            meta.append((b, num, dkind, delays, durs, stop, got))
            ctx.case((b, num, dkind, tuple(delays), tuple(durs), stop), True)
    v = validate_traces("RepeatTrace", "RepeatTrace.cfg", traces, SD, ctx.out, tag="C28t", timeout=2400)
    ctx.add_tlc(v.res, "RepeatTrace")
    ctx.traces(len(traces) - len(v.rejected) - (1 if v.invariant else 0))
    for idx, upto in sorted(v.rejected.items()):
        b, num, dkind, delays, durs, stop, got = meta[idx]
        evs = traces[idx]["ev"]
        ctx.violation(f"trace:{sig_req(b, num, dkind, delays)}:outcome={got}",
                      f"{b}(num={None if num < 0 else num}, delay {dkind} {delays}), durations {durs[:len(evs)]}, stop {stop}: stream rejected by RepeatTrace at event "
                      f"{upto} ({evs[upto] if upto < len(evs) else None}); stream {[(e['c'], e['v']) for e in evs[:-1]]} ending in '{got}'",
                      {"binding": b, "trace": traces[idx], "accepted_prefix": upto})
    if v.invariant:
        idx = v.inv_trace_index
        b = meta[idx][0] if idx is not None else "?"
        ctx.violation(f"trace-invariant:{v.invariant}:{sig_req(*meta[idx][:4]) if idx is not None else '?'}",
                      f"invariant {v.invariant} violated on a recorded run of {b}", {"trace": traces[idx] if idx is not None else None})
    ctx.assumptions += [
        "delays, durations and the clock are integers (exact arithmetic in `d - (time.time() - now)`); time.time is the only clock the loop reads",
        "the inner plan's duration is the virtual time that passes between the repetition's checkpoint and the end of the inner plan",
        "left open by the statement and therefore accepted either way: a trailing sleep after the last repetition, refusing a too short sized "
        "iterable up front or when it runs dry, and (num=None) ending silently or with ValueError when an iterable runs dry",
        "count's default per_shot (one_shot) emits its own checkpoint right after repeat's; it is treated as part of the inner plan",
    ]


def replay(ctx, obj):
    """./check C28 --replay FILE: re-execute the failing run on the implementation and let TLC judge it"""
    if isinstance(obj.get("replay"), dict):     # a file written by ./check: {sig, what, replay}
        obj = obj["replay"]
    if "binding" not in obj:
        print(json.dumps(obj, indent=1)[:4000])
        return 0
    if "trace" in obj:
        num, dkind, delays = obj["trace"]["num"], obj["trace"]["dkind"], obj["trace"]["delays"]
        durs = [e["v"] for e in obj["trace"]["ev"] if e["c"] == "inner"]
        stop = len(durs) if obj["trace"]["ev"][-1]["o"] == "closed" else None
    else:
        num, dkind, delays, durs, stop = obj["num"], obj["dkind"], obj["delays"], obj["durs"], obj["stop"]
    with cheap_plan_stacks():
        ev, got = execute(obj["binding"], num, dkind, delays, durs, stop)
    print(f"{obj['binding']}(num={None if num < 0 else num}, delay {dkind} {delays}), inner durations {durs}, stop {stop}")
    print(f"  observed: {list(norm(ev))} ending in '{got}'")
    rec = {"num": num, "dkind": dkind, "delays": list(delays),
           "ev": [{"c": c, "v": int(v), "o": ""} for c, v in norm(ev)] + [{"c": "end", "v": 0, "o": got}]}
    v = validate_traces("RepeatTrace", "RepeatTrace.cfg", [rec], SD, ctx.out, tag="C28replay")
    if v.ok:
        print("  accepted by RepeatTrace: a specified behaviour (the violation does not reproduce)")
        return 0
    print(f"  REJECTED by RepeatTrace (accepted prefix {v.rejected.get(0)}, invariant {v.invariant}): reproduces")
    return 1
