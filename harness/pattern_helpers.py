"""Shared helpers of the pattern checks C25 / C27 / C28: stand-in devices, a hand driver for plan
generators (no RunEngine: the plan's own message stream is what the properties talk about), exact-rational
helpers binding floats to the <<num, den>> values of the TLA+ modules, and a virtual clock."""
from __future__ import annotations

import contextlib
import time as _time
import traceback
from fractions import Fraction


class Mot:
    """stand-in motor: hashable, named, movable; relative plans take the start position from .position"""

    def __init__(self, name, position=0.0):
        self.name = name
        self.parent = None
        self.position = position

    def set(self, v):  # makes it "movable" for the argument classifiers; never called (no RunEngine)
        raise NotImplementedError

    def read(self):
        return {self.name: {"value": self.position, "timestamp": 0.0}}

    def describe(self):
        return {self.name: {"source": "verif", "dtype": "number", "shape": []}}

    def stop(self, success=True):
        pass

    def __repr__(self):
        return self.name


class Det:
    """stand-in triggerable detector"""

    def __init__(self, name):
        self.name = name
        self.parent = None

    def trigger(self):
        raise NotImplementedError

    def read(self):
        return {self.name: {"value": 1.0, "timestamp": 0.0}}

    def describe(self):
        return {self.name: {"source": "verif", "dtype": "number", "shape": []}}

    def __repr__(self):
        return self.name


def drive(plan, on_msg=None, max_msgs=None):
    """Consume a plan by hand, answering each message the way a RunEngine would (uid for open_run, a reading
    for read, the device list for stage/unstage, None otherwise).  Returns (messages, exception or None,
    closed: True when the consumer stopped the plan after max_msgs messages)."""
    out = []
    resp = None
    it = iter(plan)
    try:
        while True:
            msg = it.send(resp) if out else next(it)
            out.append(msg)
            if on_msg is not None:
                on_msg(msg)
            c = msg.command
            if c == "open_run":
                resp = "uid-0"
            elif c == "read":
                resp = msg.obj.read()
            elif c in ("stage", "unstage"):
                resp = [msg.obj]
            else:
                resp = None
            if max_msgs is not None and len(out) >= max_msgs:
                it.close()
                return out, None, True
    except StopIteration:
        return out, None, False
    except Exception as ex:  # noqa: the plan's own exception is an observation
        return out, ex, False


@contextlib.contextmanager
def cheap_plan_stacks():
    """bluesky.utils.Plan records traceback.format_stack() for every @plan call (only used for the 'never
    iterated' warning); that is 90 % of the cost of driving a plan by hand.  Stub it while replaying."""
    orig = traceback.format_stack

    def stub(f=None, limit=None):
        return ["", "", ""]
    traceback.format_stack = stub
    try:
        yield
    finally:
        traceback.format_stack = orig


# ---------------------------------------------------------------------------- rationals
def frac(r):
    """TLA+ <<num, den>> (JSON [num, den]) -> Fraction"""
    return Fraction(int(r[0]), int(r[1]))


def rat(fr):
    fr = Fraction(fr)
    return [fr.numerator, fr.denominator]


def close(got, exp, scale=1.0, rel=1e-12):
    """relative tolerance 1e-12 (relative to the larger of |expected| and the scale of the axis)"""
    exp = float(exp)
    return abs(float(got) - exp) <= rel * max(abs(exp), scale, 1e-300)


def float_to_rat(v, scale=1.0, maxden=10000, rel=1e-12):
    """Bind a float produced by the implementation to an exact rational for TLC: the simplest rational within
    1e-12 (relative); when there is none with a small denominator the float's own value (denominator limited to
    10^6, so that TLC integers stay below 2^31) is logged and TLC will see that it is not the expected one."""
    v = float(v)
    r = Fraction(v).limit_denominator(maxden)
    if close(v, r, scale, rel):
        return rat(r)
    return rat(Fraction(v).limit_denominator(10 ** 6))


# ---------------------------------------------------------------------------- virtual time
class VirtualClock:
    """time.time replaced by a counter the harness advances (C28)"""

    def __init__(self, t0=1000):
        self.t = t0

    def __call__(self):
        return self.t

    def advance(self, dt):
        self.t += dt


@contextlib.contextmanager
def virtual_time(clock):
    orig = _time.time
    _time.time = clock
    try:
        yield clock
    finally:
        _time.time = orig


# ---------------------------------------------------------------------------- TLC output
def last_state(res):
    """the state TLC blames: last state of the counterexample, or the initial state when the invariant is violated
    there (TLC prints that one without a 'State 1:' header)"""
    from harness.tlc import parse_state_block
    if res.trace:
        return res.trace[-1][1]
    out = res.stdout
    i = out.find("violated by the initial state:")
    if i < 0:
        return {}
    blk = []
    for ln in out[i:].splitlines()[1:]:
        if not ln.strip():
            break
        blk.append(ln)
    try:
        return parse_state_block(blk)
    except Exception:
        return {}
