-------------------------------- MODULE REMon --------------------------------
(* The property monitors of REProps.tla evaluated directly on recorded implementation traces, one event per  *)
(* step, independently of whether RE.tla can explain the trace (RETrace decides that).  A property verdict on *)
(* an implementation execution never depends on the mechanics the specification describes.                     *)
EXTENDS REProps, Json, IOUtils

Traces == ndJsonDeserialize(IOEnv.TRACE_FILE)
VARIABLES tid, l, tr
mvars == <<S, obs, mon, tid, l, tr>>

MonTraceInit == /\ S = InitS /\ obs = <<>> /\ MonInit /\ l = 1
                /\ LET all == Traces IN \E i \in 1..Len(all) : tid = i /\ tr = all[i]

MonTraceNext == /\ l <= Len(tr)
                /\ mon' = Upd(mon, tr[l], S, S)
                /\ l' = l + 1
                /\ UNCHANGED <<S, obs, tid, tr>>

MonTraceSpec == MonTraceInit /\ [][MonTraceNext]_mvars
MonReport == Report(tid)
=============================================================================
