"""C26 -- snaked grids are a continuous back-and-forth ordering of the full grid.

spec/patterns/Snake.tla defines the order from the statement and TLC checks the
property's invariants on every grid of the bounded domain; every grid is then
replayed against bluesky (snake_cyclers, outer_product, outer_list_product), and
implementation orders of random larger grids are validated by TLC (SnakeTrace).
"""
import json
import random

from harness.tlc import run_tlc, SPEC

SD = SPEC / "patterns"


class M:  # stand-in motor (hashable, has a name)
    def __init__(self, name):
        self.name = name
        self.parent = None
        self.position = 0

    def set(self, v):  # is_movable
        raise NotImplementedError

    def read(self):
        return {}

    def describe(self):
        return {}

    def stop(self, success=True):
        pass

    def __repr__(self):
        return self.name


def impl_orders(lens, flags):
    """index orders produced by the three implementation entry points; values are distinct per axis"""
    from cycler import cycler
    from bluesky.utils import snake_cyclers
    from bluesky.plan_patterns import outer_list_product, outer_product
    n = len(lens)
    motors = [M(f"m{i}") for i in range(n)]
    out = {}
    # 1. snake_cyclers directly; values 10*i + k
    cyc = snake_cyclers([cycler(motors[i], [100 * i + k for k in range(lens[i])]) for i in range(n)], list(flags))
    out["snake_cyclers"] = [[int(pt[motors[i]]) - 100 * i for i in range(n)] for pt in cyc]
    # 2. outer_list_product with snake_axes list (the first axis is snaked only through the list form)
    args = []
    for i in range(n):
        args += [motors[i], [100 * i + k for k in range(lens[i])]]
    sa = [motors[i] for i in range(n) if flags[i]]
    cyc = outer_list_product(args, sa if sa else False)
    out["outer_list_product"] = [[int(pt[motors[i]]) - 100 * i for i in range(n)] for pt in cyc]
    # 3. outer_product (linspace 0..len-1): flags[0] cannot be expressed -> treated as False
    args = []
    for i in range(n):
        args += [motors[i], 0, lens[i] - 1, lens[i]]
        if i > 0:
            args.append(bool(flags[i]))
    if n >= 1:
        cyc = outer_product(args)
        out["outer_product"] = [[int(round(pt[motors[i]])) for i in range(n)] for pt in cyc]
    return out


def run(ctx):
    cfg = "Snake_small.cfg" if ctx.quick else "Snake_large.cfg"
    cases_file = ctx.out / "cases.ndjson"
    res = run_tlc("Snake", cfg, spec_dir=SD, env={"CASES_OUT": cases_file}, tag="C26", timeout=1500)
    ctx.add_tlc(res, "Snake exhaustive " + cfg)
    if not res.ok:
        st = res.trace[-1][1] if res.trace else {}
        ctx.violation(f"spec:{res.violated}", f"Snake.tla invariant {res.violated} violated on the specification itself: {st}",
                      {"tlc_trace": str(res.trace)[:2000]})
        return
    ctx.cov["exhaustive"] = True
    ctx.rule = ("every grid (lens, flags) of the bounded domain is enumerated by TLC and replayed against snake_cyclers, "
                "outer_list_product and outer_product; distinct = distinct (entry point, lens, flags) with >1 point and "
                "some snaked axis; plus random larger grids recorded from the implementation and validated by TLC")
    cases = [json.loads(ln) for ln in open(cases_file)]
    for c in cases:
        lens, flags, order = c["lens"], c["flags"], c["order"]
        impl = impl_orders(lens, flags)
        for ep, got in impl.items():
            exp = order
            if ep == "outer_product" and flags[0]:
                continue  # not expressible; covered by flags[0] = False twin
            nontrivial = len(order) > 1 and any(flags[1:])
            ctx.case((ep, tuple(lens), tuple(flags)), nontrivial)
            if got != exp:
                ctx.violation(f"{ep}:lens={lens}:flags={flags}",
                              f"{ep} order differs from Snake.tla for lens={lens} flags={flags}: got {got[:12]}... expected {exp[:12]}...",
                              {"entry": ep, "lens": lens, "flags": flags, "got": got, "expected": exp})
        if len(order) > 3 and any(flags[1:]):
            ctx.sample({"lens": lens, "flags": flags, "order": order[:12]})
    # implementation traces on larger random grids -> TLC
    rng = random.Random(ctx.seed)
    N = 40 if ctx.quick else 400
    rec = []
    for _ in range(N):
        n = rng.randint(2, 5)
        lens = [rng.randint(1, 6) for _ in range(n)]
        while eval("*".join(map(str, lens))) > 600:
            lens[rng.randrange(n)] = 1
        flags = [rng.random() < 0.6 for _ in range(n)]
        impl = impl_orders(lens, flags)
        for ep, got in impl.items():
            f = list(flags)
            if ep == "outer_product":
                f[0] = False
            rec.append({"lens": lens, "flags": f, "order": got, "ep": ep})
    tf = ctx.out / "impl_traces.ndjson"
    with open(tf, "w") as fh:
        for r in rec:
            fh.write(json.dumps({k: r[k] for k in ("lens", "flags", "order")}) + "\n")
    res = run_tlc("SnakeTrace", "SnakeTrace.cfg", spec_dir=SD, env={"TRACE_FILE": tf}, tag="C26t", timeout=1500)
    ctx.add_tlc(res, "SnakeTrace")
    for r in rec:
        ctx.case((r["ep"], tuple(r["lens"]), tuple(r["flags"])), any(r["flags"][1:]) and len(r["order"]) > 1)
    if res.ok:
        ctx.traces(len(rec))
    else:
        st = res.trace[-1][1] if res.trace else {}
        lens, flags = list(st.get("lens", ())), list(st.get("flags", ()))
        ctx.violation(f"trace:{res.violated}:lens={lens}:flags={flags}",
                      f"implementation order rejected by SnakeTrace ({res.violated}) for lens={lens} flags={flags}",
                      {"lens": lens, "flags": flags, "violated": res.violated})
    ctx.assumptions += ["cycler package and numpy behave as documented", "TLC 1.8.0 evaluates Snake.tla correctly"]
