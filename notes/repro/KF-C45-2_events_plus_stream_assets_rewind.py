"""KF-C45-2 (fixed): a detector that hands back events AND writes stream assets, collected alone into a declared stream, then a
pause + resume: before the fix the rewind rolled the stream's counter back to the checkpoint although the frames behind the
stream datums cannot be re-taken -- the next stream datum re-used seq_nums already given out and RunStop.num_events was short.

usage: PYTHONPATH=/repo/src /venv/bin/python notes/repro/KF-C45-2_events_plus_stream_assets_rewind.py
"""
from event_model import ComposeStreamResource

from bluesky import Msg, RunEngine
from bluesky.utils import RunEngineInterrupted


class Det:
    parent = None
    name = "det"

    def __init__(self):
        self.avail = self.last = 0
        self.bundle = None
        self.new = (0, 0)

    def kickoff(self):
        from ophyd.status import Status
        st = Status()
        st.set_finished()
        return st

    complete = kickoff

    def describe_collect(self):
        return {"det": {"source": "file", "dtype": "array", "shape": [2, 2], "external": "STREAM:"},
                "det_t": {"source": "pv", "dtype": "number", "shape": []}}

    def collect_asset_docs(self, index=None):
        if self.bundle is None:
            self.bundle = ComposeStreamResource()(mimetype="application/x-hdf5", uri="file://localhost/tmp/det.h5",
                                                  data_key="det", parameters={"dataset": "/d"})
            yield "stream_resource", self.bundle.stream_resource_doc
        self.new = (self.last, self.avail)
        if self.avail > self.last:
            yield "stream_datum", self.bundle.compose_stream_datum(indices={"start": self.last, "stop": self.avail})
            self.last = self.avail

    def collect(self):
        a, b = self.new
        self.new = (b, b)
        for k in range(a, b):
            yield {"time": float(k), "data": {"det_t": float(k)}, "timestamps": {"det_t": float(k)}}


det = Det()
RE = RunEngine({}, context_managers=[])
docs = []
RE.subscribe(lambda n, d: docs.append((n, d)))


def plan():
    yield Msg("open_run")
    yield Msg("declare_stream", None, det, name="primary", collect=True)
    yield Msg("checkpoint")
    det.avail += 3
    yield Msg("collect", det, name="primary")          # frames 0..3  -> seq_nums 1..3
    yield Msg("pause")                                  # (no checkpoint since the collect: the resume rewinds)
    det.avail += 2
    yield Msg("collect", det, name="primary")          # frames 3..5  -> must be seq_nums 4..5
    yield Msg("close_run")


try:
    RE(plan())
except RunEngineInterrupted:
    RE.resume()
sd = [(d["indices"]["start"], d["indices"]["stop"], d["seq_nums"]["start"], d["seq_nums"]["stop"]) for n, d in docs if n == "stream_datum"]
ne = [d["num_events"] for n, d in docs if n == "stop"][0]
print("stream datums (i0, i1, s0, s1):", sd, " num_events:", ne)
ok = all(s0 == i0 + 1 and s1 == i1 + 1 for i0, i1, s0, s1 in sd) and ne.get("primary") == max(x[1] for x in sd)
print("PASS" if ok else "FAIL: stream datum seq_nums do not line up with the frames / num_events")
raise SystemExit(0 if ok else 1)
