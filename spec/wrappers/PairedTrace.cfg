CONSTANTS
  Kinds = {}
  MaxOps = 100000
  PMsgs = 0
  Thrown = {}
  PRaise = {}
  CatchThrow = TRUE
  MisbehaveClose = TRUE
  AsCoded = TRUE
  Forests = {}
  DevLists = {}
  Styles = {}
  PosKinds = {}
  Positions = {}
  Offsets = {}
SPECIFICATION TraceSpec
INVARIANT C23_RunClosedOnce
INVARIANT C23_RunOutcome
INVARIANT C23_UnstageReverse
INVARIANT C23_StageOncePerTree
INVARIANT C23_SubsRemoved
INVARIANT C23_SuspendersRemoved
INVARIANT C23_RemoveOnlyAtEnd
INVARIANT C23_UndoneBeforeClose
INVARIANT C23_NoCleanupOnClose
INVARIANT C24_OffsetFromInitial
INVARIANT C24_ResetToInitial
INVARIANT C24_NoResetOnClose
POSTCONDITION TraceAccepted
