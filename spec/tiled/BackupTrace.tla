----------------------------- MODULE BackupTrace -----------------------------
(* Batch validation of _ConditionalBackup executions against Backup.tla.               *)
(* TRACE_FILE: ndjson; a trace = header [n, cap, fails, bfails] followed by one event    *)
(* per document: [raised, to] = did the primary raise, which documents (indices) each    *)
(* backup was called with during this call, in call order.                               *)
EXTENDS Backup, IOUtils

Traces == ndJsonDeserialize(IOEnv.TRACE_FILE)

VARIABLES tid, l
tvars == <<vars, tid, l>>

AsSet(q) == {q[j] : j \in 1..Len(q)}
Hd(t) == Traces[t][1]

TraceInit == /\ tid \in 1..Len(Traces)
             /\ l = 2
             /\ TLCSet(tid, 2)
             /\ n = Hd(tid).n
             /\ cap = Hd(tid).cap
             /\ fails = AsSet(Hd(tid).fails)
             /\ bfails = {<<p[1], p[2]>> : p \in AsSet(Hd(tid).bfails)}
             /\ i = 0 /\ buf = <<>> /\ push = FALSE /\ prim = <<>>
             /\ bk = [b \in Backups |-> <<>>]
             /\ lost = {}
             /\ out = [raised |-> FALSE, to |-> [b \in Backups |-> <<>>]]

Ev == Traces[tid][l]

TraceNext == /\ l <= Len(Traces[tid])
             /\ Call
             /\ out'.raised = Ev.raised
             /\ \A b \in Backups : out'.to[b] = Ev.to[b]
             /\ prim' = Ev.prim
             /\ l' = l + 1
             /\ UNCHANGED tid
             /\ TLCSet(tid, l + 1)

TraceSpec == TraceInit /\ [][TraceNext]_tvars

Progress(t) == TLCGet(t)
TraceAccepted ==       \* every trace consumed completely; all the others are printed (not only the first)
    LET bad == {t \in 1..Len(Traces) : Progress(t) # Len(Traces[t]) + 1}
    IN (\A t \in bad : PrintT(<<"REJECTED", t, Progress(t)>>)) /\ bad = {}
=============================================================================
