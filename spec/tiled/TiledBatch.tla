----------------------------- MODULE TiledBatch -----------------------------
(***************************************************************************)
(* C46 -- bluesky.callbacks.tiled_writer._RunWriter (behind TiledWriter):  *)
(* batching of event rows and of stream datums.                            *)
(*                                                                         *)
(* Implementation-shaped.  Per stream (descriptor name) a row cache that   *)
(* is appended to the stream's "internal" table when it reaches the batch  *)
(* size and at stop.  Per stream resource one cached (possibly merged)     *)
(* stream datum: with batch size <= 1 every stream datum is consumed at    *)
(* once; otherwise a new one is concatenated with the cached one when the  *)
(* two are adjacent (in either order) and consumed when the merged range   *)
(* reaches the batch size; when they are not adjacent (ValueError of       *)
(* concatenate_stream_datums) both are consumed separately; stop consumes  *)
(* what is still cached.  Consuming a range adds its length to the number  *)
(* of rows of the array registered for the data key (several resources may *)
(* feed one key).                                                          *)
(*                                                                         *)
(* The property (statement): after stop the container holds one row per    *)
(* event of each stream, in seq_num order with the event's values; every   *)
(* received index range has been consumed exactly once; the array of each  *)
(* external key is as long as the stream datums received for it.           *)
(* Domain: events of a stream arrive in seq_num order (1, 2, ...).         *)
(***************************************************************************)
EXTENDS Integers, Sequences, FiniteSets, TLC, Json

CONSTANTS Batches,      \* set of batch sizes
          MaxEv,        \* total number of events
          NStreams,
          MaxSD,        \* total number of stream datums
          NRes,         \* stream resources
          MaxIdx,       \* stream-datum ranges lie in 0..MaxIdx
          MaxLen,       \* longest single range
          Canonical,    \* BOOLEAN: replay generation (events first, then stream datums; history kept)
          MaxRedesc     \* replay generation: number of mid-run re-descriptions of a stream (a new descriptor, same stream)

VARIABLES
  batch,     \* chosen in Init
  keyof,     \* chosen in Init: resource -> data key it feeds (all one key, or one key each)
  phase,     \* "open" | "closed"
  nev,       \* stream -> events received
  cache,     \* _internal_data_cache: stream -> rows not yet written
  table,     \* stream -> rows appended to the "internal" table
  ext,       \* _external_data_cache: resource -> [has, a, b]
  nrows,     \* resource -> rows added to its consolidator by consume_stream_datum
  cons,      \* monitor: resource -> index -> times consumed
  recv,      \* monitor: resource -> index -> times received
  nsd,       \* stream datums received
  obs,       \* what was read back from the Tiled container after stop (trace validation only)
  hist

vars == <<batch, keyof, phase, nev, cache, table, ext, nrows, cons, recv, nsd, obs, hist>>

Streams == 1..NStreams
Res == 1..NRes
Idx == 0..(MaxIdx - 1)
None == [has |-> FALSE, a |-> 0, b |-> 0]
Row(d, s) == [s |-> s, v |-> s]            \* v identifies the values of the s-th event of the stream
KeyOf(r) == keyof[r]
NoObs == [set |-> FALSE, rows |-> <<>>, arr |-> <<>>, meta |-> TRUE, nodes |-> TRUE]

Init0 == /\ phase = "open"
         /\ nev = [d \in Streams |-> 0]
         /\ cache = [d \in Streams |-> <<>>]
         /\ table = [d \in Streams |-> <<>>]
         /\ ext = [r \in Res |-> None]
         /\ nrows = [r \in Res |-> 0]
         /\ cons = [r \in Res |-> [x \in Idx |-> 0]]
         /\ recv = [r \in Res |-> [x \in Idx |-> 0]]
         /\ nsd = 0
         /\ obs = NoObs
         /\ hist = <<>>

Init == /\ batch \in Batches
        /\ keyof \in {[r \in Res |-> 1], [r \in Res |-> r]}
        /\ Init0

Bump(f, a, b) == [x \in DOMAIN f |-> IF a <= x /\ x < b THEN f[x] + 1 ELSE f[x]]

\* event(): the row goes to the cache; the cache is written when it has reached the batch size
DoEvent(d) ==
    /\ phase = "open"
    /\ LET s == nev[d] + 1
           c == Append(cache[d], Row(d, s))
       IN /\ nev' = [nev EXCEPT ![d] = s]
          /\ IF Len(c) >= batch
             THEN /\ table' = [table EXCEPT ![d] = @ \o c]
                  /\ cache' = [cache EXCEPT ![d] = <<>>]
             ELSE /\ cache' = [cache EXCEPT ![d] = c]
                  /\ UNCHANGED table
    /\ UNCHANGED <<batch, keyof, phase, ext, nrows, cons, recv, nsd, obs>>

\* descriptor() for a stream that already has one (its configuration was changed mid-run): the events that follow refer
\* to the new descriptor, they are rows of the SAME stream -- cache, table and row order are per stream, not per descriptor
DoRedesc(d) ==
    /\ phase = "open" /\ nev[d] > 0
    /\ UNCHANGED <<batch, keyof, phase, nev, cache, table, ext, nrows, cons, recv, nsd, obs>>

\* consume_stream_datum on the consolidator of the resource, for a list of ranges
RECURSIVE Consumed(_, _, _)
Consumed(f, r, rgs) == IF rgs = <<>> THEN f ELSE Consumed(Bump(f, Head(rgs).a, Head(rgs).b), r, Tail(rgs))
RECURSIVE Total(_)
Total(rgs) == IF rgs = <<>> THEN 0 ELSE (Head(rgs).b - Head(rgs).a) + Total(Tail(rgs))

Consume(r, rgs) == /\ cons' = [cons EXCEPT ![r] = Consumed(@, r, rgs)]
                   /\ nrows' = [nrows EXCEPT ![r] = @ + Total(rgs)]

\* stream_datum()
DoStreamDatum(r, a, b) ==
    /\ phase = "open"
    /\ recv' = [recv EXCEPT ![r] = Bump(@, a, b)]
    /\ nsd' = nsd + 1
    /\ LET new == [has |-> TRUE, a |-> a, b |-> b]
           c == ext[r]
       IN IF batch <= 1
          THEN Consume(r, <<new>>) /\ UNCHANGED ext
          ELSE IF ~c.has
          THEN ext' = [ext EXCEPT ![r] = new] /\ UNCHANGED <<cons, nrows>>
          ELSE LET lo == IF c.a <= a THEN c ELSE new          \* sorted by start (stable: the cached one first)
                   hi == IF c.a <= a THEN new ELSE c
               IN IF lo.b = hi.a                              \* consecutive: concatenated
                  THEN LET m == [has |-> TRUE, a |-> lo.a, b |-> hi.b]
                       IN IF m.b - m.a >= batch
                          THEN Consume(r, <<m>>) /\ ext' = [ext EXCEPT ![r] = None]
                          ELSE ext' = [ext EXCEPT ![r] = m] /\ UNCHANGED <<cons, nrows>>
                  ELSE Consume(r, <<c, new>>) /\ ext' = [ext EXCEPT ![r] = None]      \* ValueError fallback
    /\ UNCHANGED <<batch, keyof, phase, nev, cache, table, obs>>

\* stop(): remaining rows written, remaining cached stream datums consumed
RECURSIVE FlushExt(_, _, _)
FlushExt(S, cf, nf) ==
    IF S = {} THEN [cons |-> cf, nrows |-> nf]
    ELSE LET r == CHOOSE x \in S : TRUE
         IN IF ext[r].has
            THEN FlushExt(S \ {r}, [cf EXCEPT ![r] = Bump(@, ext[r].a, ext[r].b)], [nf EXCEPT ![r] = @ + ext[r].b - ext[r].a])
            ELSE FlushExt(S \ {r}, cf, nf)

DoStop ==
    /\ phase = "open"
    /\ phase' = "closed"
    /\ table' = [d \in Streams |-> table[d] \o cache[d]]
    /\ cache' = [d \in Streams |-> <<>>]
    /\ LET f == FlushExt(Res, cons, nrows) IN cons' = f.cons /\ nrows' = f.nrows
    /\ UNCHANGED <<batch, keyof, nev, ext, recv, nsd, obs>>          \* the code leaves the external cache as it is

----------------------------------------------------------------------------
TotalEv == nev[1] + (IF NStreams > 1 THEN nev[2] ELSE 0)
H(op, d, r, a, b) == [op |-> op, d |-> d, r |-> r, a |-> a, b |-> b]
Log(h) == hist' = IF Canonical THEN Append(hist, h) ELSE hist

Ranges == {rg \in [a : Idx, b : 1..MaxIdx] : rg.a < rg.b /\ rg.b - rg.a <= MaxLen}

MEvent(d) == /\ TotalEv < MaxEv
             /\ Canonical => nsd = 0
             /\ DoEvent(d) /\ Log(H("event", d, 0, 0, 0))
MStreamDatum(r, rg) == /\ nsd < MaxSD
                       /\ DoStreamDatum(r, rg.a, rg.b) /\ Log(H("stream_datum", 0, r, rg.a, rg.b))
NRedesc == Len(SelectSeq(hist, LAMBDA h : h.op = "redesc"))
MRedesc(d) == /\ Canonical /\ NRedesc < MaxRedesc /\ nsd = 0
              /\ hist # <<>> /\ hist[Len(hist)].op = "event"         \* (placed right after an event: elsewhere it changes nothing)
              /\ DoRedesc(d) /\ Log(H("redesc", d, 0, 0, 0))
MStop == DoStop /\ Log(H("stop", 0, 0, 0, 0))

Next == \/ \E d \in Streams : MEvent(d)
        \/ \E d \in Streams : MRedesc(d)
        \/ \E r \in Res, rg \in Ranges : MStreamDatum(r, rg)
        \/ MStop

Spec == Init /\ [][Next]_vars

----------------------------------------------------------------------------
(* The property *)
RowsUpTo(d, k) == [s \in 1..k |-> Row(d, s)]

\* after stop: one row per event, in seq_num order, with the event's values
C46_RowsAtStop == phase = "closed" => \A d \in Streams : table[d] = RowsUpTo(d, nev[d])
\* at any time written rows followed by cached rows are the events received: nothing dropped, duplicated or reordered
C46_RowsConserved == \A d \in Streams : table[d] \o cache[d] = RowsUpTo(d, nev[d])
\* the cache never holds a full batch after a step
C46_CacheBelowBatch == \A d \in Streams : Len(cache[d]) < batch \/ Len(cache[d]) = 0

\* consumed index ranges = received index ranges, each exactly once (after stop); before: consumed + cached = received
CachedCnt(r, x) == IF ext[r].has /\ ext[r].a <= x /\ x < ext[r].b THEN 1 ELSE 0
C46_ConsumedOnceAtStop == phase = "closed" => \A r \in Res : cons[r] = recv[r]
C46_RangesConserved == phase = "open" => \A r \in Res : \A x \in Idx : cons[r][x] + CachedCnt(r, x) = recv[r][x]

\* array length of a data key = sum of the received ranges of the resources feeding it
RECURSIVE SumF(_, _)
SumF(f, S) == IF S = {} THEN 0 ELSE LET x == CHOOSE y \in S : TRUE IN f[x] + SumF(f, S \ {x})
Received(r) == SumF(recv[r], Idx)
KeysUsed == {KeyOf(r) : r \in Res}
ArrLen(k) == SumF(nrows, {r \in Res : KeyOf(r) = k})
C46_ArrayLengthAtStop == phase = "closed" => \A k \in KeysUsed : ArrLen(k) = SumF([r \in Res |-> Received(r)], {r \in Res : KeyOf(r) = k})
C46_RowsCountConsumed == \A r \in Res : nrows[r] = SumF(cons[r], Idx)

\* what is read back from Tiled after stop is what the specification says was written
ExpectedArr == [k \in Res |-> IF k \in KeysUsed THEN ArrLen(k) ELSE 0]
C46_ReadBackRows == obs.set => \A d \in Streams : obs.rows[d] = table[d]
C46_ReadBackArrays == obs.set => obs.arr = ExpectedArr
C46_ReadBackMetadata == obs.set => obs.meta
C46_ReadBackNodes == obs.set => obs.nodes

TypeOK == /\ phase \in {"open", "closed"}
          /\ \A d \in Streams : nev[d] \in 0..MaxEv

\* replay generation: every complete case with its expected final content
DumpCase == (phase = "closed") =>
    PrintT(<<"CASE", ToJson([batch |-> batch, keyof |-> keyof, hist |-> hist, table |-> table,
                             arr |-> ExpectedArr])>>)
=============================================================================
