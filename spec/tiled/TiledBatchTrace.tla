--------------------------- MODULE TiledBatchTrace ---------------------------
(* Batch validation of TiledWriter executions against TiledBatch.tla.                     *)
(* TRACE_FILE: ndjson; a trace = header [batch, keyof] followed by one event per document   *)
(* handed to the real TiledWriter (event pages unpacked: one event each), a stop, and a      *)
(* `final` event holding what was read back from the in-process Tiled catalog afterwards:    *)
(*   rows[d] = the rows of stream d's internal table in stored order, each [s, v] with       *)
(*             s = seq_num column, v = index of the input event whose time/data/timestamps   *)
(*             the row carries (0 = none);                                                   *)
(*   arr[k]  = length of the array node of external key k (0 = no node);                     *)
(*   meta    = start and stop metadata equal the documents; nodes = exactly the expected     *)
(*             nodes exist (one array per external key with data, one table per stream with  *)
(*             events).                                                                      *)
EXTENDS TiledBatch, IOUtils

Traces == ndJsonDeserialize(IOEnv.TRACE_FILE)

VARIABLES tid, l
tvars == <<vars, tid, l>>

Hd(t) == Traces[t][1]

TraceInit == /\ tid \in 1..Len(Traces)
             /\ l = 2
             /\ TLCSet(tid, 2)
             /\ batch = Hd(tid).batch
             /\ keyof = [r \in Res |-> Hd(tid).keyof[r]]
             /\ Init0

Ev == Traces[tid][l]

Step ==
    \/ Ev.op = "event" /\ DoEvent(Ev.d) /\ nev'[Ev.d] = Ev.s
    \/ Ev.op = "stream_datum" /\ DoStreamDatum(Ev.r, Ev.a, Ev.b)
    \/ Ev.op = "stop" /\ DoStop
    \/ /\ Ev.op = "final" /\ phase = "closed"
       /\ obs' = [set |-> TRUE, rows |-> Ev.rows, arr |-> Ev.arr, meta |-> Ev.meta, nodes |-> Ev.nodes]
       /\ UNCHANGED <<batch, keyof, phase, nev, cache, table, ext, nrows, cons, recv, nsd>>

TraceNext == /\ l <= Len(Traces[tid])
             /\ Step
             /\ l' = l + 1
             /\ UNCHANGED <<tid, hist>>
             /\ TLCSet(tid, l + 1)

TraceSpec == TraceInit /\ [][TraceNext]_tvars

Progress(t) == TLCGet(t)
TraceAccepted ==
    \A t \in 1..Len(Traces) :
        \/ Progress(t) = Len(Traces[t]) + 1
        \/ PrintT(<<"REJECTED", t, Progress(t)>>) /\ FALSE
=============================================================================
