----------------------------- MODULE Simulator -----------------------------
(***************************************************************************)
(* C32 -- RunEngineSimulator.simulate_plan and check_limits                *)
(* (bluesky/simulators.py).                                                *)
(*                                                                         *)
(* mode = "sim": a sequence `hs` of add_handler operations                  *)
(*   [cmds (sequence of command names), flt (object name or "*" = no       *)
(*    filter), idx (insertion index, END = append), res (what the handler  *)
(*    returns)]                                                            *)
(* and a plan (sequence of messages [cmd, obj, val]).  Implementation-     *)
(* shaped: the handler list is built by list.insert(idx, handler); for each*)
(* message the FIRST handler of the list whose predicate holds answers,    *)
(* its result is sent into the plan's yield (None = 0 when nobody answers);*)
(* the plan returns the tuple of what it received, which simulate_plan     *)
(* records as return_value; the returned list is the yielded messages.     *)
(*                                                                         *)
(* mode = "limits": devices `lims` = sequence of [dev, has, lo, hi] (has = *)
(* the device is Checkable and enforces lo <= v <= hi) and a plan of set / *)
(* other messages; check_limits walks the plan, calls check_value for every*)
(* set on a Checkable device, remembers (and warns about) the others.      *)
(*                                                                         *)
(* The invariants state C32 in the vocabulary of the statement.  In model  *)
(* checking the outputs (msgs, sent, ret, raised) are the specified ones;  *)
(* SimulatorTrace.tla puts the outputs RECORDED from the implementation in *)
(* their place and checks Conforms and the same invariants.                *)
(***************************************************************************)
EXTENDS Integers, Sequences, SequencesExt, FiniteSets, TLC, Json, IOUtils

CONSTANTS Cmds, Objs,        \* commands and object names of the simulate_plan domain
          HA, PA, HB, PB,    \* (<= HA handlers and <= PA messages) or (<= HB handlers and <= PB messages)
          LimPlan,           \* check_limits domain: plans of <= LimPlan messages
          LimR,              \* limits range over -LimR..LimR (lo <= hi)
          SetR               \* set values range over -SetR..SetR

LimVals == (0 - LimR)..LimR
SetVals == (0 - SetR)..SetR

END == 99          \* index "end"
NoneVal == 0       \* Python None sent into the yield

VARIABLES mode, hs, plan, lims,        \* inputs
          msgs, sent, ret, raised      \* outputs: returned messages (serial numbers), values received by the plan,
                                       \* recorded return value, check_limits raised
vars == <<mode, hs, plan, lims, msgs, sent, ret, raised>>

----------------------------------------------------------------------------
(* simulate_plan *)
Insert(list, i, h) == IF i >= Len(list) THEN Append(list, h)
                      ELSE SubSeq(list, 1, i) \o <<h>> \o SubSeq(list, i + 1, Len(list))
RECURSIVE BuildUpTo(_, _)
BuildUpTo(ops, n) == IF n = 0 THEN <<>> ELSE Insert(BuildUpTo(ops, n - 1), ops[n].idx, ops[n])
Build(ops) == BuildUpTo(ops, Len(ops))                  \* RunEngineSimulator.message_handlers

Matches(h, m) == /\ \E j \in DOMAIN h.cmds : h.cmds[j] = m.cmd
                 /\ (h.flt = "*" \/ h.flt = m.obj)
Answer(list, m) == LET c == {i \in 1..Len(list) : Matches(list[i], m)}
                   IN IF c = {} THEN NoneVal ELSE list[CHOOSE i \in c : \A j \in c : i <= j].res
SentFor(ops, p) == LET list == Build(ops) IN [i \in 1..Len(p) |-> Answer(list, p[i])]
Serial(p) == [i \in 1..Len(p) |-> i]

(* check_limits *)
Limited(d) == \E i \in DOMAIN lims : lims[i].dev = d /\ lims[i].has
OutOf(d, v) == \E i \in DOMAIN lims : lims[i].dev = d /\ lims[i].has /\ (v < lims[i].lo \/ v > lims[i].hi)
RECURSIVE Scan(_, _, _)
Scan(p, i, ignore) ==
    IF i > Len(p) THEN FALSE
    ELSE LET m == p[i]
         IN IF m.cmd = "set" /\ m.obj \notin ignore
            THEN IF Limited(m.obj) THEN (IF OutOf(m.obj, m.val) THEN TRUE ELSE Scan(p, i + 1, ignore))
                 ELSE Scan(p, i + 1, ignore \cup {m.obj})
            ELSE Scan(p, i + 1, ignore)

----------------------------------------------------------------------------
(* bounded domains (constant definitions: evaluated once) *)
CmdSeqs == {<<c>> : c \in Cmds} \cup {SetToSeq(Cmds)}
IdxFor(k) == IF k = 1 THEN {0} ELSE (0..(k - 2)) \cup {END}
HKinds(k) == {[cmds |-> c, flt |-> f, idx |-> i, res |-> k] : c \in CmdSeqs, f \in Objs \cup {"*"}, i \in IdxFor(k)}
RECURSIVE HS(_)
HS(n) == IF n = 0 THEN {<<>>} ELSE {Append(s, h) : s \in HS(n - 1), h \in HKinds(n)}
SimMsgs == {[cmd |-> c, obj |-> o, val |-> 0] : c \in Cmds, o \in Objs}
RECURSIVE Seqs(_, _)
Seqs(S, n) == IF n = 0 THEN {<<>>} ELSE {Append(p, m) : p \in Seqs(S, n - 1), m \in S}
UpTo(F(_), n) == UNION {F(k) : k \in 0..n}
SimPlans(n) == Seqs(SimMsgs, n)
SimDomain == (UpTo(HS, HA) \X UpTo(SimPlans, PA)) \cup (UpTo(HS, HB) \X UpTo(SimPlans, PB))

LimMsgs == {[cmd |-> "set", obj |-> d, val |-> v] : d \in {"m1", "m2", "n"}, v \in SetVals}
             \cup {[cmd |-> "read", obj |-> d, val |-> 0] : d \in {"m1", "m2", "n"}}
LimPlans(n) == Seqs(LimMsgs, n)
Ranges == {r \in LimVals \X LimVals : r[1] <= r[2]}
MaxOf(S) == CHOOSE x \in S : \A y \in S : y <= x
MinOf(S) == CHOOSE x \in S : \A y \in S : x <= y
LimSets == {<<[dev |-> "m1", has |-> TRUE, lo |-> r[1], hi |-> r[2]],
              [dev |-> "m2", has |-> TRUE, lo |-> q[1], hi |-> q[2]],
              [dev |-> "n", has |-> FALSE, lo |-> 0, hi |-> 0]>> :
                r \in Ranges, q \in {<<MinOf(LimVals), MaxOf(LimVals)>>, <<0, 0>>}}
LimDomain == LimSets \X UpTo(LimPlans, LimPlan)

SimCase(c) == [mode |-> "sim", hs |-> c[1], plan |-> c[2], lims |-> <<>>, msgs |-> Serial(c[2]),
               sent |-> SentFor(c[1], c[2]), ret |-> SentFor(c[1], c[2]), raised |-> FALSE]
Init ==
    \/ \E c \in SimDomain :
          /\ mode = "sim" /\ hs = c[1] /\ plan = c[2] /\ lims = <<>>
          /\ msgs = Serial(plan) /\ sent = SentFor(hs, plan) /\ ret = sent /\ raised = FALSE
    \/ \E c \in LimDomain :
          /\ mode = "limits" /\ hs = <<>> /\ plan = c[2] /\ lims = c[1]
          /\ msgs = <<>> /\ sent = <<>> /\ ret = <<>> /\ raised = Scan(plan, 1, {})
Next == UNCHANGED vars
Spec == Init /\ [][Next]_vars

----------------------------------------------------------------------------
(* C32 in the vocabulary of the statement *)
Sim == mode = "sim"
MatchingOps(i) == {k \in DOMAIN hs : Matches(hs[k], plan[i])}      \* by order of registration

\* "returns exactly the messages the plan yields, in order"
C32_MessagesReturned == Sim => msgs = Serial(plan)

\* "sends each matching handler's result into the corresponding yield"; nothing is sent when no handler matches
C32_MatchingHandlerAnswers ==
    Sim => /\ Len(sent) = Len(plan)
           /\ \A i \in DOMAIN plan :
                 /\ (MatchingOps(i) = {}) <=> (sent[i] = NoneVal)
                 /\ sent[i] # NoneVal => \E k \in MatchingOps(i) : hs[k].res = sent[i]

\* "newest matching handler wins" (default index 0: every handler is prepended)
C32_NewestWins ==
    Sim /\ (\A k \in DOMAIN hs : hs[k].idx = 0) =>
        \A i \in DOMAIN plan : MatchingOps(i) # {} => sent[i] = hs[MaxOf(MatchingOps(i))].res

\* index END appends: the oldest matching handler keeps winning
C32_AppendedLoses ==
    Sim /\ (\A k \in DOMAIN hs : hs[k].idx = END \/ k = 1) =>
        \A i \in DOMAIN plan : MatchingOps(i) # {} => sent[i] = hs[MinOf(MatchingOps(i))].res

\* mixed indices: a prepended matching handler overrides every handler registered before it
C32_PrependedOverridesOlder ==
    Sim => \A i \in DOMAIN plan :
              LET z == {k \in MatchingOps(i) : hs[k].idx = 0}
              IN z # {} => \E k \in MatchingOps(i) : k >= MaxOf(z) /\ hs[k].res = sent[i]

\* "records the plan's return value" (the plan returns the tuple of values it received)
C32_ReturnRecorded == Sim => ret = sent

\* "check_limits raises exactly when some set targets a limit-checked device with an out-of-limits value"
Offending(i) == plan[i].cmd = "set" /\ OutOf(plan[i].obj, plan[i].val)
C32_LimitsRaiseIffOffending == mode = "limits" => (raised <=> \E i \in DOMAIN plan : Offending(i))

TypeOK == mode \in {"sim", "limits"} /\ raised \in BOOLEAN

----------------------------------------------------------------------------
\* case dump for the replay (one JSON record per case)
LimCase(c) == [mode |-> "limits", hs |-> <<>>, plan |-> c[2], lims |-> c[1], msgs |-> <<>>, sent |-> <<>>, ret |-> <<>>,
               raised |-> LET p == c[2] IN \E i \in DOMAIN p : p[i].cmd = "set" /\
                             \E j \in DOMAIN c[1] : c[1][j].dev = p[i].obj /\ c[1][j].has /\ (p[i].val < c[1][j].lo \/ p[i].val > c[1][j].hi)]
DumpCases ==
    TLCGet("stats").generated >= 0 /\
    ndJsonSerialize(IOEnv.CASES_OUT, SetToSeq({SimCase(c) : c \in SimDomain}) \o SetToSeq({LimCase(c) : c \in LimDomain}))
=============================================================================
