--------------------------- MODULE LiveDispatcher ---------------------------
(***************************************************************************)
(* C39 -- the documents re-emitted by bluesky.callbacks.stream.            *)
(* LiveDispatcher form a valid run: events of each stream are numbered     *)
(* 1..N and the re-emitted RunStop's num_events reports, per stream, the   *)
(* number of events emitted in it.                                         *)
(*                                                                         *)
(* Input of the component, as seen from its core: start, a sequence of     *)
(* process_event(doc, stream_name=key) calls made by the (sub)class for    *)
(* raw events whose raw descriptor is the d-th descriptor of raw stream    *)
(* `name`, and stop.  A pass-through LiveDispatcher always uses the        *)
(* default key "primary"; transforming subclasses may pass the raw stream  *)
(* name or any other key, drop or duplicate events (= fewer / more calls). *)
(*                                                                         *)
(* State as in the code: the emitted descriptors of this run, keyed by     *)
(* (key, desc_id) (LiveDispatcher._descriptors), one global counter        *)
(* (seq_count).  Monitors in the vocabulary of the statement: per emitted  *)
(* stream (= name carried by the emitted descriptor an event refers to)    *)
(* the seq_nums emitted so far, and the num_events of the emitted stop.    *)
(*                                                                         *)
(* Known findings (Choice = "both" offers the documented AND the as-found  *)
(* step; only the as-found alternative sets a kf flag and is exempted):    *)
(*   KF-C39-1  seq_num is taken from one global counter (seq_count)        *)
(*   KF-C39-2  num_events[key] = number of DESCRIPTORS emitted under key   *)
(***************************************************************************)
EXTENDS Naturals, Sequences, FiniteSets, TLC, Json

CONSTANTS Streams,      \* raw stream names, e.g. {"primary", "baseline"}
          Keys,         \* stream_name arguments a subclass may pass
          MaxEvents,    \* bound on process_event calls in a history (all runs together)
          MaxFree,      \* the same bound for keying = "free" (its alphabet is larger)
          MaxDesc,      \* raw descriptors per raw stream (descriptor changes)
          MaxRuns,
          Keyings,      \* subset of {"default", "byname", "free"}
          NameBys,      \* subset of {"raw", "key"}: which name the emitted descriptor carries
          Choice        \* "doc" | "asfound" | "both"

Names == Streams \cup Keys \cup {"primary"}

VARIABLES
  keying,     \* how this (sub)class chooses stream_name
  nameby,     \* emitted descriptor named after the raw descriptor (code as found: ChainMap falls back to it) or the key
  open,       \* between the emitted start and the emitted stop
  runs,       \* runs started so far
  nproc,      \* process_event calls so far (bound)
  descs,      \* {<<key, name, d>>}: descriptors emitted in this run
  gcount,     \* LiveDispatcher.seq_count
  seqs,       \* monitor: emitted stream name -> seq_nums emitted in it during this run, in order
  stopne,     \* monitor: num_events of the emitted stop as a set of <<stream, n>> (n > 0)
  kfSeq,      \* this run took the as-found numbering where it differs from the documented one
  kfTally,    \* this run's stop took the as-found tally where it differs
  seen,       \* sticky: which as-found alternatives were ever taken ({"seq", "tally"})
  out,        \* observable outcome of the last step
  hist

vars == <<keying, nameby, open, runs, nproc, descs, gcount, seqs, stopne, kfSeq, kfTally, seen, out, hist>>

NoSeqs == [s \in Names |-> <<>>]
O(op, key, name, d, newdesc, ename, seq, ne) ==
    [op |-> op, key |-> key, name |-> name, d |-> d, newdesc |-> newdesc, ename |-> ename, seq |-> seq, ne |-> ne]
Log(o) == out' = o /\ hist' = Append(hist, o)

Init ==
    /\ keying \in Keyings
    /\ nameby \in NameBys
    /\ open = FALSE /\ runs = 0 /\ nproc = 0
    /\ descs = {} /\ gcount = 0 /\ seqs = NoSeqs /\ stopne = {}
    /\ kfSeq = FALSE /\ kfTally = FALSE /\ seen = {}
    /\ out = O("", "", "", 0, FALSE, "", 0, {}) /\ hist = <<>>

KeyChoices(name) == CASE keying = "default" -> {"primary"}
                      [] keying = "byname" -> {name}
                      [] OTHER -> Keys

\* start(): new start document, caches are those cleared by the previous stop
Start ==
    /\ ~open /\ runs < MaxRuns
    /\ open' = TRUE /\ runs' = runs + 1
    /\ descs' = {} /\ gcount' = 0 /\ seqs' = NoSeqs /\ stopne' = {}
    /\ kfSeq' = FALSE /\ kfTally' = FALSE
    /\ UNCHANGED <<keying, nameby, nproc, seen>>
    /\ Log(O("start", "", "", 0, FALSE, "", 0, {}))

DocSeq(en) == Len(seqs[en]) + 1         \* documented: next number of that stream
AsFoundSeq == gcount + 1                \* as found: one counter for the whole run
SeqChoices(en) == CASE Choice = "doc" -> {DocSeq(en)}
                    [] Choice = "asfound" -> {AsFoundSeq}
                    [] OTHER -> {DocSeq(en), AsFoundSeq}

\* process_event(doc, stream_name=key): a descriptor is emitted first when (key, desc_id) is new in this run
Proc(key, name, d) ==
    LET did == <<key, name, d>>
        en == IF nameby = "raw" THEN name ELSE key
    IN /\ open /\ nproc < (IF keying = "free" THEN MaxFree ELSE MaxEvents)
       /\ key \in KeyChoices(name)
       /\ \E sq \in SeqChoices(en) :
            /\ seqs' = [seqs EXCEPT ![en] = Append(@, sq)]
            /\ kfSeq' = (kfSeq \/ sq # DocSeq(en))
            /\ seen' = IF sq # DocSeq(en) THEN seen \cup {"seq"} ELSE seen
            /\ Log(O("proc", key, name, d, did \notin descs, en, sq, {}))
       /\ descs' = descs \cup {did}
       /\ gcount' = gcount + 1
       /\ nproc' = nproc + 1
       /\ UNCHANGED <<keying, nameby, open, runs, stopne, kfTally>>

DocTally == {<<s, Len(seqs[s])>> : s \in {x \in Names : seqs[x] # <<>>}}
AsFoundTally == {<<k, Cardinality({x \in descs : x[1] = k})>> : k \in {x[1] : x \in descs}}
TallyChoices == CASE Choice = "doc" -> {DocTally}
                  [] Choice = "asfound" -> {AsFoundTally}
                  [] OTHER -> {DocTally, AsFoundTally}

\* stop(): emit the stop document with num_events, clear the caches
Stop ==
    /\ open
    /\ open' = FALSE
    /\ \E ne \in TallyChoices :
         /\ stopne' = ne
         /\ kfTally' = (ne # DocTally)
         /\ seen' = IF ne # DocTally THEN seen \cup {"tally"} ELSE seen
         /\ Log(O("stop", "", "", 0, FALSE, "", 0, ne))
    /\ UNCHANGED <<keying, nameby, runs, nproc, descs, gcount, seqs, kfSeq>>

Next == \/ Start
        \/ Stop
        \/ \E key \in Keys \cup {"primary"}, name \in Streams, d \in 1..MaxDesc : Proc(key, name, d)

Spec == Init /\ [][Next]_vars

----------------------------------------------------------------------------
(* The property.                                                            *)
Iota(n) == [i \in 1..n |-> i]

\* events of each stream are numbered 1..N (at every moment: the numbers emitted so far are 1..n in order)
SeqOK == \A s \in Names : seqs[s] = Iota(Len(seqs[s]))
C39_SeqPerStream == kfSeq \/ SeqOK

\* the emitted stop reports for each stream the number of events emitted in it
TallyOK == stopne = DocTally
C39_NumEvents == (~open /\ runs > 0) => (kfTally \/ TallyOK)

\* the same two clauses without exemption (used with Choice = "doc": the repaired design; and with
\* Choice = "asfound" to obtain TLC's counterexamples for KF-C39-1 / KF-C39-2)
C39_SeqPerStream_Strict == SeqOK
C39_NumEvents_Strict == (~open /\ runs > 0) => TallyOK

\* as action properties on the emitted documents themselves
C39_EventNumbered ==
    [][out'.op = "proc" => (kfSeq' \/ out'.seq = Len(seqs[out'.ename]) + 1)]_vars
C39_StopCounts ==
    [][out'.op = "stop" => (kfTally' \/ \A s \in Names : (seqs[s] # <<>>) => <<s, Len(seqs[s])>> \in out'.ne)]_vars

\* (model only) every event refers to a descriptor emitted earlier in the same run; the descriptor is emitted when it is new.
\* On implementation traces this is enforced through ename: an event whose descriptor was not emitted in this run has no stream.
C39_DescriptorFirst ==
    [][out'.op = "proc" => (out'.newdesc <=> <<out'.key, out'.name, out'.d>> \notin descs) /\ <<out'.key, out'.name, out'.d>> \in descs']_vars

\* a new run starts from scratch
C39_RunsIndependent == [][Start => (gcount' = 0 /\ descs' = {} /\ seqs' = NoSeqs)]_vars

TypeOK == /\ open \in BOOLEAN /\ runs \in 0..MaxRuns /\ nproc \in 0..MaxEvents
          /\ gcount = Cardinality({i \in 1..Len(hist) : hist[i].op = "proc"
                                    /\ \A j \in i..Len(hist) : hist[j].op # "start"})
          /\ seen \subseteq {"seq", "tally"}

\* CONSTRAINT of the replay-generation config: print every history that ends with a stop
Case == [keying |-> keying, nameby |-> nameby, seen |-> seen,
         hist |-> [i \in 1..Len(hist) |-> <<hist[i].op, hist[i].key, hist[i].name, hist[i].d, hist[i].newdesc,
                                            hist[i].ename, hist[i].seq, hist[i].ne>>]]
DumpHist == (Len(hist) > 0 /\ hist[Len(hist)].op = "stop") => PrintT(<<"HIST", ToJson(Case)>>)
=============================================================================
