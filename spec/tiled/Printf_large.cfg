CONSTANTS
  MaxW = 15
  Indices = {0, 7, 42, 12345, 999999, 2147483647}
SPECIFICATION Spec
INVARIANT I_Alphabet
INVARIANT I_Value
INVARIANT I_DigitsContiguous
INVARIANT I_MinWidth
INVARIANT I_Precision
INVARIANT I_ExactLength
INVARIANT I_Sign
INVARIANT I_LeftJustify
INVARIANT I_ZeroFlag
INVARIANT I_HashIrrelevant
INVARIANT I_PrecGeWidth
INVARIANT I_AltsDiffer
POSTCONDITION DumpCases
