#!/bin/sh
# setup_cmd: offline self-check of the machinery.  Nothing is built; bluesky is imported from /repo/src.
cd "$(dirname "$0")" || exit 2
export PYTHONPATH="/verif:/repo/src${PYTHONPATH:+:$PYTHONPATH}"
mkdir -p out evidence
/venv/bin/python -W ignore -m harness.selftest "$@"
