"""Generator-protocol harness shared by C22 / C23 / C24 (spec/wrappers/*.tla).

* values and exceptions are encoded exactly like GenW.tla: {"c": class or "", "i": int, "m": command or "", "o": device}
* `scripted`   : a REAL Python generator whose reactions to send/throw/close follow a script chosen by TLC
* `policy_gen` : a real generator whose reactions are drawn from a seeded RNG (code -> spec direction)
* `Probe`      : transparent object with send/throw/close that logs the interface of a nested wrapper
* `drive`      : the driver (plays the RunEngine): executes send/throw/close operations and logs the outward reactions
Every interface event has the form {"g": who, "op": .., "a": value, "r": reaction, "v": value}; the sequence of events
of one wrapper instance is what Wrappers.tla / Paired.tla / RelSet.tla call `hist`.
"""
from __future__ import annotations

import contextlib
import io
import logging

from bluesky.utils import Msg, RequestAbort, RequestStop


# --------------------------------------------------------------------------
# values
# --------------------------------------------------------------------------
class Err(Exception):
    pass


class ErrI(Exception):
    pass


class BaseT(BaseException):
    pass


class BaseI(BaseException):
    pass


class ScriptExhausted(BaseException):
    """a scripted generator was resumed more often than the TLC behaviour says"""


EXC_CLASSES = {"Err": Err, "ErrI": ErrI, "Stop": RequestStop, "Abort": RequestAbort, "Base": BaseT, "BaseI": BaseI,
               "RTE": RuntimeError, "GenExit": GeneratorExit, "TypeErr": TypeError}


def V(c="", i=0, m="", o=0):
    return {"c": c, "i": i, "m": m, "o": o}


NONE = V()


def exc_class_name(e):
    for name in ("Stop", "Abort", "Err", "ErrI", "Base", "BaseI", "GenExit"):
        if isinstance(e, EXC_CLASSES[name]):
            return name
    if isinstance(e, ScriptExhausted):
        return "EXHAUSTED"
    if isinstance(e, RuntimeError):
        return "RTE"
    if isinstance(e, TypeError):
        return "TypeErr"
    return "ErrO" if isinstance(e, Exception) else "BaseO"      # any other Exception / BaseException


def make_exc(v):
    e = EXC_CLASSES[v["c"]]()
    try:
        e.tag = v["i"]
    except AttributeError:
        pass
    return e


class Codec:
    """python objects <-> spec values.  Devices are numbered 1..n; data are small ints."""

    def __init__(self, devices=()):
        self.devices = list(devices)            # index + 1 = spec number
        self.extra = {}                         # python object id -> int (responses like tokens/status objects)

    def dev_no(self, obj):
        if obj is None:
            return 0
        for k, d in enumerate(self.devices):
            if d is obj:
                return k + 1
        return 99

    def msg_arg(self, msg):
        """the integer argument of a message that the specifications talk about"""
        c = msg.command
        if c == "null":
            return msg.args[0] if msg.args else 0
        if c == "set":
            a = msg.args[0] if msg.args else 0
            return int(round(a)) if isinstance(a, (int, float)) else 0
        if c == "close_run":
            return {None: 0, "success": 1, "abort": 2, "fail": 3}.get(msg.kwargs.get("exit_status"), 9)
        if c == "unsubscribe":
            t = msg.kwargs.get("token", msg.args[0] if msg.args else 0)
            return t if isinstance(t, int) else 0
        if c == "subscribe":
            return getattr(msg.args[0], "no", 0)
        if c in ("install_suspender", "remove_suspender"):
            return getattr(msg.args[0], "no", 0)
        if c == "wait":
            g = msg.kwargs.get("group")
            return 1 if isinstance(g, str) and g.startswith("flyers-kickoff") else 2 if isinstance(g, str) and g.startswith("flyers-complete") else 0
        return 0

    def enc(self, x):
        if x is None:
            return V()
        if isinstance(x, BaseException):
            return V(exc_class_name(x), getattr(x, "tag", 0))
        if isinstance(x, Msg):
            return V("", self.msg_arg(x), x.command, self.dev_no(x.obj))
        if isinstance(x, bool):
            return V("", int(x))
        if isinstance(x, int):
            return V("", x)
        if isinstance(x, dict) and "setpoint" in x:       # a Location
            return V("", int(x["setpoint"]))
        if isinstance(x, dict) and x and all(isinstance(r, dict) and "value" in r for r in x.values()):   # a reading
            return V("", int(list(x.values())[0]["value"]))
        if hasattr(x, "spec_value"):
            return V("", x.spec_value)
        if isinstance(x, (list, tuple)):
            return V("", len(x))
        return V("", 0)


class Log(list):
    """event list; once sealed (the history of this wrapper instance is over) nothing more is recorded"""
    sealed = False

    def append(self, e):
        if not self.sealed:
            list.append(self, e)


def ev(g, op="", a=None, r="", v=None):
    return {"g": g, "op": op, "a": a or NONE, "r": r, "v": v or NONE}


# --------------------------------------------------------------------------
# generators
# --------------------------------------------------------------------------
def scripted(name, script, log, codec, make_msg, arg=None, make_ret=None):
    """A real generator: the k-th resumption is answered by script[k] = {"k": yield|return|raise, "v": value}.
    `arg`: the argument the generator function was called with (except_plan(e)); logged with the first resumption."""
    op, a, thrown = "send", arg, None
    k = 0
    while True:
        if k >= len(script):
            if op == "close":
                raise thrown     # disposal of a left-over generator (finalisation by CPython / end of the bounded history)
            if getattr(log, "sealed", False):
                raise ScriptExhausted(name)
            log.append(ev(name, op, codec.enc(a), "raise", V("EXHAUSTED")))
            raise ScriptExhausted(name)
        r = script[k]
        k += 1
        if r.get("op", op) != op:
            # the implementation resumed the plan differently from the TLC behaviour: the script no longer applies
            log.append(ev(name, op, codec.enc(a), "raise", V("EXHAUSTED")))
            raise ScriptExhausted(name)
        log.append(ev(name, op, codec.enc(a), r["k"], r["v"]))
        if r["k"] == "yield":
            try:
                x = yield make_msg(r["v"])
                op, a, thrown = "send", x, None
            except GeneratorExit as e:
                op, a, thrown = "close", None, e
            except BaseException as e:  # noqa: B036
                op, a, thrown = "throw", e, e
        elif r["k"] == "return":
            return make_ret(r["v"]) if make_ret else r["v"]["i"]
        else:
            if thrown is not None and codec.enc(thrown) == r["v"]:
                raise thrown                      # the same object propagates
            raise make_exc(r["v"])


def policy_gen(name, rng, log, codec, make_msg, idx, budget, arg=None, p_yield=0.6, catch=0.3, misbehave=0.08):
    """A real generator whose reactions are random (seeded); logs like `scripted`."""
    op, a, thrown = "send", arg, None
    n = 0

    def react():
        u = rng.random()
        if op == "send":
            if n < budget and u < p_yield:
                return "yield"
            return "return" if u < 0.88 else ("raise", rng.choice(["ErrI", "ErrI", "BaseI"]))
        if op == "throw":
            if u > catch:
                return "reraise"
            if n < budget and u < catch * 0.5:
                return "yield"
            return "return" if u < catch * 0.75 else ("raise", "ErrI")
        if u > misbehave:
            return "reraise"
        return "yield" if (n < budget and u < misbehave / 2) else ("raise", "ErrI")

    zombie = False
    while True:
        if op == "close" and (zombie or getattr(log, "sealed", False)):
            raise thrown                 # disposal of a left-over generator: not an interface event
        r = react()
        if r == "yield":
            zombie = op == "close"       # ignores GeneratorExit; whoever closed it gets RuntimeError and drops it
            n += 1
            v = V("", idx * 10 + n, "null", 0)
            log.append(ev(name, op, codec.enc(a), "yield", v))
            try:
                x = yield make_msg(v)
                op, a, thrown = "send", x, None
            except GeneratorExit as e:
                op, a, thrown = "close", None, e
            except BaseException as e:  # noqa: B036
                op, a, thrown = "throw", e, e
        elif r == "return":
            log.append(ev(name, op, codec.enc(a), "return", V("", 100 + idx)))
            return 100 + idx
        elif r == "reraise":
            log.append(ev(name, op, codec.enc(a), "raise", codec.enc(thrown)))
            raise thrown
        else:
            e = make_exc(V(r[1], idx))
            log.append(ev(name, op, codec.enc(a), "raise", codec.enc(e)))
            raise e


class Probe:
    """Transparent iterator around a generator.  `yield from Probe(g)` behaves like `yield from g`; each call is
    reported to `on_call(op, a, r, v)` after it completed (delegate view) and `on_drive(op, a)` / `on_out(r, v)`
    (the wrapped generator's own driver view)."""

    def __init__(self, gen, codec, parent_log=None, name=None, own_log=None, arg=None):
        self.gen, self.codec, self.parent_log, self.name, self.own_log, self.arg = gen, codec, parent_log, name, own_log, arg
        self.first = True
        self.zombie = False

    def __iter__(self):
        return self

    def __next__(self):
        return self.send(None)

    def _report(self, op, a, r, v):
        enc = self.codec.enc
        if self.parent_log is not None:
            a_parent = self.arg if (self.first and self.arg is not None) else a
            self.parent_log.append(ev(self.name, op, enc(a_parent), r, enc(v) if not isinstance(v, dict) else v))
        self.first = False

    def _own_drive(self, op, a):
        if self.own_log is not None:
            self.own_log.append(ev("drv", op, self.codec.enc(a)))

    on_end = None

    def _own_out(self, r, v):
        if r != "yield" and self.on_end is not None:
            self.on_end()
        if self.own_log is not None:
            self.own_log.append(ev("out", "", None, r, self.codec.enc(v) if not isinstance(v, dict) else v))

    def _call(self, op, a, fn):
        self._own_drive(op, a)
        try:
            m = fn()
        except StopIteration as e:
            self._own_out("return", e.value)
            self._report(op, a, "return", e.value)
            raise
        except BaseException as e:  # noqa: B036
            self._own_out("raise", e)
            self._report(op, a, "raise", e)
            raise
        self._own_out("yield", m)
        self._report(op, a, "yield", m)
        return m

    def send(self, v):
        return self._call("send", v, lambda: self.gen.send(v))

    def throw(self, typ, val=None, tb=None):
        e = val if isinstance(val, BaseException) else (typ if isinstance(typ, BaseException) else typ())
        if isinstance(e, GeneratorExit):
            return self._halt(e)
        return self._call("throw", e, lambda: self.gen.throw(e))

    def _halt(self, e):
        """RunEngine.halt() throws PlanHalt (a GeneratorExit) instead of calling close(): the same thing to a generator"""
        if self.zombie:
            return self.gen.throw(e)
        self._own_drive("close", None)
        try:
            m = self.gen.throw(e)
        except (GeneratorExit, StopIteration):
            self._own_out("closed", None)
            self._report("close", None, "raise", V("GenExit"))
            raise
        except BaseException as x:  # noqa: B036
            self._own_out("raise", x)
            self._report("close", None, "raise", x)
            raise
        self._own_out("raise", RuntimeError())
        self._report("close", None, "yield", m)
        self.zombie = True
        if self.own_log is not None:
            self.own_log.sealed = True
        return m

    def close(self):
        if self.zombie:
            return self.gen.close()
        self._own_drive("close", None)
        try:
            self.gen.close()
        except BaseException as e:  # noqa: B036
            self._own_out("raise", e)
            self._report("close", None, "raise", e)
            if isinstance(e, RuntimeError) and self.own_log is not None:
                # the wrapped generator ignored GeneratorExit: it stays suspended and is dropped; what CPython's
                # finalisation does to it later is not part of its interface history
                self.zombie = True
                self.own_log.sealed = True
            raise
        self._own_out("closed", None)
        self._report("close", None, "raise", V("GenExit"))


def delegating(it):
    """a real generator that is nothing but `yield from it`"""
    return (yield from it)


def drive(w, ops, log, codec, decode_send=None):
    """Execute driver operations on generator w until it finishes; log drv/out events.
    ops: iterable of {"op": send|throw|close, "a": value}.  Returns True when w finished."""
    def out(r, v=None):
        log.append(ev("out", "", None, r, v))
        if r != "yield" and hasattr(log, "sealed"):
            log.sealed = True           # whatever happens to left-over generators later is not part of the history

    for o in ops:
        log.append(ev("drv", o["op"], o["a"]))
        try:
            if o["op"] == "send":
                x = o["a"]
                m = w.send(decode_send(x) if decode_send else (None if x == NONE else x["i"]))
            elif o["op"] == "throw":
                m = w.throw(make_exc(o["a"]))
            else:
                w.close()
                out("closed")
                return True
        except StopIteration as e:
            out("return", codec.enc(e.value))
            return True
        except BaseException as e:  # noqa: B036
            out("raise", codec.enc(e))
            return True
        out("yield", codec.enc(m))
    return False


def seal_and_close(w, log, finished=False):
    """the bounded history is over: dispose of a still suspended generator quietly"""
    log.sealed = True
    try:
        w.close()
    except BaseException:  # noqa: B036
        pass


def null_msg(v):
    return Msg("null", None, v["i"])


def scripts_of(hist, names):
    """per delegate: its reactions in order, from a TLC history"""
    out = {n: [] for n in names}
    for e in hist:
        if e["g"] in out:
            out[e["g"]].append({"k": e["r"], "v": e["v"], "op": e["op"]})
    return out


def driver_ops(hist):
    return [{"op": e["op"], "a": e["a"]} for e in hist if e["g"] == "drv"]


def usable_prefix(got):
    """an observed history in which a scripted generator ran out of script (the implementation left the TLC behaviour):
    the prefix before the driver operation that led there is still a genuine execution"""
    for k, e in enumerate(got):
        if e["v"]["c"] == "EXHAUSTED":
            j = k
            while j > 0 and got[j]["g"] != "drv":
                j -= 1
            return got[:j]
    return got


def first_diff(exp, got):
    for k, (a, b) in enumerate(zip(exp, got)):
        if a != b:
            return k, a, b
    if len(exp) != len(got):
        k = min(len(exp), len(got))
        return k, (exp[k] if k < len(exp) else None), (got[k] if k < len(got) else None)
    return None


def short_v(v):
    return f"{v['c']}#{v['i']}" if v["c"] else f"{v['m']}({v['o']},{v['i']})" if v["m"] else str(v["i"])


def short(e):
    """compact rendering of an event for signatures / messages"""
    if e is None:
        return "-"

    def val(v):
        if v["c"]:
            return f"{v['c']}#{v['i']}"
        if v["m"]:
            return f"{v['m']}({v['o']},{v['i']})"
        return str(v["i"])
    if e["g"] == "drv":
        return f"drv.{e['op']}({val(e['a'])})"
    if e["g"] == "out":
        return f"out.{e['r']}({val(e['v'])})"
    return f"{e['g']}.{e['op']}({val(e['a'])})->{e['r']}({val(e['v'])})"


# --------------------------------------------------------------------------
# C22: the three wrappers and the literal Python statement
# --------------------------------------------------------------------------
def literal_try(body, except_plan=None, else_plan=None, final_plan=None, auto_raise=True):
    """The Python statement the wrappers document, written out literally; the only addition is the documented
    exemption: no cleanup when the generator is being closed (GeneratorExit)."""
    closed = False
    try:
        try:
            ret = yield from body
        except Exception as e:
            if except_plan is None:
                raise
            ret = yield from except_plan(e)
            if auto_raise:
                raise
            return ret
        else:
            if else_plan is not None:
                yield from else_plan()
    except GeneratorExit:
        closed = True
        raise
    finally:
        if final_plan is not None and not closed:
            yield from final_plan()
    return ret


def build_c22(cfg, impl, body, xf, ef, ff, variant=0):
    """impl: "real" (the bluesky wrapper named by cfg.kind) or "literal" (the Python statement).
    body: generator/iterator; xf(e), ef(), ff(): generator functions or None."""
    import bluesky.preprocessors as bpp
    if impl == "literal":
        return literal_try(body, xf if cfg["hasX"] else None, ef if cfg["hasE"] else None,
                           ff if cfg["hasF"] else None, cfg["auto"])
    kind = cfg["kind"]
    if kind == "finalize_wrapper":
        # final_plan may be a generator instance or a callable: use both forms
        return bpp.finalize_wrapper(body, ff if variant % 2 == 0 else ff())
    if kind == "finalize_decorator":
        if variant % 2 == 0:
            return bpp.finalize_decorator(ff)(lambda: body)()
        # the decorated function is called twice: a first (silent, empty) call, then the call under test -- what the decorator
        # creates must be created per call, not per decoration
        calls = [0]

        def ff2():
            calls[0] += 1
            return iter(()) if calls[0] == 1 else ff()
        f = bpp.finalize_decorator(ff2)(lambda b: b)
        for _ in f(iter(())):
            pass
        if calls[0] == 0:
            calls[0] = 1          # (an implementation that never asked for the clean-up of the first call)
        return f(body)
    if kind == "contingency":
        return bpp.contingency_wrapper(body, except_plan=xf if cfg["hasX"] else None, else_plan=ef if cfg["hasE"] else None,
                                       final_plan=ff if cfg["hasF"] else None, auto_raise=cfg["auto"])
    raise ValueError(kind)


def replay_c22(cfg, hist, impl, variant=0):
    """run one TLC history through an implementation; returns the observed events"""
    codec = Codec()
    log = Log()
    sc = scripts_of(hist, ("body", "exc", "els", "fin"))

    def mk(name):
        return lambda arg=None: scripted(name, sc[name], log, codec, null_msg, arg=arg)
    w = build_c22(cfg, impl, mk("body")(), mk("exc"), mk("els"), mk("fin"), variant)
    finished = drive(w, driver_ops(hist), log, codec)
    seal_and_close(w, log, finished)
    return list(log)


C22_KINDS = ("finalize_wrapper", "finalize_decorator", "contingency")


def random_cfg(rng):
    kind = rng.choice(C22_KINDS + ("contingency", "contingency"))
    if kind != "contingency":
        return {"kind": kind, "hasX": False, "hasE": False, "hasF": True, "auto": True}
    x = rng.random() < 0.6
    return {"kind": kind, "hasX": x, "hasE": rng.random() < 0.5, "hasF": rng.random() < 0.7,
            "auto": (rng.random() < 0.5) if x else True}


def gen_nest(rng, depth, traces, counter, codec):
    """A random nest of real C22 wrappers over random leaf generators.  Returns factory(parent_log, name) ->
    callable(arg=None) -> delegate iterable; every wrapper instance created appends {"cfg", "h"} to traces."""
    if depth == 0 or rng.random() < 0.4:
        counter[0] += 1
        idx = counter[0]
        budget = rng.randint(0, 3)

        def leaf_factory(parent_log, name):
            return lambda arg=None: policy_gen(name, rng, parent_log, codec, null_msg, idx, budget, arg=arg)
        return leaf_factory
    cfg = random_cfg(rng)
    need = ["body"] + [g for g, f in (("exc", "hasX"), ("els", "hasE"), ("fin", "hasF")) if cfg[f]]
    subs = {g: gen_nest(rng, depth - 1, traces, counter, codec) for g in need}
    variant = rng.randrange(2)

    def factory(parent_log, name):
        def make(arg=None):
            own = Log()
            traces.append({"cfg": cfg, "h": own})
            d = {g: subs[g](own, g) for g in subs}
            w = build_c22(cfg, "real", d["body"](), d.get("exc"), d.get("els"), d.get("fin"), variant)
            return delegating(Probe(w, codec, parent_log, name, own, arg))
        return make
    return factory


def random_ops(rng, n, thrown=("Err", "Stop", "Abort", "Base"), p_throw=0.15, p_close=0.07):
    yield {"op": "send", "a": NONE}
    for k in range(1, n):
        u = rng.random()
        if u < p_throw:
            yield {"op": "throw", "a": V(rng.choice(thrown), k + 1)}
        elif u < p_throw + p_close:
            yield {"op": "close", "a": NONE}
        else:
            yield {"op": "send", "a": V("", 200 + k)}
    yield {"op": "close", "a": NONE}


def random_c22_traces(rng, n_roots, depth=3, max_ops=14):
    """execute n_roots random nests; returns the interface traces of all wrapper instances"""
    codec = Codec()
    traces = []
    for _ in range(n_roots):
        counter = [0]
        f = None
        while f is None:
            cand_traces = []
            f = gen_nest(rng, depth, cand_traces, counter, codec)
            root = f(None, None)()
            if not cand_traces:          # a bare leaf: not a wrapper
                root.close()
                f = None
        drive(root, random_ops(rng, rng.randint(2, max_ops)), Log(), codec)
        traces.extend({"cfg": t["cfg"], "h": list(t["h"])} for t in cand_traces if t["h"])
    return traces


# --------------------------------------------------------------------------
# C23 / C24: protocol-only fake devices, the world they live in
# --------------------------------------------------------------------------
class FakeStatus:
    """bluesky.protocols.Status, already finished"""

    def __init__(self, exc=None):
        self._exc = exc
        self.spec_value = 2

    def add_callback(self, cb):
        cb(self)

    def exception(self, timeout=0.0):
        return self._exc

    @property
    def done(self):
        return True

    @property
    def success(self):
        return self._exc is None


class FakeDev:
    """Stageable / Readable with parent link.  Every successful call is appended to world.ledger;
    world.faults[(method, device number)] = exception instance makes that call raise instead."""

    def __init__(self, world, no, parent=None):
        self.world, self.no, self.parent = world, no, parent
        self.name = f"d{no}"

    def __repr__(self):
        return self.name

    def _do(self, what, arg=0):
        e = self.world.faults.pop((what, self.no), None)
        if e is not None:
            raise e
        if not getattr(self.world, "ended", False):      # (what the engine itself cleans up afterwards is not the wrapper's doing)
            self.world.ledger.append(V("", arg, what, self.no))

    def stage(self):
        self._do("stage")
        return self.world.stage_result(self)

    def unstage(self):
        self._do("unstage")
        return self.world.stage_result(self)

    def read(self):
        return {self.name: {"value": self.world.pos.get(self.no, 0), "timestamp": 0.0}}

    def describe(self):
        return {self.name: {"source": "fake", "dtype": "number", "shape": []}}

    def trigger(self):
        return FakeStatus()


class ReadMotor(FakeDev):
    """Movable whose position is only available through read()"""

    def set(self, v):
        self._do("set", int(round(v)))
        self.world.pos[self.no] = int(round(v))
        return FakeStatus()


class AttrMotor(ReadMotor):
    """Movable with a .position attribute"""

    @property
    def position(self):
        return self.world.pos[self.no]


class LocMotor(ReadMotor):
    """Locatable"""

    def locate(self):
        # the readback differs from the setpoint (following error): the wrappers must work from the SETPOINT
        x = self.world.pos[self.no]
        return {"setpoint": x, "readback": x + 7}


class HintedMotor(ReadMotor):
    @property
    def hints(self):
        return {"fields": [self.name]}


class Sig(FakeDev):
    """Subscribable signal"""

    def subscribe(self, fn):
        self._do("monitor")

    def clear_sub(self, fn):
        self._do("unmonitor")


class Flyer(FakeDev):
    def kickoff(self):
        self._do("kickoff")
        return FakeStatus()

    def complete(self):
        self._do("complete")
        return FakeStatus()

    def describe_collect(self):
        return {f"{self.name}_stream": {f"{self.name}_x": {"source": "fake", "dtype": "number", "shape": []}}}

    def collect(self):
        self._do("collect")
        yield {"time": 0.0, "data": {f"{self.name}_x": 1}, "timestamps": {f"{self.name}_x": 0.0}}


class Item:
    """a callback (subs_wrapper) or a suspender (suspend_wrapper), numbered"""

    def __init__(self, world, no):
        self.world, self.no = world, no
        self.received = []

    def __call__(self, name, doc):
        self.received.append(name)
        if self.world.after_wrapper:
            self.world.ledger.append(V("", self.no, "late_doc", 0))

    def install(self, RE, *a, **k):
        if not getattr(self.world, "ended", False):
            self.world.ledger.append(V("", self.no, "install_suspender", 0))

    def remove(self):
        if not getattr(self.world, "ended", False):
            self.world.ledger.append(V("", self.no, "remove_suspender", 0))


MOTOR_CLASS = {"locate": LocMotor, "attr": AttrMotor, "read": ReadMotor}


class World:
    def __init__(self, cfg, parent=(0, 1, 1, 0), dev_class=None):
        self.cfg = cfg
        self.ledger = []
        self.faults = {}
        self.after_wrapper = False
        self.pos = {k + 1: v for k, v in enumerate(cfg.get("p0", []))}
        kind = cfg["kind"]
        cls = dev_class or (MOTOR_CLASS[cfg.get("pk", "locate")] if kind in ("relative_set", "reset_positions") else
                            Sig if kind == "monitor_during" else Flyer if kind == "fly_during" else FakeDev)
        self.devs = []
        for k, par in enumerate(parent):
            self.devs.append(cls(self, k + 1, self.devs[par - 1] if par else None))
        self.items = [Item(self, k + 1) for k in range(4)]
        self.codec = Codec(self.devs)

    def dev(self, no):
        return self.devs[no - 1] if no else None

    def tree_of(self, root):
        def rootof(d):
            while d.parent is not None:
                d = d.parent
            return d
        return [root] + [d for d in self.devs if d is not root and rootof(d) is root]

    def stage_result(self, dev):
        st = self.cfg.get("style", "self")
        return FakeStatus() if st == "status" else self.tree_of(dev) if st == "tree" else [dev]

    # -- messages of the wrapped plan ------------------------------------
    def make_msg(self, v):
        m, o, i = v["m"], self.dev(v["o"]), v["i"]
        if m == "null":
            return Msg("null", None, i)
        if m == "set":
            return Msg("set", o, i, group=None)
        if m == "close_run":
            return Msg("close_run", exit_status=None, reason=None)
        return Msg(m, o)

    # -- the driver's answer to message `last` (python twin of Resp in Paired.tla) --
    def respond(self, last, nops):
        c = last.command
        if c in ("stage", "unstage"):
            r = self.stage_result(last.obj)
            return r, V("", {"self": 1, "status": 2, "tree": 3}[self.cfg.get("style", "self")])
        if c == "locate":
            x = self.pos[last.obj.no]
            return {"setpoint": x, "readback": x + 7}, V("", x)
        if c == "read" and last.obj is not None and last.obj.no in self.pos:
            x = self.pos[last.obj.no]
            return {last.obj.name: {"value": x, "timestamp": 0.0}}, V("", x)
        if c == "subscribe":
            return 50 + nops, V("", 50 + nops)
        return 200 + nops, V("", 200 + nops)

    def acked(self, last):
        if last is not None and last.command == "set" and last.obj is not None:
            self.pos[last.obj.no] = self.codec.msg_arg(last)


def drive_world(w, ops, log, world):
    """like drive(), but every send is answered by world.respond(last message) (the value actually sent is logged)
    and the world is told which set messages were acknowledged"""
    codec = world.codec
    last = None
    for k, o in enumerate(ops):
        try:
            if o["op"] == "send":
                if last is None:
                    log.append(ev("drv", "send", NONE))
                    m = w.send(None)
                else:
                    obj, val = world.respond(last, k)
                    log.append(ev("drv", "send", val))
                    world.acked(last)
                    m = w.send(obj)
            elif o["op"] == "throw":
                log.append(ev("drv", "throw", o["a"]))
                m = w.throw(make_exc(o["a"]))
            else:
                log.append(ev("drv", "close", NONE))
                w.close()
                log.append(ev("out", "", None, "closed"))
                log.sealed = True
                return True
        except StopIteration as e:
            log.append(ev("out", "", None, "return", codec.enc(e.value)))
            log.sealed = True
            return True
        except BaseException as e:  # noqa: B036
            log.append(ev("out", "", None, "raise", codec.enc(e)))
            log.sealed = True
            return True
        log.append(ev("out", "", None, "yield", codec.enc(m)))
        last = m
    return False


# --------------------------------------------------------------------------
# C23 / C24: the real wrappers and literal references
# --------------------------------------------------------------------------
def build_paired(cfg, impl, P, world):
    import bluesky.preprocessors as bpp
    kind = cfg["kind"]
    devs = [world.dev(n) for n in cfg["devs"]]
    items = [world.items[n - 1] for n in cfg["devs"]] if kind in ("subs", "suspend") else []
    if impl == "literal":
        return literal_paired(cfg, P, world, devs, items)
    if kind == "run":
        return bpp.run_wrapper(P)
    if kind == "stage":
        return bpp.stage_wrapper(P, devs)
    if kind == "lazy_stage":
        return bpp.lazily_stage_wrapper(P)
    if kind == "subs":
        return bpp.subs_wrapper(P, list(items))
    if kind == "suspend":
        return bpp.suspend_wrapper(P, list(items))
    if kind == "monitor_during":
        return bpp.monitor_during_wrapper(P, devs)
    if kind == "fly_during":
        return bpp.fly_during_wrapper(P, devs)
    if kind == "relative_set":
        return bpp.relative_set_wrapper(P, None if cfg["all"] else devs)
    if kind == "reset_positions":
        return bpp.reset_positions_wrapper(P, None if cfg["all"] else devs)
    raise ValueError(kind)


def _root(d):
    while d.parent is not None:
        d = d.parent
    return d


def _uniq(seq):
    out = []
    for x in seq:
        if not any(x is y for y in out):
            out.append(x)
    return out


def literal_insert(P, rule):
    """The documented insertion rule of plan_mutator, written out: for each message m of P, rule(m) gives
    (head messages, replacement of m, tail messages); responses to inserted messages are swallowed, P receives the
    response to its own message; an exception thrown at any of them is thrown into P at its yield; close closes P."""
    try:
        m = P.send(None)
    except StopIteration as e:
        return e.value
    while True:
        try:
            head, repl, tail = rule(m)
            if callable(head):
                yield from head(m)
            else:
                for h in head:
                    yield h
            r = yield (repl(m) if callable(repl) else repl)
            for t in tail:
                yield t
        except GeneratorExit:
            P.close()
            raise
        except BaseException as e:  # noqa: B036
            try:
                m = P.throw(e)
            except StopIteration as s:
                return s.value
        else:
            try:
                m = P.send(r)
            except StopIteration as s:
                return s.value


def literal_try_finally(body, final):
    """try: body  finally: final() -- unless closed"""
    closed = False
    try:
        return (yield from body)
    except GeneratorExit:
        closed = True
        raise
    finally:
        if not closed:
            yield from final()


def literal_paired(cfg, P, world, devs, items):
    from bluesky.utils import RunEngineControlException
    from bluesky.protocols import Status
    kind = cfg["kind"]

    def msgs_then_wait(cmd, ds):
        sts = []
        for d in ds:
            r = yield Msg(cmd, d, group=None)
            if isinstance(r, Status):
                sts.append(r)
        if sts:
            yield Msg("wait", None, group=None)

    if kind == "run":
        def run():
            uid = yield Msg("open_run")
            try:
                yield from P
            except Exception as e:
                if isinstance(e, RunEngineControlException):
                    yield Msg("close_run", exit_status=e.exit_status, reason=None)
                else:
                    yield Msg("close_run", exit_status="fail", reason=str(e))
                raise
            else:
                yield Msg("close_run", exit_status=None, reason=None)
            return uid
        return run()
    if kind == "stage":
        roots = _uniq(_root(d) for d in devs)

        def body():
            yield from msgs_then_wait("stage", roots)
            return (yield from P)
        return literal_try_finally(body(), lambda: msgs_then_wait("unstage", list(reversed(roots))))
    if kind == "subs":
        tokens = []

        def body():
            for f in items:
                tokens.append((yield Msg("subscribe", None, f, "all")))
            return (yield from P)

        def fin():
            for t in tokens:
                yield Msg("unsubscribe", None, token=t)
        return literal_try_finally(body(), fin)
    if kind == "suspend":
        def body():
            for s in items:
                yield Msg("install_suspender", None, s)
            return (yield from P)

        def fin():
            for s in items:
                yield Msg("remove_suspender", None, s)
        return literal_try_finally(body(), fin)
    if kind == "lazy_stage":
        staged, roots = [], []

        def rule(m):
            if m.command in ("read", "set", "trigger", "kickoff") and m.obj is not None and not any(_root(m.obj) is r for r in roots):
                root = _root(m.obj)

                def head(_m):
                    ret = yield Msg("stage", root)
                    roots.append(root)
                    staged.extend(ret if isinstance(ret, list) else [root])
                return head, m, []
            return [], m, []
        return literal_try_finally(literal_insert(P, rule), lambda: msgs_then_wait("unstage", list(reversed(staged))))
    if kind in ("monitor_during", "fly_during"):
        if kind == "monitor_during":
            after = [Msg("monitor", s, name=s.name + "_monitor") for s in devs]
            before = [Msg("unmonitor", s) for s in devs]
        else:
            after = [Msg("kickoff", f, group="flyers-kickoff") for f in devs] + ([Msg("wait", None, group="flyers-kickoff")] if devs else [])
            before = ([Msg("complete", f, group="flyers-complete") for f in devs] + ([Msg("wait", None, group="flyers-complete")] if devs else [])
                      + [Msg("collect", f) for f in devs])

        def rule(m):
            if m.command == "open_run":
                return [], m, after
            if m.command == "close_run":
                return before, m, []
            return [], m, []
        return literal_insert(P, rule)
    if kind in ("relative_set", "reset_positions"):
        from bluesky.protocols import Locatable
        init = {}
        order = []
        elig = (lambda d: True) if cfg["all"] else (lambda d: any(d is x for x in devs))

        def rule(m):
            if m.command != "set" or not elig(m.obj):
                return [], m, []
            d = m.obj

            def head(_m):
                if d.no not in init:
                    if isinstance(d, Locatable):
                        init[d.no] = (yield Msg("locate", d))["setpoint"]
                    elif hasattr(d, "position"):
                        init[d.no] = d.position
                    else:
                        init[d.no] = list((yield Msg("read", d)).values())[0]["value"]
                    order.append(d)

            def repl(_m):
                return m._replace(args=(init[d.no] + m.args[0],)) if kind == "relative_set" else m
            return head, repl, []
        if kind == "relative_set":
            return literal_insert(P, rule)

        def fin():
            for d in order:
                yield Msg("set", d, init[d.no], group="reset")
            yield Msg("wait", None, group="reset")
        return literal_try_finally(literal_insert(P, rule), fin)
    raise ValueError(kind)


def replay_paired(cfg, hist, impl):
    """one TLC history of Paired.tla through an implementation; the driver answers by world.respond"""
    world = World(cfg, cfg["forest"])
    log = Log()
    sc = scripts_of(hist, ("p",))
    P = scripted("p", sc["p"], log, world.codec, world.make_msg)
    w = build_paired(cfg, impl, P, world)
    finished = drive_world(w, driver_ops(hist), log, world)
    seal_and_close(w, log, finished)
    return list(log)


# --------------------------------------------------------------------------
# C23 / C24 code -> spec: random wrapped plans, chains of wrappers, random drivers, real RunEngine
# --------------------------------------------------------------------------
class Uni(Sig, Flyer, ReadMotor):
    """a device that implements every protocol the wrappers use (except locate / position)"""


class UniLoc(Uni, LocMotor):
    pass


class UniAttr(Uni, AttrMotor):
    pass


UNI_CLASS = {"locate": UniLoc, "attr": UniAttr, "read": Uni}
PAIRED_KINDS = ("run", "stage", "subs", "suspend", "lazy_stage", "monitor_during", "fly_during")
REL_KINDS = ("relative_set", "reset_positions")
FORESTS = ([0, 1, 1, 0], [0, 1, 2, 0])


def random_paired_cfg(rng, kind, forest, style, pk, p0):
    n = len(forest)
    devs = []
    if kind == "stage":
        devs = [rng.randint(1, n) for _ in range(rng.randint(0, 3))]
    elif kind in ("subs", "suspend"):
        devs = rng.sample([1, 2, 3], rng.randint(0, 3))
    elif kind in ("monitor_during", "fly_during"):
        devs = rng.sample(range(1, n + 1), rng.randint(0, 2))
    elif kind in REL_KINDS and rng.random() < 0.5:
        devs = rng.sample(range(1, n + 1), rng.randint(1, 2))
    return {"kind": kind, "devs": devs, "style": style, "pk": pk,
            "all": not (kind in REL_KINDS and devs), "forest": list(forest), "p0": list(p0)}


def random_plan(rng, world, kinds, n, on_re=False):
    """a random wrapped plan (real generator, not logging: a Probe around it logs).  Its alphabet covers what the
    wrappers in `kinds` react to.  Reacts to thrown exceptions by propagating them (mostly) or carrying on."""
    ndev = len(world.devs)
    in_run = False
    k = 0
    c = None
    while k < n:
        k += 1
        u = rng.random()
        try:
            if u < 0.07:
                e = ErrI()
                e.tag = 1
                raise e
            alphabet = ["null"]
            if "lazy_stage" in kinds:
                alphabet += ["read", "read"]
            if set(kinds) & {"monitor_during", "fly_during"}:
                alphabet += ["runmark", "runmark"]
            if set(kinds) & set(REL_KINDS):
                alphabet += ["set", "set", "set"]
            if on_re and rng.random() < 0.06:
                alphabet = ["pause"]
            c = rng.choice(alphabet)
            if c == "null":
                yield Msg("null", None, 10 + k)
            elif c == "pause":
                yield Msg("pause", defer=False)
            elif c == "read":
                yield Msg("read", world.dev(rng.randint(1, ndev)))
            elif c == "set":
                yield Msg("set", world.dev(rng.randint(1, ndev)), rng.randint(-2, 2), group=None)
            elif c == "runmark":
                if in_run:
                    yield Msg("close_run", exit_status=None, reason=None)
                    in_run = False
                else:
                    yield Msg("open_run")
                    in_run = True
        except GeneratorExit:
            raise
        except Exception:
            # (a plan never survives an exception that arrives right after its open_run: plan_mutator then keeps a stale
            # tail entry keyed by the id() of a dead generator -- allocator dependent, see notes/C23.md)
            if rng.random() < 0.75 or c == "runmark":
                raise
    if in_run:
        yield Msg("close_run", exit_status=None, reason=None)
    return 101


def build_chain(rng, world, cfgs, plan, traces, led_outer=False):
    """wrappers cfgs[0] (outermost) .. cfgs[-1] (innermost) around plan, Probes in between.
    Each level appends {"cfg", "h", "led"} to traces.  Returns the outermost generator (a real generator)."""
    inner = plan
    logs = [Log() for _ in cfgs]
    for depth in range(len(cfgs) - 1, -1, -1):
        # the Probe around `inner` logs as "p" into this level's log and as drv/out into the level below's log
        own_below = logs[depth + 1] if depth + 1 < len(cfgs) else None
        p = Probe(inner, world.codec, logs[depth], "p", own_below)
        inner = build_paired(cfgs[depth], "real", p, world)
    outer = Probe(inner, world.codec, None, None, logs[0])

    def ended():
        world.ended = True
    outer.on_end = ended
    for depth, c in enumerate(cfgs):
        traces.append({"cfg": c, "h": logs[depth], "led": led_outer and depth == 0, "world": world})
    return delegating(outer)


def random_chain_cfgs(rng, pool):
    forest = rng.choice(FORESTS)
    style = rng.choice(["self", "status", "tree"])
    pk = rng.choice(["locate", "attr", "read"])
    p0 = [rng.randint(-2, 2) for _ in forest]
    depth = rng.choice([1, 1, 2, 2, 3])
    kinds = []
    for _ in range(depth):
        k = rng.choice(pool)
        if k == "lazy_stage" and "lazy_stage" in kinds:
            k = "stage"
        kinds.append(k)
    cfgs = [random_paired_cfg(rng, k, forest, style, pk, p0) for k in kinds]
    used = set()           # callbacks / suspenders of different levels are distinct objects (the engine de-duplicates them)
    for c in cfgs:
        if c["kind"] in ("subs", "suspend"):
            c["devs"] = [x for x in c["devs"] if x not in used]
            used |= set(c["devs"])
    return cfgs


def make_world(cfgs):
    w = World(cfgs[0], cfgs[0]["forest"], dev_class=UNI_CLASS[cfgs[0]["pk"]])
    w.ended = False
    return w


def finish_traces(traces):
    out = []
    for t in traces:
        if t["h"]:
            # (a paused RunEngine unsubscribes and re-subscribes monitors by itself: ledger not comparable then)
            led = bool(t["led"]) and not any(e["v"]["m"] == "pause" for e in t["h"])
            out.append({"cfg": t["cfg"], "h": list(t["h"]), "led": led, "ledger": list(t["world"].ledger) if led else []})
    return out


def random_paired_traces(rng, n, pool):
    """driver-level: random chains of real wrappers over random plans under a random driver"""
    res = []
    for _ in range(n):
        cfgs = random_chain_cfgs(rng, pool)
        world = make_world(cfgs)
        traces = []
        plan = random_plan(rng, world, [c["kind"] for c in cfgs], rng.randint(0, 6))
        g = build_chain(rng, world, cfgs, plan, traces)
        drive_world(g, random_ops(rng, rng.randint(2, 16), thrown=("Err", "Stop", "Abort"), p_throw=0.12, p_close=0.05), Log(), world)
        res += finish_traces(traces)
    return res


_RE_CACHE = {}


def fresh_re():
    import asyncio
    from bluesky import RunEngine
    from bluesky.utils import DuringTask
    if "loop" not in _RE_CACHE:
        _RE_CACHE["loop"] = asyncio.new_event_loop()
        logging.getLogger("bluesky").setLevel(logging.CRITICAL)
    return RunEngine({}, loop=_RE_CACHE["loop"], context_managers=[], during_task=DuringTask())


def re_paired_traces(rng, n, pool):
    """the same chains executed by a real RunEngine on fake devices; device faults and pause + abort/stop/halt
    provide the failure / stop / abort / close outcomes; the device ledger is recorded for the outermost wrapper"""
    from bluesky.utils import RunEngineInterrupted
    res = []
    for _ in range(n):
        cfgs = random_chain_cfgs(rng, pool)
        world = make_world(cfgs)
        traces = []
        kinds = [c["kind"] for c in cfgs]
        plan = random_plan(rng, world, kinds, rng.randint(0, 6), on_re=True)
        g = build_chain(rng, world, cfgs, plan, traces, led_outer=True)
        if rng.random() < 0.3:        # a device call that fails
            what = rng.choice(["stage", "unstage", "set", "monitor", "kickoff", "complete"])
            e = Err()
            e.tag = 7
            world.faults[(what, rng.randint(1, len(world.devs)))] = e
        RE = fresh_re()

        def outer():
            try:
                return (yield from g)
            finally:
                world.ended = True
                world.after_wrapper = True
        def whole():
            try:
                yield from outer()
            except Exception:
                pass
            if "subs" in kinds:          # documents emitted after the wrapper must not reach its callbacks any more
                yield Msg("open_run")
                yield Msg("close_run")
        with contextlib.redirect_stdout(io.StringIO()), contextlib.redirect_stderr(io.StringIO()):
            try:
                RE(whole())
            except RunEngineInterrupted:
                how = rng.choice(["abort", "stop", "halt"])
                try:
                    getattr(RE, how)()
                except Exception:
                    pass
            except Exception:
                pass
        res += finish_traces(traces)
    return res


# --------------------------------------------------------------------------
# C24 at plan level: rel_set / mvr / rel_list_scan / rel_scan / rel_grid_scan (spec/wrappers/RelMon.tla)
# --------------------------------------------------------------------------
class PlanMotorMixin:
    """what the built-in scans additionally expect from a motor"""

    @property
    def hints(self):
        return {"fields": [self.name]}


class ScanLoc(PlanMotorMixin, LocMotor):
    pass


class ScanAttr(PlanMotorMixin, AttrMotor):
    pass


class ScanRead(PlanMotorMixin, ReadMotor):
    pass


SCAN_MOTOR = {"locate": ScanLoc, "attr": ScanAttr, "read": ScanRead}


def rel_world(pk, p0):
    cfg = {"kind": "relative_set", "pk": pk, "p0": list(p0) + [0], "style": "self", "devs": [], "all": True}
    w = World(cfg, [0] * (len(p0) + 1), dev_class=SCAN_MOTOR[pk])
    w.ended = False
    w.fault_after = {}
    w.det = w.devs[-1]           # the last device serves as detector (never moved)
    return w


def rel_plan(name, world, args, num=0):
    """the bluesky plan for a RelMon case"""
    import bluesky.plan_stubs as bps
    import bluesky.plans as bp
    m = world.devs
    if name == "rel_set":
        return bps.rel_set(m[0], args[0][0], wait=True)
    if name == "mvr":
        flat = []
        for j, a in enumerate(args):
            flat += [m[j], a[0]]
        return bps.mvr(*flat)
    if name == "rel_list_scan":
        flat = []
        for j, a in enumerate(args):
            flat += [m[j], list(a)]
        return bp.rel_list_scan([world.det], *flat)
    if name == "rel_scan":
        flat = []
        for j, a in enumerate(args):
            flat += [m[j], a[0], a[1]]
        return bp.rel_scan([world.det], *flat, num=num)
    if name == "rel_grid_scan":
        flat = []
        for j, a in enumerate(args):
            flat += [m[j], a[0], a[1], a[2]]
        return bp.rel_grid_scan([world.det], *flat)
    raise ValueError(name)


def in_reset(msg):
    g = msg.kwargs.get("group")
    return isinstance(g, str) and g.startswith("reset-")


def lite_engine(plan, world, fault=None):
    """a minimal engine (answers every message from the fake devices); fault = (k, kind): at the k-th message throw
    Err / RequestStop / RequestAbort into the plan or close it.  Returns (set messages, ending, finfault, #messages,
    index of the first cleanup message or None)."""
    plan = iter(plan)
    sets, n, first_reset, finfault = [], 0, None, False
    try:
        msg = plan.send(None) if hasattr(plan, "send") else next(plan)
        while True:
            n += 1
            if in_reset(msg) and first_reset is None:
                first_reset = n
            if msg.command == "set":
                sets.append([world.codec.dev_no(msg.obj), int(round(msg.args[0]))])
            if fault is not None and fault[0] == n:
                finfault = first_reset is not None
                if fault[1] == "close":
                    plan.close()
                    return sets, "closed", finfault, n, first_reset
                msg = plan.throw(make_exc(V(fault[1], 9)))
                continue
            try:
                c = msg.command
                if c == "set":
                    r = msg.obj.set(*msg.args)
                elif c == "locate":
                    r = msg.obj.locate()
                elif c == "read":
                    r = msg.obj.read()
                elif c == "trigger":
                    r = msg.obj.trigger()
                elif c in ("stage", "unstage"):
                    r = [msg.obj]
                elif c == "open_run":
                    r = "uid"
                else:
                    r = None
            except Exception as e:      # a device call failed: the engine throws it into the plan
                finfault = finfault or first_reset is not None
                msg = plan.throw(e)
                continue
            msg = plan.send(r)
    except StopIteration:
        return sets, "return", finfault, n, first_reset
    except BaseException:  # noqa: B036
        return sets, "raise", finfault, n, first_reset


class PauseInjector:
    """asks the RunEngine to pause right after the (k-1)-th message of the plan was processed"""

    def __init__(self, gen, k):
        self.gen, self.k, self.n, self.pending = iter(gen), k, 0, None

    def __iter__(self):
        return self

    def __next__(self):
        return self.send(None)

    def send(self, v):
        if self.pending is not None:
            (held,), self.pending = self.pending, None
            return self.gen.send(held)
        self.n += 1
        if self.n == self.k:
            self.pending = (v,)
            return Msg("pause", defer=False)
        return self.gen.send(v)

    def throw(self, typ, val=None, tb=None):
        e = val if isinstance(val, BaseException) else (typ if isinstance(typ, BaseException) else typ())
        self.pending = None
        return self.gen.throw(e)

    def close(self):
        return self.gen.close()


def fault_device(world, no, k):
    """the k-th set() of motor `no` fails"""
    dev = world.dev(no)
    orig = dev.set
    count = [0]

    def failing(v):
        count[0] += 1
        if count[0] == k:
            e = Err()
            e.tag = 8
            raise e
        return orig(v)
    dev.set = failing


def rel_case(name, pk, p0, args, num, sets, ending, finfault, world, led):
    nm = len(args)
    return {"plan": name, "pk": pk, "args": [list(a) for a in args], "num": num, "init": list(p0[:nm]),
            "sets": [s for s in sets if s[0] <= nm], "final": [world.pos[j + 1] for j in range(nm)],
            "ending": ending, "finfault": bool(finfault), "led": led}


def rel_lite_cases(name, pk, p0, args, num, kinds=("Err", "Stop", "Abort", "close")):
    """fault-free run plus a fault of every kind at every message index"""
    out = []
    w = rel_world(pk, p0)
    sets, ending, ff, n, _ = lite_engine(rel_plan(name, w, args, num), w)
    out.append(rel_case(name, pk, p0, args, num, sets, ending, ff, w, False))
    for k in range(1, n + 1):
        for kind in kinds:
            w = rel_world(pk, p0)
            sets, ending, ff, _, _ = lite_engine(rel_plan(name, w, args, num), w, (k, kind))
            out.append(rel_case(name, pk, p0, args, num, sets, ending, ff, w, False))
    # a failing device instead of a thrown exception
    nbody = sum(1 for s in out[0]["sets"]) - (len(args) if name.startswith("rel_") and name not in ("rel_set",) and "scan" in name else 0)
    for k in range(1, max(nbody, 0) + 1):
        w = rel_world(pk, p0)
        fault_device(w, 1, k)
        sets, ending, ff, _, _ = lite_engine(rel_plan(name, w, args, num), w)
        out.append(rel_case(name, pk, p0, args, num, sets, ending, ff, w, False))
    return out


def rel_re_case(name, pk, p0, args, num, rng):
    """one execution on a real RunEngine: success, a failing motor, or pause + abort / stop / halt inside the body"""
    from bluesky.utils import RunEngineInterrupted
    w0 = rel_world(pk, p0)
    sets0, _, _, n0, first_reset = lite_engine(rel_plan(name, w0, args, num), w0)
    body_msgs = (first_reset - 1) if first_reset else n0
    w = rel_world(pk, p0)
    plan = rel_plan(name, w, args, num)
    mode = rng.choice(["ok", "device", "abort", "stop", "halt"])
    ending = "return"
    if mode == "device":
        nbody_sets = len([s for s in sets0 if s[0] == 1]) - (1 if first_reset else 0)
        if nbody_sets < 1:
            mode = "ok"
        else:
            fault_device(w, 1, rng.randint(1, nbody_sets))
    if mode in ("abort", "stop", "halt"):
        if body_msgs < 2:
            mode = "ok"
        else:
            plan = delegating(PauseInjector(plan, rng.randint(2, body_msgs)))
    sets = []
    RE = fresh_re()
    RE.msg_hook = lambda m: sets.append([w.codec.dev_no(m.obj), int(round(m.args[0]))]) if m.command == "set" else None
    with contextlib.redirect_stdout(io.StringIO()), contextlib.redirect_stderr(io.StringIO()):
        try:
            RE(plan)
        except RunEngineInterrupted:
            ending = "closed" if mode == "halt" else "raise"
            try:
                getattr(RE, mode)()
            except Exception:
                pass
        except Exception:
            ending = "raise"
    return rel_case(name, pk, p0, args, num, sets, ending, False, w, True)


# --------------------------------------------------------------------------
# the check procedure shared by C23 and C24 (same machine Paired.tla, different wrapper kinds and invariants)
# --------------------------------------------------------------------------
import copy  # noqa: E402
import json  # noqa: E402
import random  # noqa: E402
import re  # noqa: E402

from harness.core import MachineryError  # noqa: E402
from harness.tlc import run_tlc, write_cfg, SPEC  # noqa: E402
from harness.tracecheck import validate_traces  # noqa: E402

SD = SPEC / "wrappers"
HIST_RE = re.compile(r'<<"HIST", "((?:[^"\\]|\\.)*)">>')


def cfg_key(c):
    return f"{c['kind']}:{','.join(map(str, c['devs']))}:{c['style']}:{c.get('pk', '')}:{''.join(map(str, c['forest']))}"


def nontrivial(h):
    return any((e["g"] == "drv" and e["op"] != "send") or (e["g"] == "p" and e["r"] == "raise") for e in h)


def tlc_histories(res):
    return [json.loads(json.loads('"' + m.group(1) + '"')) for m in HIST_RE.finditer(res.stdout)]


def run_paired(ctx, prop, exhaustive_cfg, kinds, invs, plans, pool, kf_sig, kf_what):
    """shared by C23 and C24 (the two properties use the same machine, different wrapper kinds and invariants)"""
    # ---- 1. the design ------------------------------------------------------------------------------------------
    res = run_tlc("MCPaired", exhaustive_cfg, spec_dir=SD, tag=prop, timeout=3400)
    ctx.add_tlc(res, "Paired exhaustive " + exhaustive_cfg)
    if not res.ok:
        st = res.trace[-1][1] if res.trace else {}
        h = [short(e) for e in st.get("hist", ())]
        ctx.violation(f"spec:{res.violated}", f"Paired.tla {res.kind} {res.violated} violated: cfg={st.get('cfg')} history {h}",
                      {"hist": h, "cfg": str(st.get("cfg"))})
        return
    ctx.cov["exhaustive"] = True
    ctx.rule = ("case = one maximal behaviour of Paired.tla (wrapper kind and arguments, device forest, response style, driver "
                "script, reactions of the wrapped plan) replayed through the real wrapper and a literal reference, or one "
                "interface trace of a wrapper instance in a random chain (scripted driver / real RunEngine); distinct by "
                "(configuration, full event sequence); non-trivial = contains a throw, a close or a raising plan")
    # ---- 2. spec -> code ------------------------------------------------------------------------------------------
    deferred = []
    kf_seen_model = set()
    for pk, consts in enumerate(plans):
        cfgp = write_cfg(ctx.out / f"replay{pk}.cfg", consts, invariants=invs, constraints=["DumpHist"])
        res = run_tlc("MCPaired", cfgp, spec_dir=SD, tag=prop + "r", workers=1, timeout=6000)
        ctx.add_tlc(res, f"replay generation kinds={sorted(consts['Kinds'])} MaxOps={consts['MaxOps']} PMsgs={consts['PMsgs']}")
        if not res.ok:
            raise MachineryError(f"replay generation config violated {res.violated}")
        hists = tlc_histories(res)
        if not hists:
            raise MachineryError("no histories printed by Paired.tla")
        for H in hists:
            cfg, h, kf = H["cfg"], H["h"], H["kf"]
            if kf:
                kf_seen_model.add(kf)
            ctx.case((cfg_key(cfg), tuple(short(e) for e in h)), nontrivial(h))
            if not kf:
                got = replay_paired(cfg, h, "literal")
                if first_diff(h, got):
                    deferred.append({"cfg": cfg, "h": usable_prefix(got), "ledger": [], "led": False, "src": "literal", "spec_h": h})
            got = replay_paired(cfg, h, "real")
            if first_diff(h, got) is None:
                if kf:
                    ctx.violation(kf_sig[kf], f"{kf_what[kf]}; replayed TLC behaviour {[short(e) for e in h]}", {"cfg": cfg, "hist": h})
                elif nontrivial(h):
                    ctx.sample({"cfg": cfg_key(cfg), "events": [short(e) for e in h]})
            else:
                deferred.append({"cfg": cfg, "h": usable_prefix(got), "ledger": [], "led": False, "src": "real", "spec_h": h})
    for k in kf_sig:
        if k not in kf_seen_model:
            raise MachineryError(f"the as-coded alternative of open finding {k} was not generated (vacuous exemption)")
    # executions that left the behaviour they were derived from (unspecified unsubscribe order, as-coded alternatives)
    # are still genuine executions; they must be behaviours of the specification
    seen = set()
    batch = []
    for t in deferred:
        key = json.dumps([t["cfg"], t["h"]], sort_keys=True)
        if key not in seen and t["h"]:
            seen.add(key)
            t["src"] = f"replay of a TLC behaviour through the {t['src']} implementation"
            t["count"] = False
            batch.append(t)

    # ---- 3. code -> spec ------------------------------------------------------------------------------------------
    rng = random.Random(ctx.seed)
    n1, n2 = (150, 120) if ctx.quick else (3000, 1500)
    for src, traces in (("random chain, scripted driver", random_paired_traces(rng, n1, pool)),
                        ("random chain, real RunEngine", re_paired_traces(rng, n2, pool))):
        for t in traces:
            if t["cfg"]["kind"] in kinds:
                t["src"] = src
                t["count"] = True
                batch.append(t)
    nled = sum(1 for t in batch if t["led"] and t["ledger"])
    ctx.note(f"{len(batch)} implementation traces to validate, {nled} of them RunEngine executions with a non-empty device ledger")
    if nled == 0:
        raise MachineryError("no device ledger was compared (vacuous ledger check)")
    validate(ctx, prop, batch, kf_sig, kf_what)


def corrupted(part):
    """binding self-check: corrupted copies of real traces (wrong outcome, dropped message, dropped ledger entry)"""
    out = []
    bare = lambda t: copy.deepcopy({k: t[k] for k in ("cfg", "h", "ledger", "led")})   # noqa: E731
    for t in part:
        if len(t["h"]) >= 6 and t["h"][-1]["g"] == "out" and t["h"][-1]["r"] in ("return", "raise") and not t["led"]:
            c1 = bare(t)
            c1["h"][-1]["r"] = "return" if c1["h"][-1]["r"] != "return" else "raise"
            c2 = bare(t)
            del c2["h"][max(j for j, e in enumerate(c2["h"][:-1]) if e["g"] == "out")]
            out += [c1, c2]
            break
    for t in part:
        if t["led"] and len(t["ledger"]) >= 2:
            c3 = bare(t)
            del c3["ledger"][-1]
            out.append(c3)
            break
    return out


def validate(ctx, prop, traces, kf_sig, kf_what):
    chunk = 3000
    n_corrupt = 0
    for c0 in range(0, len(traces), chunk):
        part = traces[c0:c0 + chunk]
        extra = corrupted(traces) if c0 == 0 else []
        n_corrupt += len(extra)
        payload = [{k: t[k] for k in ("cfg", "h", "ledger", "led")} for t in part] + extra
        v = validate_traces("PairedTrace", "PairedTrace.cfg", payload, SD, ctx.out, tag=f"{prop}t", timeout=3400)
        ctx.add_tlc(v.res, f"PairedTrace ({len(part)} traces)")
        for j in range(len(extra)):
            if not v.invariant and len(part) + j not in v.rejected:
                raise MachineryError("a corrupted trace / ledger was accepted by PairedTrace (binding broken)")
        ends = {}
        for a, b in re.findall(r'<<"END", (\d+), (\d+)>>', v.res.stdout):
            ends.setdefault(int(a) - 1, set()).add(int(b))
        if v.invariant:
            t = part[v.inv_trace_index] if v.inv_trace_index is not None and v.inv_trace_index < len(part) else None
            ctx.violation(f"trace-invariant:{v.invariant}:{cfg_key(t['cfg']) if t else '?'}",
                          f"{v.invariant} violated on an implementation trace ({t['src'] if t else ''}): "
                          f"{[short(e) for e in t['h']] if t else ''}",
                          {"trace": {k: t[k] for k in ("cfg", "h", "ledger", "led")} if t else None})
            continue        # TLC stops at the first violated invariant: the rest of the chunk is not judged
        n_acc = 0
        for idx, t in enumerate(part):
            if t.get("count", True):
                ctx.case((cfg_key(t["cfg"]), tuple(short(e) for e in t["h"])), nontrivial(t["h"]))
            if idx in v.rejected:
                upto = v.rejected[idx]
                evs = [short(e) for e in t["h"]]
                where = short(t["h"][upto]) if upto < len(t["h"]) else "end"
                if upto == len(t["h"]) - 1 and t["led"]:
                    where += "/ledger"
                ctx.violation(f"trace-rejected:{t['cfg']['kind']}:{where}",
                              f"execution of the real {t['cfg']['kind']} wrapper ({t['src']}) is not a behaviour of Paired.tla: "
                              f"event {upto} of {evs}" + (f" ledger {[short_v(x) for x in t['ledger']]}" if t["led"] else "")
                              + (f"; derived from TLC behaviour {[short(e) for e in t['spec_h']]}" if "spec_h" in t else ""),
                              {"trace": {k: t[k] for k in ("cfg", "h", "ledger", "led")}, "accepted_prefix": upto})
                continue
            n_acc += 1
            fin = ends.get(idx, {0})
            if 0 not in fin:          # only explained by the as-coded alternative of an open finding
                for k in sorted(fin):
                    ctx.violation(kf_sig[k], f"{kf_what[k]}; {t['src']}: {[short(e) for e in t['h']]}",
                                  {"trace": {k2: t[k2] for k2 in ("cfg", "h", "ledger", "led")}})
        ctx.traces(n_acc)
    if n_corrupt < 3:
        raise MachineryError("could not build the corrupted traces for the binding self-check")
