CONSTANTS
  Writers = {}
  MaxOther = 100000
  MaxRuns = 100000
  Repaireds = {}
SPECIFICATION TraceSpec
INVARIANT C34_ArrayHoldsTheRun
INVARIANT C34_LinesAppended
INVARIANT C34_EarlierContentKept
INVARIANT C34_EveryLineParses
INVARIANT KFReport
POSTCONDITION TraceAccepted
