"""Observed while extending the corpus (outside the 46 listed properties): Msg('install_suspender', None, s) for a suspender whose
condition is ALREADY tripped fails with RuntimeError('Could not create the ') -- SuspenderBase.__make_event schedules the creation of
its asyncio.Event on the loop and waits 0.1 s for it, but the message is processed ON the loop thread, which therefore cannot run it.
Run: PYTHONPATH=/repo/src /venv/bin/python notes/repro/install_tripped_suspender_from_plan.py"""
from bluesky import Msg, RunEngine
from bluesky.suspenders import SuspendBoolHigh
from bluesky.utils import DuringTask


class Sig:
    name = "sig"

    def __init__(self, v):
        self.v, self.cbs = v, []

    def subscribe(self, cb, event_type=None, run=True):
        self.cbs.append(cb)
        if run:
            cb(value=self.v)

    def clear_sub(self, cb):
        self.cbs.remove(cb)

    def get(self):
        return self.v


RE = RunEngine({}, context_managers=[], during_task=DuringTask())
sus = SuspendBoolHigh(Sig(1))          # tripped


def plan():
    yield Msg("install_suspender", None, sus)
    yield Msg("null")


try:
    RE(plan())
    print("PASS: installed")
except RuntimeError as e:
    print("FAIL: RuntimeError:", e)
