CONSTANTS
  RunKeys = {""}
  Streams = {"primary", "interruptions"}
  Dets = {"det"}
  Motors = {}
  Mons = {}
  Pausables = {}
  Flyers = {}
  AsyncDevs = {}
  FlyStream <- FlyStreamDef
  FlyN <- FlyNDef
  Suspenders <- XSus
  SigOf <- SigOfDef
  SusFuts <- SusFutsDef
  SusBand = {}
  NoReplayDevs = {}
  MaxSusOps = 2
  ReadVal <- ReadValDef
  DataKeys <- DataKeysDef
  FutNames = {"f1", "s1a", "s1b"}
  RecordIntr = TRUE
  StreamOrder <- StreamOrderDef
  DevOrder <- DevOrderDef
  Prog <- ProgDef
  MaxReq = 1
  ReqKinds = {"pause"}
  MaxFaults = 0
  FaultKinds = {}
  Decisions = {"resume"}
  MaxCalls = 1
  SuspPre <- SuspPreDef
  SuspPost <- SuspPostDef
  MaxUpdates = 0
SPECIFICATION MCSpec
