CONSTANTS
  AllKeys = {"a", "b", "c", "d", "plan_name", "plan_type", "scan_id", "versions"}
  PKeys = {}
  OKeys = {}
  KKeys = {}
  PVals = {}
  OVals = {}
  KVals = {}
  Idents = {}
  VModes = {}
  NModes = {}
  RenFrom = "a"
  RenTo = "c"
  MaxOpens = 0
  MaxCalls = 0
  MaxCells = 0
  RichRejects = TRUE
  Variant = "either"
  KeepHist = FALSE
SPECIFICATION TraceSpec
INVARIANT TypeOK
INVARIANT C17_Precedence
INVARIANT C17_Normalized
INVARIANT C17_IdentityPresent
INVARIANT C17_RejectNoStart
INVARIANT C17_ScanIdCountsOpenedRuns
INVARIANT C17_StartScanId
PROPERTY C17_ScanIdStep
POSTCONDITION TraceAccepted
