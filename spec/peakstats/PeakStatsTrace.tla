--------------------------- MODULE PeakStatsTrace ---------------------------
(***************************************************************************)
(* C44, code -> spec: outputs of the REAL PeakStats callback on random,     *)
(* larger arrays, logged in 10^-6 fixed point (integers < 2^31).  This is   *)
(* PREDICATE CHECKING ON RECORDED VALUES: Init picks a recorded case and    *)
(* TLC evaluates the C44 invariants of PeakStats.tla -- re-stated on        *)
(* integers -- on the recorded inputs and outputs; nothing is recomputed    *)
(* except max / min / half-maximum of the recorded y.                       *)
(* Record: x, ys (the y the statistics refer to: y itself, or y minus the   *)
(* reported background line), maxx, minx, comnan, com, cr (crossings),      *)
(* hascen, cen, hasfwhm, fwhm, tol (0 without background subtraction: the   *)
(* recorded ys are then exact; a few units otherwise).                      *)
(***************************************************************************)
EXTENDS Integers, Sequences, FiniteSets, TLC, Json, IOUtils

Cases == ndJsonDeserialize(IOEnv.TRACE_FILE)

VARIABLES k, c          \* index of the case, the case itself (parsed once)
tvars == <<k, c>>

TraceInit == LET all == Cases IN \E i \in 1..Len(all) : k = i /\ c = all[i]
TraceSpec == TraceInit /\ [][UNCHANGED tvars]_tvars

N == Len(c.x)
Abs(a) == IF a < 0 THEN 0 - a ELSE a
RECURSIVE MaxOf(_, _)
MaxOf(s, n) == IF n = 1 THEN s[1] ELSE LET m == MaxOf(s, n - 1) IN IF s[n] > m THEN s[n] ELSE m
RECURSIVE MinOf(_, _)
MinOf(s, n) == IF n = 1 THEN s[1] ELSE LET m == MinOf(s, n - 1) IN IF s[n] < m THEN s[n] ELSE m
YHi == MaxOf(c.ys, N)
YLo == MinOf(c.ys, N)
XHi == MaxOf(c.x, N)
XLo == MinOf(c.x, N)
Near(v, lo, hi) == lo - 1 <= v /\ v <= hi + 1          \* one unit of rounding

T_StrictlyMonotonic == \/ \A i \in 1..(N - 1) : c.x[i] < c.x[i + 1]
                       \/ \A i \in 1..(N - 1) : c.x[i] > c.x[i + 1]
T_MaxIsArgmax == \E i \in 1..N : c.x[i] = c.maxx /\ c.ys[i] >= YHi - c.tol
T_MinIsArgmin == \E i \in 1..N : c.x[i] = c.minx /\ c.ys[i] <= YLo + c.tol
T_ComInRange == c.hascom => (~c.comnan /\ Near(c.com, XLo, XHi))
T_CenInRange == c.hascen => Near(c.cen, XLo, XHi)
\* a pair straddles the half-maximum (2 ys compared with max + min, to stay in integers)
CanBeAbove(i) == 2 * c.ys[i] > YHi + YLo - c.tol
CanBeBelow(i) == 2 * c.ys[i] <= YHi + YLo + c.tol
StraddlesT(i) == (CanBeAbove(i) /\ CanBeBelow(i + 1)) \/ (CanBeBelow(i) /\ CanBeAbove(i + 1))
T_CrossingsStraddle ==
    \A j \in 1..Len(c.cr) :
        \E i \in 1..(N - 1) :
            /\ StraddlesT(i)
            /\ Near(c.cr[j], IF c.x[i] < c.x[i + 1] THEN c.x[i] ELSE c.x[i + 1],
                             IF c.x[i] < c.x[i + 1] THEN c.x[i + 1] ELSE c.x[i])
T_FwhmOutermost ==
    /\ c.hasfwhm => Len(c.cr) >= 2
    /\ Len(c.cr) >= 2 =>
          /\ c.hasfwhm
          /\ Abs(c.fwhm - Abs(c.cr[Len(c.cr)] - c.cr[1])) <= 2
          /\ Abs(c.fwhm - (MaxOf(c.cr, Len(c.cr)) - MinOf(c.cr, Len(c.cr)))) <= 2
\* cen and crossings are reported together
T_CenIffCrossings == c.hascen <=> Len(c.cr) > 0

AllSeen == TLCGet("stats").distinct = Len(Cases)
=============================================================================
