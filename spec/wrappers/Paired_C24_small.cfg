CONSTANTS
  Kinds = {"relative_set", "reset_positions"}
  MaxOps = 5
  PMsgs = 2
  Thrown = {"Err", "Abort"}
  PRaise = {"ErrI"}
  CatchThrow = TRUE
  MisbehaveClose = FALSE
  AsCoded = TRUE
  Forests <- FTwo
  DevLists <- ListsRel
  Styles = {"self"}
  PosKinds = {"locate", "attr"}
  Positions <- PosSmall
  Offsets <- OffSmall
SPECIFICATION Spec
VIEW mcview
INVARIANT TypeOK
INVARIANT C24_OffsetFromInitial
INVARIANT C24_ResetToInitial
INVARIANT C24_NoResetOnClose
INVARIANT C23_NoCleanupOnClose
