CONSTANTS
  AllKeys = {"a", "b", "c", "plan_name", "plan_type", "scan_id"}
  PKeys = {"a", "c", "plan_name", "scan_id"}
  OKeys = {"a", "c", "plan_name", "scan_id"}
  KKeys = {"a", "c", "plan_name", "scan_id"}
  PVals = {1}
  OVals = {2}
  KVals = {3}
  Idents = {24}
  VModes = {"accept", "reject"}
  NModes = {"identity", "rename", "reject"}
  RenFrom = "a"
  RenTo = "c"
  MaxOpens = 1
  MaxCalls = 1
  MaxCells = 4
  RichRejects = FALSE
  Variant = "fixed"
  KeepHist = TRUE
SPECIFICATION Spec
INVARIANT TypeOK
INVARIANT C17_Precedence
INVARIANT C17_Normalized
INVARIANT C17_IdentityPresent
INVARIANT C17_RejectNoStart
INVARIANT C17_ScanIdCountsOpenedRuns
INVARIANT C17_NoGap
INVARIANT C17_StartScanId
PROPERTY C17_ScanIdStep
CONSTRAINT DumpHist
