"""./check Cxx [--tier quick|thorough] [--replay FILE]

exit 0: property held on everything explored (KNOWN-FINDING lines possible)
exit 1: VIOLATION property=<id> replay=<path>
exit 2: machinery failure (never used to hide a verdict)
"""
import argparse
import importlib
import json
import os
import sys
import traceback

os.environ.setdefault("PYTHONHASHSEED", "0")
os.environ.setdefault("BLUESKY_VERIF", "1")


def main(argv=None):
    ap = argparse.ArgumentParser()
    ap.add_argument("prop")
    ap.add_argument("--tier", default=os.environ.get("VERIF_TIER", "quick"), choices=["quick", "thorough"])
    ap.add_argument("--replay", default=None)
    a = ap.parse_args(argv)
    seed = int(os.environ.get("VERIF_SEED", "0") or 0)
    from harness.core import Ctx, MachineryError
    from harness.tlc import TLCError
    try:
        mod = importlib.import_module(f"harness.props.{a.prop}")
    except ModuleNotFoundError as e:
        print(f"no check for {a.prop}: {e}", file=sys.stderr)
        return 2
    ctx = Ctx(a.prop, a.tier, seed)
    try:
        if a.replay:
            obj = json.load(open(a.replay))
            if not hasattr(mod, "replay"):
                print("this check has no replay entry point; the file describes the failing case:")
                print(json.dumps(obj, indent=1)[:4000])
                return 0
            return mod.replay(ctx, obj)
        mod.run(ctx)
        return ctx.finish(getattr(mod, "LEVEL", "model_checking"))
    except (MachineryError, TLCError) as e:
        print(f"MACHINERY-FAILURE property={a.prop}: {str(e)[-2500:]}", file=sys.stderr)
        return 2
    except Exception as e:  # noqa
        print(f"MACHINERY-FAILURE property={a.prop}: unexpected {type(e).__name__}: {e}", file=sys.stderr)
        traceback.print_exc()
        return 2


if __name__ == "__main__":
    sys.exit(main())
