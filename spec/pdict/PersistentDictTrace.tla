------------------------- MODULE PersistentDictTrace -------------------------
(* Batch validation of histories executed on the real bluesky PersistentDict    *)
(* (temp directories, msgpack/numpy values mapped to tokens by deep equality).   *)
(* TRACE_FILE: ndjson, one trace per line = sequence of events                   *)
(*   [op, k, v, m, res = [val, key, err, m]]                                     *)
(* Every event must be explained by the action of PersistentDict.tla for that    *)
(* operation with the OBSERVED result: value popped, key chosen by popitem,      *)
(* KeyError, contents seen after reload / reopen / crash / read.  Mode="either"  *)
(* lets TLC follow the as-found or the repaired finalizer, so a repaired tree is *)
(* accepted as well; only the as-found branch can reach the exempted signature,  *)
(* which is printed as <<"KF", "stale-finalizer", trace, event>>.                *)
EXTENDS PersistentDict, IOUtils

Traces == ndJsonDeserialize(IOEnv.TRACE_FILE)

VARIABLES tid, l
tvars == <<vars, tid, l>>

TraceInit == /\ Init
             /\ tid \in 1..Len(Traces)
             /\ l = 1
             /\ TLCSet(tid, 1)

Ev == Traces[tid][l]

\* d (or dict(d)) read back without changing anything
Read == /\ out' = R(0, "", FALSE, cache)
        /\ UNCHANGED <<cache, disk, fin, stale, want>> /\ Quiet
        /\ Log(E("read", "", 0, Absent, out'))

Step ==
    \/ Ev.op = "set" /\ Set(Ev.k, Ev.v)
    \/ Ev.op = "del" /\ Del(Ev.k) /\ out'.err = Ev.res.err
    \/ Ev.op = "pop" /\ Pop(Ev.k) /\ out'.err = Ev.res.err /\ out'.val = Ev.res.val
    \/ Ev.op = "popd" /\ PopD(Ev.k, Ev.v) /\ out'.err = Ev.res.err /\ out'.val = Ev.res.val
    \/ Ev.op = "popitem" /\ ~Ev.res.err /\ Ev.res.key \in Keys /\ PopItem(Ev.res.key) /\ out'.val = Ev.res.val
    \/ Ev.op = "popitem" /\ Ev.res.err /\ PopItemEmpty
    \/ Ev.op = "update" /\ Update(Ev.m)
    \/ Ev.op = "setdefault" /\ SetDefault(Ev.k, Ev.v) /\ out'.val = Ev.res.val
    \/ Ev.op = "clear" /\ Clear
    \/ Ev.op = "mutate" /\ Mutate(Ev.k, Ev.v)
    \/ Ev.op = "flush" /\ Flush
    \/ Ev.op = "reload" /\ Reload /\ out'.m = Ev.res.m
    \/ Ev.op = "reload_blind" /\ Reload                 \* executed in a child process: result not observable
    \/ Ev.op = "reopen" /\ Reopen /\ out'.m = Ev.res.m
    \/ Ev.op = "crash" /\ Crash /\ out'.m = Ev.res.m
    \/ Ev.op = "read" /\ Read /\ out'.m = Ev.res.m

TraceNext == /\ l <= Len(Traces[tid])
             /\ Step
             /\ l' = l + 1
             /\ UNCHANGED tid
             /\ TLCSet(tid, l + 1)

TraceSpec == TraceInit /\ [][TraceNext]_tvars

T_ReopenHoldsLastWritten ==
    verdict # "bad" \/ (KF_StaleFinalizer /\ PrintT(<<"KF", "stale-finalizer", tid, l>>))

Progress(t) == TLCGet(t)
TraceAccepted ==
    \A t \in 1..Len(Traces) :
        \/ Progress(t) = Len(Traces[t]) + 1
        \/ PrintT(<<"REJECTED", t, Progress(t)>>) /\ FALSE
=============================================================================
