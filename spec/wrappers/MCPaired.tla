------------------------------ MODULE MCPaired ------------------------------
(* structured constants for the Paired.tla configurations (cfg files only take scalars and sets of scalars) *)
EXTENDS Paired

\* device forests: device -> parent
ForestShared == <<0, 1, 1, 0>>        \* 1 is the root of 2 and 3; 4 stands alone
ForestChain  == <<0, 1, 2, 0>>        \* 1 <- 2 <- 3 (grandchild); 4 stands alone
ForestTwo    == <<0, 0>>              \* two independent motors (C24)
FShared == {ForestShared}
FBoth   == {ForestShared, ForestChain}
FTwo    == {ForestTwo}

NoLists == {<<>>}
ListsUpTo2(n) == {<<>>} \cup {<<a>> : a \in 1..n} \cup {<<a, b>> : a \in 1..n, b \in 1..n}
ListsUpTo3(n) == ListsUpTo2(n) \cup {<<a, b, c>> : a \in 1..n, b \in 1..n, c \in 1..n}
Lists4x2 == ListsUpTo2(4)
Lists4x3 == ListsUpTo3(4)
Lists2x2 == ListsUpTo2(2)
ListsRel == {<<>>, <<1>>, <<2, 1>>}              \* C24: all devices / only motor 1 / both listed
ListsCurated == {<<>>, <<2>>, <<3, 2>>, <<2, 4>>, <<4, 1, 3>>}   \* C23 quick replay: shared root twice, two trees, root + child
PosOne == {1}
PosSmall == {-2, 1}
PosLarge == {-2, 0, 1}
OffOne == {2}
OffSmall == {-1, 2}
OffLarge == {-2, -1, 2}
Items2 == {<<>>, <<1>>, <<1, 2>>, <<2, 1>>}
Items3 == Items2 \cup {<<1, 2, 3>>, <<3, 1, 2>>}
=============================================================================
