CONSTANTS
  Writers = {"json", "jsonl"}
  MaxOther = 4
  MaxRuns = 3
  Repaireds = {FALSE, TRUE}
SPECIFICATION Spec
INVARIANT TypeOK
INVARIANT C34_ArrayHoldsTheRun
INVARIANT C34_LinesAppended
INVARIANT C34_EarlierContentKept
INVARIANT C34_EveryLineParses
CONSTRAINT Dump
