\* quick-tier instance of harness/props/C29.py: adaptive_scan(0, 5/4, min_step 1/4, max_step 1, target_delta 2, threshold 4/5),
\* no bound on the number of visits (MaxIter = AS_Bound + 1).  The check writes this file itself (write_cfg) and adds
\* CONSTRAINT DumpHist (workers = 1) to print the histories it replays.
CONSTANTS
  Plan = "adaptive"
  Den = 4
  StartN = 0
  StopN = 5
  MinStepN = 1
  MaxStepN = 4
  TargetN = 8
  ThrN = 4
  ThrD = 5
  Num = 3
  SfN = 2
  SfD = 1
  Readings = {0, 1, 5}
  MaxIter = 56
  Fuzz = TRUE
  Flips = {FALSE, TRUE}
  Backsteps = {FALSE, TRUE}
  Snakes = {FALSE, TRUE}
SPECIFICATION Spec
INVARIANT TypeOK
INVARIANT AS_VisitedInRange
INVARIANT AS_NotBeforeStart
INVARIANT AS_StepBounded
INVARIANT IterBound
PROPERTY AS_Variant
