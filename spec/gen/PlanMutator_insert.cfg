\* C21, quick tier: repaired alternative "FF" (every clause, no exemption) and the code as found "TT"
\* (harness/props/C21.py generates the same file with the bounds of the tier and adds CONSTRAINT DumpHist)
CONSTANTS
  Impls = {"plan_mutator"}
  Procs = {"insert"}
  Variants = {"FF", "TT"}
  MaxOpsId = 0
  MaxOpsIns = 3
  MaxGens = 2
  MaxPost = 0
  KeepHist = TRUE
  DumpVariants = {}
SPECIFICATION Spec
INVARIANT TypeOK
INVARIANT C21_HostGetsHeadResponse
INVARIANT C21_TailRightAfterHead
INVARIANT C21_NoReprocess
INVARIANT C21_ExceptionsReachHost
INVARIANT C21_ReplyToYielder
