CONSTANTS
  MaxDocs = 5
  NBackups = 2
  MaxLens = {2, 5}
  MaxBFails = 1
SPECIFICATION Spec
INVARIANT TypeOK
INVARIANT C35_BackupCompleteInOrder
INVARIANT C35_BackupNoDupOrdered
INVARIANT C35_PushIffFailed
INVARIANT C35_SilentBeforeFailure
INVARIANT C35_PrimarySeesAll
INVARIANT C35_BufferAccounting
