\* Vacuity / reachability of the open findings: the code as found checked WITHOUT exemption.
\* Expected result: C21_NoReprocess_Strict (KF-C21-1) or C21_*_Strict (KF-C21-2) violated.
CONSTANTS
  Impls = {"plan_mutator"}
  Procs = {"insert"}
  Variants = {"TT"}
  MaxOpsId = 0
  MaxOpsIns = 3
  MaxGens = 2
  MaxPost = 0
  KeepHist = TRUE
  DumpVariants = {}
SPECIFICATION Spec
INVARIANT C21_NoReprocess_Strict
INVARIANT C21_HostGetsHeadResponse_Strict
INVARIANT C21_TailRightAfterHead_Strict
