"""C03 -- decided on the RunEngine core specification (spec/re/RE.tla, REProps.tla).

REMC.tla is model-checked exhaustively for bounded plan programs with every interleaving of external requests and caller
decisions; every scheduling point of the same programs (and of built-in plans) is executed on the real RunEngine under the
single-step loop, recorded through public hooks and validated by TLC against RE.tla, with the C03 clauses of REProps.tla
evaluated on every step of every trace.
"""
from harness import recore

ENGINE = "tlc+re-core"
DESIGN_REF = "DESIGN.md sections 4, 5, 7 (C03)"


def run(ctx):
    recore.check_property(ctx, "C03", proj="full")
