"""C37 -- file-name templates of multi-file consolidators expand exactly like C printf.

spec/tiled/Printf.tla states the ISO C semantics of %[-+ #0]*[width][.precision]d on non-negative integers (strings
as sequences of ASCII codes); TLC checks clause-by-clause invariants on every template of the bounded domain (all
flag subsets x width in {none,1..12} x precision in {none, width..12} x indices) and dumps each case with the expected
string.  Every case is expanded through the real TIFF/JPEG consolidators (template normalisation in
MultipartRelatedConsolidator.__init__ + get_datum_uri) and the file names are compared exactly; file names produced
for random larger templates and indices are validated by TLC against PrintfTrace.tla.

Assurance: bounded-exhaustive model checking of the printf specification plus exact conformance of the real template
expansion on every enumerated template and on random larger ones; the four as-found defect classes are open findings
attributed only when the implementation's output equals the defective string the specification predicts.
"""
import json
import random
import re
from concurrent.futures import ThreadPoolExecutor

from harness.tlc import run_tlc, SPEC

SD = SPEC / "tiled"
DESIGN_REF = "DESIGN.md section 7 (C37), section 8"
NONE = 99
URI = "file://localhost/data/run1/"

DESCRIPTOR = {
    "data_keys": {"img": {"shape": [1, 4, 5], "dtype": "array", "dtype_numpy": "<f8", "external": "STREAM:",
                          "object_name": "det"}},
    "uid": "descriptor-uid",
}

# (mimetype, template prefix, filename parameter, expected prefix, extension)
STYLES = [
    ("multipart/related;type=image/tiff", "img_", None, "img_", ".tif"),
    ("multipart/related;type=image/tiff", "%s%s_", "scan", "scan_", ".tiff"),
    ("multipart/related;type=image/jpeg", "frame", None, "frame", ".jpg"),
]


def jopts(ctx):
    """JVM options: short runs are dominated by JIT/GC thread start-up on a many-core box"""
    return ["-XX:TieredStopAtLevel=1", "-XX:CICompilerCount=2", "-XX:ParallelGCThreads=2"] if ctx.quick else ["-XX:ParallelGCThreads=4"]


def violating_cases(stdout, var="cid"):
    """TLC -continue output -> {case index: first violated invariant}; works for initial and later states"""
    bad = {}
    ms = list(re.finditer(r"Invariant (\S+) is violated", stdout))
    for n, m in enumerate(ms):
        end = ms[n + 1].start() if n + 1 < len(ms) else len(stdout)
        mm = re.compile(r"/\\ %s = (\d+)" % var).search(stdout, m.end(), end)
        if mm:
            bad.setdefault(int(mm.group(1)), m.group(1))
    return bad


def conv_spec(flag_chars, w, p):
    return "".join(flag_chars) + ("" if w == NONE else str(w)) + ("" if p == NONE else "." + str(p))


def expand(spec, n, style):
    """file name the real consolidator derives for frame index n from the template '%<spec>d' -> str | ('EXC', type)"""
    from bluesky.consolidators import consolidator_factory
    mimetype, tpre, filename, _, ext = STYLES[style]
    params = {"chunk_shape": (1,), "template": f"{tpre}%{spec}d{ext}"}
    if filename:
        params["filename"] = filename
    sres = {"data_key": "img", "mimetype": mimetype, "uri": URI, "parameters": params, "uid": "sres-uid"}
    try:
        cons = consolidator_factory(sres, DESCRIPTOR)
        return cons.get_datum_uri(n)
    except Exception as ex:  # noqa: BLE001 -- the spec says a string must come out
        return ("EXC", type(ex).__name__)


def to_codes(result, style):
    """implementation result -> ASCII codes of the converted number ([0] = raised); None if prefix/suffix are wrong"""
    if isinstance(result, tuple):
        return [0]
    _, _, _, epre, ext = STYLES[style]
    head = URI + epre
    if not (result.startswith(head) and result.endswith(ext)):
        return None
    return [ord(c) for c in result[len(head):len(result) - len(ext)]]


def chars(codes):
    return "<raises>" if codes == [0] else "".join(chr(c) for c in codes)


def judge(ctx, origin, spec, c, got, style):
    """compare one implementation result with the specified string; attribute to a known defect only on exact match"""
    exp = c["out"]
    if got == exp:
        return True
    for a in c.get("alts", []):
        if got == a["out"]:
            ctx.violation(f"kf:{'+'.join(sorted(a['d']))}:%{spec}d",
                          f"template %{spec}d index {c['n']}: got {chars(got)!r}, C printf gives {chars(exp)!r} "
                          f"(as-found defect {sorted(a['d'])})",
                          {"origin": origin, "template": f"%{spec}d", "n": c["n"], "style": STYLES[style][:3],
                           "got": chars(got) if got else None, "expected": chars(exp)})
            return False
    ctx.violation(f"mismatch:{origin}:%{spec}d:n={c['n']}",
                  f"template %{spec}d index {c['n']} ({STYLES[style][0]}): got {chars(got) if got is not None else 'wrong prefix/suffix'!r}, "
                  f"C printf gives {chars(exp)!r}",
                  {"origin": origin, "template": f"%{spec}d", "n": c["n"], "style": STYLES[style][:3],
                   "got": chars(got) if got else None, "expected": chars(exp)})
    return False


def random_cases(rng, count):
    """random templates outside the TLC domain, expanded by the implementation"""
    rec = []
    for i in range(count):
        nfl = rng.choice([0, 1, 1, 2, 2, 3, 4])
        fl = [rng.choice("-+ #0") for _ in range(nfl)]          # any order, repeats allowed
        w = rng.choice([NONE, NONE] + list(range(1, 41)))
        lo = 0 if w == NONE else w
        p = rng.choice([NONE, NONE, NONE] + list(range(lo, 41)))
        n = rng.choice([0, rng.randrange(10), rng.randrange(10 ** rng.randint(1, 9)), 2 ** 31 - 1 - rng.randrange(1000)])
        if p == 0 and n == 0:
            n = 5
        style = i % len(STYLES)
        spec = conv_spec(fl, w, p)
        got = to_codes(expand(spec, n, style), style)
        rec.append({"flags": sorted(set(fl)), "width": w, "prec": p, "n": n, "out": got if got is not None else [1],
                    "spec": spec, "style": style})
    return rec


def trace_part(ctx, rec):
    tf = ctx.out / "impl_names.ndjson"
    with open(tf, "w") as fh:
        for r in rec:
            fh.write(json.dumps({k: r[k] for k in ("flags", "width", "prec", "n", "out")}) + "\n")
    return run_tlc("PrintfTrace", "PrintfTrace.cfg", spec_dir=SD, env={"TRACE_FILE": tf}, tag="C37t", timeout=1500,
                   extra=["-continue"], java_opts=jopts(ctx))


def run(ctx):
    rng = random.Random(ctx.seed)
    cfg = "Printf_small.cfg" if ctx.quick else "Printf_large.cfg"
    cases_file = ctx.out / "cases.ndjson"
    rec = random_cases(rng, 300 if ctx.quick else 6000)
    with ThreadPoolExecutor(2) as ex:       # the two TLC runs are independent
        f1 = ex.submit(run_tlc, "Printf", cfg, spec_dir=SD, env={"CASES_OUT": cases_file}, tag="C37", timeout=3000,
                       java_opts=jopts(ctx))
        f2 = ex.submit(trace_part, ctx, rec)
        res, tres = f1.result(), f2.result()
    ctx.add_tlc(res, "Printf exhaustive " + cfg)
    if not res.ok:
        st = res.trace[-1][1] if res.trace else {}
        ctx.violation(f"spec:{res.violated}", f"Printf.tla invariant {res.violated} violated on the specification itself: {st}",
                      {"tlc_trace": str(res.trace)[:2000]})
        return
    ctx.cov["exhaustive"] = True
    ctx.rule = ("every (flag subset, width, precision >= width, index) of the bounded domain is enumerated by TLC and expanded "
                "through the real TIFF/JPEG consolidator (three template styles in rotation, flags in canonical and in reversed "
                "order); distinct = distinct (conversion spec, index, style), non-trivial = some flag, width or precision; plus "
                "random larger templates expanded by the implementation and validated by TLC (PrintfTrace)")
    cases = [json.loads(ln) for ln in open(cases_file)]
    if not cases:
        ctx.machinery("Printf.tla dumped no cases")
    for k, c in enumerate(cases):
        w, p, n = c["width"], c["prec"], c["n"]
        fl = sorted(c["flags"])
        if p == 0 and n == 0:
            continue        # C prints nothing, python's printf-style formatting prints "0": not compared (see assumptions)
        # sanity of the specification: python's % operator follows C for d
        py = ("%" + conv_spec(fl, w, p) + "d") % n
        if py != chars(c["out"]):
            ctx.machinery(f"Printf.tla disagrees with the reference formatter for %{conv_spec(fl, w, p)}d of {n}: "
                          f"{chars(c['out'])!r} vs {py!r}")
        for order in (fl, fl[::-1]) if len(fl) > 1 else (fl,):
            style = (k + (1 if order is not fl else 0)) % len(STYLES)
            spec = conv_spec(order, w, p)
            got = to_codes(expand(spec, n, style), style)
            ctx.case((spec, n, style), bool(fl) or w != NONE or p != NONE)
            ok = judge(ctx, "replay", spec, c, got, style)
            if ok and fl and w != NONE and k % 997 == 0:
                ctx.sample({"template": f"%{spec}d", "index": n, "file_name": chars(got)})
    # implementation file names on random larger templates, validated by TLC
    ctx.add_tlc(tres, "PrintfTrace")
    for r in rec:
        ctx.case((r["spec"], r["n"], r["style"]), bool(r["flags"]) or r["width"] != NONE or r["prec"] != NONE)
    bad = set()
    if not tres.ok:
        if tres.kind != "invariant":
            ctx.machinery(f"PrintfTrace failed: {tres.violated}\n{tres.stdout[-1500:]}")
        viol = violating_cases(tres.stdout)
        if not viol:
            ctx.machinery(f"PrintfTrace reported {tres.violated} but no case could be identified\n{tres.stdout[-1500:]}")
        for k, inv in sorted(viol.items()):
            bad.add(k)
            r = rec[k - 1]
            exp = ("%" + r["spec"] + "d") % r["n"] if not (r["prec"] == 0 and r["n"] == 0) else "?"
            ctx.violation(f"mismatch:trace:%{r['spec']}d:n={r['n']}",
                          f"file name for template %{r['spec']}d index {r['n']} rejected by PrintfTrace ({inv}): "
                          f"got {chars(r['out'])!r}, C printf gives {exp!r}",
                          {"origin": "trace", "template": f"%{r['spec']}d", "n": r["n"], "style": STYLES[r["style"]][:3],
                           "got": chars(r["out"]), "expected": exp})
    kf = set()
    for m in re.finditer(r'<<"KF", (\d+), <<([^>]*)>>>>', tres.stdout):
        k = int(m.group(1))
        if k in kf:
            continue
        kf.add(k)
        r = rec[k - 1]
        d = sorted(x.strip().strip('"') for x in m.group(2).split(","))
        ctx.violation(f"kf:{'+'.join(d)}:%{r['spec']}d",
                      f"template %{r['spec']}d index {r['n']}: got {chars(r['out'])!r} (as-found defect {d}, accepted by PrintfTrace as known)",
                      {"origin": "trace", "template": f"%{r['spec']}d", "n": r["n"], "got": chars(r["out"])})
    ctx.traces(len(rec) - len(bad) - len(kf))
    ctx.assumptions += [
        "ISO C leaves '#' with d undefined; it is specified as having no effect (glibc, python)",
        "templates contain one integer conversion; the %s / filename substitution is exercised only in its documented form",
        "frame indices are non-negative and below 2^31",
        "value 0 under precision 0 (C: no characters; python's % operator: '0') is specified but not compared against the implementation",
    ]
