"""C36 -- stream datums concatenate and consolidate into consistent array shapes.

spec/tiled/StreamDatum.tla has two parts.  "concat": a sequence of stream datums is accepted iff it is one datum or all
share descriptor and stream resource and their index ranges tile an interval, in any order; the result carries the hull
of indices and seq_nums.  "cons": shape / chunks / seq_num->row map of a consolidator as functions of join method,
join_chunks, descriptor shape, chunk_shape, multiplier and the datums consumed; the property's predicates (chunk sizes
add up to every dimension of the shape and respect chunk_shape; every consumed seq_num is mapped to its row) are
invariants.  TLC checks both parts over the bounded domain and dumps every case; each is replayed on the real
concatenate_stream_datums / ConsolidatorBase / HDF5Consolidator / CSVConsolidator (constructed the way the repository's
tests do), and results of random larger inputs (also TIFF consolidators) are validated by TLC (StreamDatumTrace).

Assurance: bounded-exhaustive model checking of both parts plus exact conformance of the real functions/classes on
every enumerated case and on random larger ones; one open finding (IndexError for scalar datums with concat and
join_chunks=False) is exempted only at its signature.
"""
import glob
import json
import os
import random
import re
from concurrent.futures import ThreadPoolExecutor

from harness.tlc import run_tlc, SPEC

SD = SPEC / "tiled"
DESIGN_REF = "DESIGN.md section 7 (C36)"
NOPAR = {"join": "none", "jchunks": True, "dshape": [], "cshape": [], "mult": 0}


def jopts(ctx):
    """JVM options: short runs are dominated by JIT/GC thread start-up on a many-core box"""
    return ["-XX:TieredStopAtLevel=1", "-XX:CICompilerCount=2", "-XX:ParallelGCThreads=2"] if ctx.quick else ["-XX:ParallelGCThreads=4"]


def violating_cases(stdout, var="cid"):
    """TLC -continue output -> {case index: first violated invariant}; works for initial and later states"""
    bad = {}
    ms = list(re.finditer(r"Invariant (\S+) is violated", stdout))
    for n, m in enumerate(ms):
        end = ms[n + 1].start() if n + 1 < len(ms) else len(stdout)
        mm = re.compile(r"/\\ %s = (\d+)" % var).search(stdout, m.end(), end)
        if mm:
            bad.setdefault(int(mm.group(1)), m.group(1))
    return bad


# --------------------------------------------------------------------------
# concat
# --------------------------------------------------------------------------
def datum_doc(f, n):
    desc, res, i0, i1, s0, s1 = f
    return {"uid": f"sd-{n}", "descriptor": f"desc-{desc}", "stream_resource": f"sres-{res}",
            "indices": {"start": i0, "stop": i1}, "seq_nums": {"start": s0, "stop": s1}}


def flat_of(doc):
    return [int(doc["descriptor"].split("-")[1]), int(doc["stream_resource"].split("-")[1]), doc["indices"]["start"],
            doc["indices"]["stop"], doc["seq_nums"]["start"], doc["seq_nums"]["stop"]]


def run_concat(flats):
    """-> (accepted, flat result or [], error text)"""
    from bluesky.callbacks.tiled_writer import concatenate_stream_datums
    docs = [datum_doc(f, n) for n, f in enumerate(flats)]
    try:
        out = concatenate_stream_datums(*docs)
    except ValueError:
        return False, [], None
    except Exception as ex:  # noqa: BLE001 -- the statement knows only "accepted" and "rejected"
        return False, [], f"{type(ex).__name__}: {ex}"
    try:
        return True, flat_of(out), None
    except Exception as ex:  # noqa: BLE001
        return True, [], f"malformed result {out!r}: {ex}"


def concat_sig(flats):
    """class of a concat input: number of datums, same source?, sorted?, contiguous?"""
    n = len(flats)
    same = len({(f[0], f[1]) for f in flats}) == 1
    srt = sorted(flats, key=lambda f: f[2])
    contiguous = all(a[3] == b[2] for a, b in zip(srt, srt[1:]))
    return f"n={n}:same={int(same)}:sorted={int(srt == list(flats))}:contiguous={int(contiguous)}"


def random_concat(rng):
    n = rng.randint(2, 8)
    off = rng.randint(0, 5)
    start = rng.randint(0, 20)
    cuts = [start]
    for _ in range(n):
        cuts.append(cuts[-1] + rng.randint(1, 6))
    rngs = [[cuts[k], cuts[k + 1]] for k in range(n)]
    r = rng.random()
    if r < 0.15:       # gap
        k = rng.randrange(1, n)
        for j in range(k, n):
            rngs[j][0] += 1
            rngs[j][1] += 1
    elif r < 0.3:      # overlap / duplicate
        k = rng.randrange(n)
        rngs.append(list(rngs[k]) if rng.random() < 0.5 else [rngs[k][0], rngs[k][1] + 1])
    elif r < 0.4:      # missing part
        if n > 2:
            del rngs[rng.randrange(1, n - 1)]
    flats = [[1, 1, a, b, a + off, b + off] for a, b in rngs]
    r = rng.random()
    if r < 0.1:
        flats[rng.randrange(len(flats))][0] = 2
    elif r < 0.2:
        flats[rng.randrange(len(flats))][1] = 2
    rng.shuffle(flats)
    return flats


# --------------------------------------------------------------------------
# consolidators
# --------------------------------------------------------------------------
def descriptor(dshape):
    return {"data_keys": {"k": {"shape": list(dshape), "dtype": "array" if len(dshape) else "number", "dtype_numpy": "<f8",
                                "external": "STREAM:", "object_name": "obj"}},
            "uid": "desc-1"}


def make_consolidator(p, variant):
    """the ways the repository builds consolidators: stream-resource parameters / attributes set after construction (tests) /
    class defaults through consolidator_factory"""
    from bluesky.consolidators import ConsolidatorBase, HDF5Consolidator, consolidator_factory
    params = {"chunk_shape": tuple(p["cshape"])}
    if p["mult"]:
        params["multiplier"] = p["mult"]
    sres = {"data_key": "k", "uri": "file://localhost/data/f", "uid": "sres-1", "parameters": params}
    desc = descriptor(p["dshape"])
    if variant == "base-params":
        sres["mimetype"] = "application/octet-stream"
        params.update(join_method=p["join"], join_chunks=p["jchunks"])
        return ConsolidatorBase(sres, desc)
    if variant == "hdf5-attrs":
        sres["mimetype"] = "application/x-hdf5"
        params.update(dataset="entry/data/k", swmr=True)
        cons = HDF5Consolidator(sres, desc)
        cons.join_method = p["join"]
        cons.join_chunks = p["jchunks"]
        return cons
    if variant == "factory-defaults":       # CSV: concat / join_chunks False ; HDF5: concat / join_chunks True
        assert p["join"] == "concat"
        if p["jchunks"]:
            sres["mimetype"] = "application/x-hdf5"
            params.update(dataset="entry/data/k")
        else:
            sres["mimetype"] = "text/csv;header=absent"
        return consolidator_factory(sres, desc)
    if variant == "tiff":
        sres["mimetype"] = "multipart/related;type=image/tiff"
        params.update(template="img_{:05d}.tif", join_method=p["join"], join_chunks=p["jchunks"])
        return consolidator_factory(sres, desc)
    raise ValueError(variant)


def variants_for(p):
    v = ["base-params", "hdf5-attrs"]
    if p["join"] == "concat":
        v.append("factory-defaults")
    return v


def observe_cons(p, flats, variant):
    """-> dict(raised, shape, chunks, map)"""
    cons = make_consolidator(p, variant)
    for n, f in enumerate(flats):
        cons.consume_stream_datum(datum_doc(f, n))
    o = {"raised": "", "shape": [], "chunks": [], "map": sorted([int(s), int(i)] for s, i in cons._seqnums_to_indices_map.items())}
    try:
        o["shape"] = [int(x) for x in cons.shape]
    except Exception as ex:  # noqa: BLE001
        o["raised"], o["exc"] = "shape", type(ex).__name__
        return o
    try:
        st = cons.structure() if variant != "hdf5-attrs" else cons.get_data_source().structure
        o["chunks"] = [[int(x) for x in c] for c in st.chunks]
        if [int(x) for x in st.shape] != o["shape"]:
            o["raised"], o["exc"] = "structure-shape", "mismatch"
    except Exception as ex:  # noqa: BLE001
        o["raised"], o["exc"] = "chunks", type(ex).__name__
    return o


def par_sig(p):
    return (f"{p['join']}:jc={int(p['jchunks'])}:dshape={tuple(p['dshape'])}:cshape={tuple(p['cshape'])}:mult={p['mult']}")


def random_cons(rng):
    nd = rng.choice([0, 1, 1, 2, 2, 3])
    dshape = [rng.choice([1, 1, 2, 3, 5, 7, 10, 16]) for _ in range(nd)]
    p = {"join": rng.choice(["stack", "concat"]), "jchunks": rng.random() < 0.5, "dshape": dshape,
         "mult": rng.choice([0, 0, 1, 2, 3, 5, 7]), "cshape": []}
    # number of dimensions of the consolidated array (documented: multiplier becomes the leading datum dimension)
    ds = list(dshape)
    m = p["mult"]
    if m:
        ds = [m] if not ds else (ds if ds[0] == m else ([m] + ds[1:] if ds[0] == 1 else [m] + ds))
    ndim = len(ds) + (1 if p["join"] == "stack" or not ds else 0)
    p["cshape"] = [rng.randint(1, 20) for _ in range(rng.randint(0, ndim))]
    flats = []
    pos = 0
    for _ in range(rng.randint(0, 8)):
        n = rng.randint(1, 5)
        flats.append([1, 1, pos, pos + n, pos + 1, pos + n + 1])
        pos += n
    if rng.random() < 0.5:
        rng.shuffle(flats)        # the datums of a stream consumed in another order than that of their indices
    variant = rng.choice(variants_for(p))
    if ds and p["cshape"] and (p["join"] == "stack" or ds[0] % p["cshape"][0] == 0) and rng.random() < 0.35:
        variant = "tiff"
    elif ds and not p["cshape"] and rng.random() < 0.1:
        variant, p["cshape"] = "tiff", [1]          # a multi-file consolidator defaults to one frame per file
    return p, flats, variant


# --------------------------------------------------------------------------
def run(ctx):
    rng = random.Random(ctx.seed)
    J = jopts(ctx)
    tier = "small" if ctx.quick else "large"
    for f in glob.glob(str(ctx.out / "cases_*")):
        os.remove(f)
    W = min(4, int(os.environ.get("VERIF_TLC_WORKERS", 4))) if ctx.quick else "auto"
    # random larger inputs through the implementation (recorded first, validated by TLC in parallel with the model checking)
    rec, rmeta = [], []
    for i in range(400 if ctx.quick else 6000):
        flats = random_concat(rng)
        acc, out, err = run_concat(flats)
        if err:
            ctx.violation(f"concat-exc:{concat_sig(flats)}", f"concatenate_stream_datums failed on {flats}: {err}", {"docs": flats})
            continue
        rec.append({"kind": "concat", "par": NOPAR, "docs": flats, "acc": acc, "out": out, "raised": "", "shape": [], "chunks": [], "map": []})
        rmeta.append(("concat", concat_sig(flats)))
    for i in range(400 if ctx.quick else 6000):
        p, flats, variant = random_cons(rng)
        try:
            o = observe_cons(p, flats, variant)
        except Exception as ex:  # noqa: BLE001 -- construction / consumption must not fail on valid parameters
            ctx.violation(f"cons-exc:{variant}:{type(ex).__name__}:{par_sig(p)}", f"{variant} consolidator failed for {p} consuming {flats}: {ex!r}",
                          {"par": p, "docs": flats, "variant": variant})
            continue
        rec.append({"kind": "cons", "par": p, "docs": flats, "acc": False, "out": [], "raised": o["raised"], "shape": o["shape"],
                    "chunks": o["chunks"], "map": o["map"]})
        rmeta.append((variant, par_sig(p) + (":" + o["exc"] if o["raised"] else "")))
    tf = ctx.out / "observed.ndjson"
    with open(tf, "w") as fh:
        for r in rec:
            fh.write(json.dumps(r) + "\n")
    with ThreadPoolExecutor(3) as ex:
        fa = ex.submit(run_tlc, "StreamDatum", f"StreamDatum_concat_{tier}.cfg", spec_dir=SD, env={"CASES_OUT": ctx.out / "cases_concat"},
                       tag="C36a", timeout=3000, java_opts=J, workers=W)
        fb = ex.submit(run_tlc, "StreamDatum", f"StreamDatum_cons_{tier}.cfg", spec_dir=SD, env={"CASES_OUT": ctx.out / "cases_cons"},
                       tag="C36b", timeout=3000, java_opts=J, workers=W)
        ft = ex.submit(run_tlc, "StreamDatumTrace", "StreamDatumTrace.cfg", spec_dir=SD, env={"TRACE_FILE": tf}, tag="C36t", timeout=3000,
                       extra=["-continue"], java_opts=J, workers=2)
        ra, rb, tres = fa.result(), fb.result(), ft.result()
    ctx.add_tlc(ra, f"StreamDatum concat exhaustive ({tier})")
    ctx.add_tlc(rb, f"StreamDatum consolidator exhaustive ({tier})")
    for name, r in (("concat", ra), ("cons", rb)):
        if not r.ok:
            st = r.trace[-1][1] if r.trace else {}
            ctx.violation(f"spec:{name}:{r.violated}", f"StreamDatum.tla ({name}) invariant {r.violated} violated on the specification itself: "
                          f"par={st.get('par')} docs={st.get('docs')}", {"tlc_trace": str(r.trace)[:2000]})
            return
    if not ctx.quick:      # the finding's signature must stay reachable in the model (violated on purpose)
        rk = run_tlc("StreamDatum", "StreamDatum_kfreach.cfg", spec_dir=SD, tag="C36k", timeout=600, java_opts=J, workers=2)
        ctx.add_tlc(rk, "reachability of the finding's signature in the model")
        if rk.ok:
            ctx.note("the scalar / per-datum signature is no longer reachable in StreamDatum.tla")
    ctx.cov["exhaustive"] = True
    ctx.rule = ("concat: every sequence of datums of the bounded domain (any order, repeats, one foreign descriptor/resource) replayed on "
                "concatenate_stream_datums; cons: every (join, join_chunks, descriptor shape, chunk_shape, multiplier, consumed datums) replayed on "
                "ConsolidatorBase (parameters), HDF5Consolidator (attributes, as the tests do) and the factory defaults (CSV/HDF5); distinct = "
                "distinct (function/variant, input); non-trivial = concat of >= 2 datums / consolidator that consumed something; plus random "
                "larger inputs (also TIFF) validated by TLC")
    # ---- replay: concat -----------------------------------------------------------------------------------
    n_concat = 0
    for f in sorted(glob.glob(str(ctx.out / "cases_concat.*"))):
        for ln in open(f):
            c = json.loads(ln)
            n_concat += 1
            flats = c["docs"]
            acc, out, err = run_concat(flats)
            ctx.case(("concat", json.dumps(flats)), len(flats) > 1)
            if err:
                ctx.violation(f"concat-exc:{concat_sig(flats)}", f"concatenate_stream_datums failed on {flats}: {err}", {"docs": flats})
            elif acc != c["acc"]:
                ctx.violation(f"concat-accept:{concat_sig(flats)}",
                              f"concatenate_stream_datums {'accepted' if acc else 'rejected'} {flats}; the specification says "
                              f"{'accept' if c['acc'] else 'reject'}", {"docs": flats, "expected_accept": c["acc"], "got": out})
            elif acc and out != (c["out"] if len(flats) > 1 else flats[0]):
                ctx.violation(f"concat-result:{concat_sig(flats)}", f"concatenate_stream_datums({flats}) = {out}, specified {c['out']}",
                              {"docs": flats, "expected": c["out"], "got": out})
            elif acc and len(flats) >= 3 and n_concat % 1500 == 0:
                ctx.sample({"concat": flats, "result": out})
    if not n_concat:
        ctx.machinery("StreamDatum.tla dumped no concat cases")
    # ---- replay: consolidators ----------------------------------------------------------------------------
    n_cons = 0
    extra = []       # observations at the finding's signature that did not raise: judged by TLC below
    for f in sorted(glob.glob(str(ctx.out / "cases_cons.*"))):
        for ln in open(f):
            c = json.loads(ln)
            n_cons += 1
            p, flats = c["par"], c["docs"]
            for variant in variants_for(p):
                ctx.case((variant, par_sig(p), len(flats), json.dumps(flats)), len(flats) > 0)
                try:
                    o = observe_cons(p, flats, variant)
                except Exception as ex:  # noqa: BLE001
                    ctx.violation(f"cons-exc:{variant}:{type(ex).__name__}:{par_sig(p)}", f"{variant} consolidator failed for {p} consuming {flats}: {ex!r}",
                                  {"par": p, "docs": flats, "variant": variant})
                    continue
                exp_map = sorted(c["map"])
                if o["raised"]:
                    if c["kf"] and o["raised"] == "chunks":
                        ctx.violation(f"kf:scalar-perdatum:{o['exc']}:{variant}",
                                      f"{variant}: chunks raises {o['exc']} for a scalar datum with concat, join_chunks=False, chunk_shape={p['cshape']}",
                                      {"par": p, "docs": flats, "variant": variant})
                    else:
                        ctx.violation(f"cons-raises:{o['raised']}:{o.get('exc')}:{variant}:{par_sig(p)}",
                                      f"{variant}: .{o['raised']} raised {o.get('exc')} for {p} after consuming {flats}",
                                      {"par": p, "docs": flats, "variant": variant})
                    if o["map"] != exp_map:
                        ctx.violation(f"cons-map:{variant}:{par_sig(p)}", f"{variant}: seq_num->row map {o['map']} != specified {exp_map}",
                                      {"par": p, "docs": flats, "variant": variant})
                    continue
                if c["kf"]:
                    extra.append(({"kind": "cons", "par": p, "docs": flats, "acc": False, "out": [], "raised": "", "shape": o["shape"],
                                   "chunks": o["chunks"], "map": o["map"]}, (variant, par_sig(p))))
                    continue
                for what, got, exp in (("shape", o["shape"], c["shape"]), ("chunks", o["chunks"], c["chunks"]), ("map", o["map"], exp_map)):
                    if got != exp:
                        ctx.violation(f"cons-{what}:{variant}:{par_sig(p)}:rows={c['rows']}",
                                      f"{variant}: {what} = {got} but the specification gives {exp} for {p} after consuming {flats}",
                                      {"par": p, "docs": flats, "variant": variant, "got": got, "expected": exp})
                if n_cons % 3000 == 0 and variant == "base-params":
                    ctx.sample({"par": p, "consumed": flats, "shape": o["shape"], "chunks": o["chunks"]})
    if not n_cons:
        ctx.machinery("StreamDatum.tla dumped no consolidator cases")
    ctx.note(f"replayed {n_concat} concat cases and {n_cons} consolidator cases (x variants)")
    if extra:      # only on a tree where the finding no longer reproduces
        tf2 = ctx.out / "observed_kfpoint.ndjson"
        with open(tf2, "w") as fh:
            for r, _ in extra:
                fh.write(json.dumps(r) + "\n")
        r2 = run_tlc("StreamDatumTrace", "StreamDatumTrace.cfg", spec_dir=SD, env={"TRACE_FILE": tf2}, tag="C36u", timeout=3000,
                     extra=["-continue"], java_opts=J, workers=2)
        ctx.add_tlc(r2, "StreamDatumTrace (replayed cases at the finding's signature)")
        judge_trace(ctx, r2, [r for r, _ in extra], [m for _, m in extra], "replay")
    # ---- random larger inputs judged by TLC ---------------------------------------------------------------
    ctx.add_tlc(tres, "StreamDatumTrace")
    for (variant, sig), r in zip(rmeta, rec):
        ctx.case(("rnd", variant, sig, json.dumps(r["docs"])), len(r["docs"]) > (1 if variant == "concat" else 0))
    nbad = judge_trace(ctx, tres, rec, rmeta, "trace")
    ctx.traces(len(rec) - nbad)
    for f in glob.glob(str(ctx.out / "cases_*")):       # the dumps are large in the thorough tier
        os.remove(f)
    ctx.assumptions += [
        "stream datums have non-empty ranges and seq_nums advance in step with indices (seq = index + constant) within one stream "
        "resource, as the RunEngine emits them; datum sets whose seq_nums have gaps while indices are contiguous are outside the domain",
        "chunk_shape names no more dimensions than the consolidated array has (otherwise ValueError is documented)",
        "the datum shape with a multiplier follows ConsolidatorBase.__init__ (undocumented elsewhere): the multiplier replaces a leading 1 "
        "or is prepended; consumed datums are contiguous from index 0",
        "the seq_num->row map is read from the private attribute _seqnums_to_indices_map (there is no public accessor)",
    ]


def judge_trace(ctx, tres, rec, rmeta, origin):
    """turn the verdicts of a StreamDatumTrace run into violations / known findings; returns number of records not accepted cleanly"""
    bad = {}
    if not tres.ok:
        if tres.kind != "invariant":
            ctx.machinery(f"StreamDatumTrace failed: {tres.violated}\n{tres.stdout[-1500:]}")
        bad = violating_cases(tres.stdout)
        if not bad:
            ctx.machinery(f"StreamDatumTrace reported {tres.violated} but no case could be identified\n{tres.stdout[-1500:]}")
    for k, inv in sorted(bad.items()):
        r, (variant, sig) = rec[k - 1], rmeta[k - 1]
        if r["kind"] == "concat":
            ctx.violation(f"concat-{origin}:{inv}:{sig}", f"concatenate_stream_datums({r['docs']}) -> accepted={r['acc']} {r['out']} violates {inv}",
                          {"docs": r["docs"], "accepted": r["acc"], "got": r["out"], "violated": inv})
        else:
            ctx.violation(f"cons-{origin}:{inv}:{variant}:{sig}",
                          f"{variant} consolidator {r['par']} after consuming {r['docs']}: shape={r['shape']} chunks={r['chunks']} map={r['map']} "
                          f"raised={r['raised']!r} violates {inv}", {"par": r["par"], "docs": r["docs"], "variant": variant, "observed": r, "violated": inv})
    kf = set()
    for m in re.finditer(r'<<"KF", (\d+), "scalar-perdatum">>', tres.stdout):
        k = int(m.group(1))
        if k in kf:
            continue
        kf.add(k)
        r, (variant, sig) = rec[k - 1], rmeta[k - 1]
        ctx.violation(f"kf:scalar-perdatum:{sig.rsplit(':', 1)[-1]}:{variant}",
                      f"{variant}: chunks raises for a scalar datum with concat, join_chunks=False, chunk_shape={r['par']['cshape']}",
                      {"par": r["par"], "docs": r["docs"], "variant": variant})
    return len(set(bad) | kf)
