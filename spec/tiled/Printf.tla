------------------------------- MODULE Printf -------------------------------
(***************************************************************************)
(* C37 -- file-name templates expand like printf.                          *)
(*                                                                         *)
(* C semantics (ISO C fprintf, conversion d) of  %[-+ #0]*[width][.prec]d  *)
(* applied to a NON-NEGATIVE integer, written down from the standard's     *)
(* clauses, on strings represented as sequences of ASCII codes:            *)
(*   precision  minimum number of digits, padded with leading zeros;       *)
(*              value 0 with precision 0 gives no characters               *)
(*   +          a sign is always produced;  space: a space is prefixed if  *)
(*              no sign is produced; + overrides space                     *)
(*   -          left-justified in the field (overrides 0)                  *)
(*   0          leading zeros (after the sign) pad to the field width; it  *)
(*              is ignored when a precision is given or - is present       *)
(*   #          no effect on d (undefined in ISO C; glibc/python ignore it)*)
(*   width      minimum field width, padded with spaces                    *)
(* NONE (99) stands for an absent width / precision.                       *)
(*                                                                         *)
(* TLC enumerates every (flag subset, width, precision >= width, index) of *)
(* the bounded domain, checks the invariants (each one a clause of the     *)
(* standard, stated independently of CFormat) and dumps every case with    *)
(* the expected string; the harness expands the same template through the  *)
(* real multi-file consolidator and compares the file names exactly.       *)
(*                                                                         *)
(* Open findings (DESIGN.md section 8): the as-found int_replacer deviates *)
(* in four template classes.  AsFound(D, ...) gives, for every set D of    *)
(* those defects, the string the defective code produces; a mismatch is    *)
(* attributed to a known finding only if the implementation's output       *)
(* equals exactly that string.                                             *)
(***************************************************************************)
EXTENDS Naturals, Sequences, SequencesExt, FiniteSets, TLC, Json, IOUtils

CONSTANTS MaxW,        \* widths 1..MaxW, precisions up to MaxW
          Indices      \* frame indices (non-negative, < 2^31)

NONE == 99
AllFlags == {"-", "+", " ", "#", "0"}
ZERO == 48
PLUS == 43
SPACE == 32

VARIABLES flags, width, prec, n, out
vars == <<flags, width, prec, n, out>>

----------------------------------------------------------------------------
RECURSIVE Digits(_)
Digits(k) == IF k < 10 THEN <<ZERO + k>> ELSE Append(Digits(k \div 10), ZERO + (k % 10))

Rep(c, k) == [i \in 1..k |-> c]
Max2(a, b) == IF a > b THEN a ELSE b

\* digit string under a precision
Body(p, k) ==
    LET d == IF p = 0 /\ k = 0 THEN <<>> ELSE Digits(k)
        pad == IF p # NONE /\ p > Len(d) THEN p - Len(d) ELSE 0
    IN Rep(ZERO, pad) \o d

Sign(f) == IF "+" \in f THEN <<PLUS>> ELSE IF " " \in f THEN <<SPACE>> ELSE <<>>

CFormat(f, w, p, k) ==
    LET body == Body(p, k)
        sg == Sign(f)
        len == Len(sg) + Len(body)
        padn == IF w # NONE /\ w > len THEN w - len ELSE 0
    IN IF "-" \in f THEN sg \o body \o Rep(SPACE, padn)
       ELSE IF "0" \in f /\ p = NONE THEN sg \o Rep(ZERO, padn) \o body
       ELSE Rep(SPACE, padn) \o sg \o body

----------------------------------------------------------------------------
(* The as-found template conversion (consolidators.py int_replacer), only   *)
(* where it departs from C.  Each defect is one decision of the code:       *)
(*   raises    a precision without a width is copied into a new-style spec  *)
(*             "{:.Pd}", which str.format rejects for integers              *)
(*   strmax    width and precision are compared as strings                  *)
(*   signlost  with width and precision all flags are replaced by "0"       *)
(*   leftzero  "-" and "0" become "<" plus "0", python then fills with 0    *)
(*             on the right                                                 *)
RECURSIVE LexGreater(_, _)
LexGreater(a, b) ==    \* string comparison a > b
    IF a = <<>> THEN FALSE
    ELSE IF b = <<>> THEN TRUE
    ELSE IF Head(a) # Head(b) THEN Head(a) > Head(b)
    ELSE LexGreater(Tail(a), Tail(b))
StrMax(w, p) == IF LexGreater(Digits(w), Digits(p)) THEN w ELSE p

Applicable(f, w, p) ==
    (IF w = NONE /\ p # NONE THEN {"raises"} ELSE {})
    \cup (IF w # NONE /\ p # NONE /\ Sign(f) # <<>> THEN {"signlost"} ELSE {})
    \cup (IF w # NONE /\ p # NONE /\ StrMax(w, p) # Max2(w, p) THEN {"strmax"} ELSE {})
    \cup (IF w # NONE /\ p = NONE /\ {"-", "0"} \subseteq f THEN {"leftzero"} ELSE {})

RAISES == <<0>>       \* stands for "an exception instead of a string" (no string contains code 0)

AsFound(D, f, w, p, k) ==
    IF "raises" \in D THEN RAISES
    ELSE IF w # NONE /\ p # NONE THEN
        LET P == IF "strmax" \in D THEN StrMax(w, p) ELSE Max2(w, p)
            sg == IF "signlost" \in D THEN <<>> ELSE Sign(f)
            d == Digits(k)
        IN sg \o Rep(ZERO, IF P > Len(d) THEN P - Len(d) ELSE 0) \o d
    ELSE IF "leftzero" \in D THEN
        LET body == Digits(k)
            sg == Sign(f)
            len == Len(sg) + Len(body)
        IN sg \o body \o Rep(ZERO, IF w > len THEN w - len ELSE 0)
    ELSE CFormat(f, w, p, k)

\* the alternatives that differ from C for this input
Alts(f, w, p, k) ==
    {[d |-> D, out |-> AsFound(D, f, w, p, k)] :
        D \in {X \in SUBSET Applicable(f, w, p) : X # {} /\ AsFound(X, f, w, p, k) # CFormat(f, w, p, k)}}

----------------------------------------------------------------------------
Widths == {NONE} \cup 1..MaxW
Precs(w) == {NONE} \cup (IF w = NONE THEN 0..MaxW ELSE w..MaxW)     \* the property: precision no smaller than the width

Init == /\ flags \in SUBSET AllFlags
        /\ width \in Widths
        /\ prec \in Precs(width)
        /\ n \in Indices
        /\ out = CFormat(flags, width, prec, n)
Next == UNCHANGED vars
Spec == Init /\ [][Next]_vars

----------------------------------------------------------------------------
(* Clauses of the standard as invariants on `out`.                          *)
IsDigit(c) == c \in ZERO..(ZERO + 9)
DigitPosOf(s) == {i \in 1..Len(s) : IsDigit(s[i])}
RECURSIVE ValueOf(_, _, _)
ValueOf(s, i, acc) == IF i > Len(s) THEN acc
                      ELSE ValueOf(s, i + 1, IF IsDigit(s[i]) THEN 10 * acc + (s[i] - ZERO) ELSE acc)
MinOf(S) == CHOOSE i \in S : \A j \in S : i <= j
MaxOf(S) == CHOOSE i \in S : \A j \in S : i >= j
NDig == Len(Digits(n))

\* only digits, '+' and ' ' ever appear, and the digits read back as the value
I_Alphabet == \A i \in 1..Len(out) : IsDigit(out[i]) \/ out[i] \in {PLUS, SPACE}
I_Value == ValueOf(out, 1, 0) = n /\ (DigitPosOf(out) = {} => n = 0 /\ prec = 0)
\* the digits are contiguous (padding zeros sit directly in front of the number)
I_DigitsContiguous == LET dp == DigitPosOf(out) IN dp = {} \/ dp = MinOf(dp)..MaxOf(dp)
I_MinWidth == width # NONE => Len(out) >= width
I_Precision == prec # NONE => Cardinality(DigitPosOf(out)) >= prec
\* nothing is padded beyond what width / precision / sign demand
I_ExactLength ==
    LET nd == IF prec = NONE THEN NDig ELSE IF prec = 0 /\ n = 0 THEN 0 ELSE Max2(prec, NDig)
        need == nd + Len(Sign(flags))
    IN Len(out) = IF width = NONE THEN need ELSE Max2(width, need)
I_Sign ==
    LET dp == DigitPosOf(out)
        first == MinOf(dp)
        plus == {i \in 1..Len(out) : out[i] = PLUS}
    IN /\ "+" \in flags => Cardinality(plus) = 1
                           /\ (dp # {} => first > 1 /\ out[first - 1] = PLUS)
       /\ "+" \notin flags => plus = {}
       /\ ("+" \notin flags /\ " " \in flags /\ dp # {}) => first > 1 /\ out[first - 1] = SPACE
I_LeftJustify ==
    LET dp == DigitPosOf(out)
    IN /\ ("-" \in flags /\ Len(out) > 0) => (IsDigit(out[1]) \/ out[1] = PLUS \/ (" " \in flags /\ "+" \notin flags))
       /\ ("-" \in flags /\ dp # {}) => MinOf(dp) <= 2
       /\ ("-" \notin flags /\ dp # {}) => MaxOf(dp) = Len(out)
\* zero padding to the width only with 0, without - and without a precision
I_ZeroFlag ==
    LET dp == DigitPosOf(out)
    IN (prec = NONE /\ dp # {}) =>
        (Cardinality(dp) > NDig <=> ("0" \in flags /\ "-" \notin flags /\ width # NONE /\ width > NDig + Len(Sign(flags))))
I_HashIrrelevant == out = CFormat(flags \ {"#"}, width, prec, n)
\* in the property's domain (precision >= width) a template with both is sign + zero-padded digits
I_PrecGeWidth == (width # NONE /\ prec # NONE) => out = CFormat(flags \cap {"+", " "}, NONE, prec, n)

\* the defect signatures stay reachable / meaningful: every alternative differs from C
I_AltsDiffer == \A a \in Alts(flags, width, prec, n) : a.out # out

----------------------------------------------------------------------------
Case(f, w, p, k) == [flags |-> SetToSeq(f), width |-> w, prec |-> p, n |-> k, out |-> CFormat(f, w, p, k),
                     alts |-> SetToSeq({[d |-> SetToSeq(a.d), out |-> a.out] : a \in Alts(f, w, p, k)})]
DumpCases ==
    TLCGet("stats").generated >= 0 /\ ndJsonSerialize(IOEnv.CASES_OUT,
        SetToSeq({Case(c[1], c[2], c[3], c[4]) :
                  c \in {x \in (SUBSET AllFlags) \X Widths \X ({NONE} \cup 0..MaxW) \X Indices : x[3] \in Precs(x[2])}}))
=============================================================================
