CONSTANTS
  MaxAxes = 4
  MaxLen = 4
  MaxTotal = 256
SPECIFICATION Spec
INVARIANT Permutation
INVARIANT UnsnakedProductOrder
INVARIANT SnakedReverses
INVARIANT Continuous
INVARIANT FastestChanged
POSTCONDITION DumpCases
