"""C24 -- relative moves are offsets from the start and are undone at the end.

Wrapper level: spec/wrappers/Paired.tla specifies relative_set_wrapper (every set on an eligible device becomes
initial position + offset, the initial position being obtained once, before the first set: locate / .position / read)
and reset_positions_wrapper (try: plan  finally: set every touched device back to its initial position; not when
closed) between a driver and an environment plan, with the true device positions as environment state.  TLC checks
C24_OffsetFromInitial / C24_ResetToInitial / C24_NoResetOnClose for all behaviours within the bound (2 motors, small
integer positions and offsets, failure / RequestStop / RequestAbort / close at every step); every behaviour is replayed
through the real wrappers and a literal reference; random chains (reset(relative(plan)) and others) under a scripted
driver and on a real RunEngine with fake Locatable / .position / read-based motors are validated by TLC, device
ledgers included.
Plan level: rel_set, mvr, rel_list_scan, rel_scan, rel_grid_scan are executed with a fault of every kind at every
message index (scripted engine) and on a real RunEngine (failing motor, pause + abort / stop / halt); the set commands
and final device positions are judged by TLC against the trajectory computed in spec/wrappers/RelMon.tla.
"""
import copy
import json
import random
import re
import gc
import sys

from harness import wrapproto as wp
from harness.core import MachineryError
from harness.tlc import run_tlc, SPEC

SD = SPEC / "wrappers"
DESIGN_REF = "DESIGN.md section 7 (C24); notes/C24.md"
LEVEL_TEXT = ("bounded-exhaustive TLC on the reference semantics of relative_set_wrapper / reset_positions_wrapper with true device "
              "positions as environment + conformance (replay of every TLC behaviour, random chains, real RunEngine with ledgers); "
              "rel_set / mvr / rel_list_scan / rel_scan / rel_grid_scan executed with a fault at every message index and on a real "
              "RunEngine, set commands and final positions judged by TLC against the trajectory computed in RelMon.tla")
TECHNIQUE = ("TLA+ reference semantics of relative_set / reset_positions with true device positions as environment, exhaustive "
             "TLC; replay through the real wrappers; batch trace validation (scripted driver, real RunEngine, ledgers); "
             "plan-level set sequences of the rel_* plans under a fault at every message index judged by TLC (RelMon)")
C24_INVS = ["C24_OffsetFromInitial", "C24_ResetToInitial", "C24_NoResetOnClose", "C23_NoCleanupOnClose"]
KINDS = set(wp.REL_KINDS)


def replay_plans(quick):
    base = {"PRaise": {"ErrI"}, "CatchThrow": True, "MisbehaveClose": False, "AsCoded": True, "Styles": {"self"},
            "Forests": "<- FTwo", "DevLists": "<- ListsRel", "Kinds": set(KINDS)}
    if quick:
        return [dict(base, MaxOps=4, PMsgs=2, Thrown={"Err", "Abort"}, PosKinds={"locate", "attr", "read"},
                     Positions="<- PosOne", Offsets="<- OffOne")]
    return [dict(base, MaxOps=5, PMsgs=2, Thrown={"Err", "Stop", "Abort"}, PosKinds={"locate", "attr", "read"},
                 Positions="<- PosOne", Offsets="<- OffSmall", MisbehaveClose=True),
            dict(base, MaxOps=4, PMsgs=2, Thrown={"Abort"}, PosKinds={"locate"}, Positions="<- PosLarge", Offsets="<- OffLarge")]


def run(ctx):
    old_hook = sys.unraisablehook
    sys.unraisablehook = lambda *a: None
    try:
        wp.run_paired(ctx, "C24", "Paired_C24_small.cfg" if ctx.quick else "Paired_C24_large.cfg", KINDS, C24_INVS,
                      replay_plans(ctx.quick), wp.REL_KINDS + wp.REL_KINDS + ("run", "stage", "lazy_stage"), {}, {})
        plan_level(ctx)
    finally:
        gc.collect()                 # left-over generators are finalised while the hook is still silenced
        sys.unraisablehook = old_hook
    ctx.assumptions += [
        "CPython generator semantics; positions and offsets are small integers (the arithmetic is exact)",
        "motors are protocol-only fakes: Locatable, with a .position attribute, or read-based; no pseudo-positioners "
        "(coupled axes of _normalize_devices are not exercised)",
        "'ends with cleanup' = the plan returns or an exception (error, RequestStop, RequestAbort) is thrown into it; a "
        "fault thrown at the reset commands themselves aborts the rest of the reset, as in Python's finally",
        "plan level: consecutive commands of one motor to the same position are not distinguished (a step that does not "
        "move a motor may or may not command it again)",
    ]


# the plan-level domain: (plan, per-motor arguments, num); offsets / positions small integers, last offset never 0
PLAN_CASES = [
    ("rel_set", [[2]], 0), ("rel_set", [[-1]], 0),
    ("mvr", [[2], [-1]], 0), ("mvr", [[-2]], 0),
    ("rel_list_scan", [[1, 2]], 0), ("rel_list_scan", [[1, 2, -1], [-1, 1, 2]], 0), ("rel_list_scan", [[2, 2, 1]], 0),
    ("rel_scan", [[-1, 1]], 3), ("rel_scan", [[-1, 1], [1, 3]], 3), ("rel_scan", [[2, -2]], 2),
    ("rel_grid_scan", [[-1, 1, 2], [1, 2, 2]], 0), ("rel_grid_scan", [[1, 2, 2], [-1, 1, 3]], 0),
]


def plan_level(ctx):
    rng = random.Random(ctx.seed + 1)
    cases = []
    todo = PLAN_CASES if not ctx.quick else [PLAN_CASES[k] for k in (0, 2, 5, 8, 10)]
    for k, (name, args, num) in enumerate(todo):
        pks = ["locate", "attr", "read"] if not ctx.quick else [["locate", "attr", "read"][k % 3]]
        for pk in pks:
            p0s = [[1, -2], [-2, 2]] if not ctx.quick else [[1, -2]]
            for p0 in p0s:
                cases += wp.rel_lite_cases(name, pk, p0, args, num)
    n_lite = len(cases)
    for _ in range(40 if ctx.quick else 1500):
        name, args, num = rng.choice(PLAN_CASES)
        cases.append(wp.rel_re_case(name, rng.choice(["locate", "attr", "read"]), [rng.randint(-2, 2), rng.randint(-2, 2)], args, num, rng))
    for k, c in enumerate(cases):
        c["id"] = k
    tf = ctx.out / "rel_cases.ndjson"
    tf.write_text("\n".join(json.dumps(c) for c in cases) + "\n")
    res = run_tlc("RelMon", "RelMon.cfg", spec_dir=SD, env={"TRACE_FILE": tf}, tag="C24m", timeout=3000)
    ctx.add_tlc(res, f"RelMon ({n_lite} scripted-engine cases, {len(cases) - n_lite} RunEngine cases)")
    for c in cases:
        ctx.case(("plan", c["plan"], c["pk"], json.dumps([c["args"], c["num"], c["init"], c["sets"], c["ending"]])),
                 c["ending"] != "return")
    if res.ok:
        ctx.traces(len(cases))
        ctx.sample({k: cases[n_lite - 1][k] for k in ("plan", "args", "init", "sets", "ending")})
    else:
        st = res.trace[-1][1].get("c", {}) if res.trace else {}
        m = re.search(r"\bid \|-> (\d+)", res.stdout)
        c = cases[st["id"]] if isinstance(st, dict) and "id" in st else (cases[int(m.group(1))] if m else {})
        ctx.violation(f"plan:{res.violated}:{c.get('plan')}:{c.get('pk')}:ending={c.get('ending')}",
                      f"{res.violated} violated by {c.get('plan')} args={c.get('args')} num={c.get('num')} motors={c.get('pk')} "
                      f"initial={c.get('init')}: set commands {c.get('sets')} final positions {c.get('final')} ending {c.get('ending')}",
                      {"case": c})
    if not ctx.quick:
        # binding self-check: a corrupted case must violate the monitors
        bad = copy.deepcopy(next(c for c in cases if c["plan"] == "rel_list_scan" and c["ending"] == "return"))
        bad["sets"][1][1] += 1
        tf2 = ctx.out / "rel_bad.ndjson"
        tf2.write_text(json.dumps(bad) + "\n")
        r2 = run_tlc("RelMon", "RelMon.cfg", spec_dir=SD, env={"TRACE_FILE": tf2}, tag="C24b", timeout=600)
        if r2.ok:
            raise MachineryError("a corrupted plan-level case was accepted by RelMon (binding broken)")
