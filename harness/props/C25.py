"""C25 -- step scans visit exactly the documented trajectory.

spec/patterns/Scans.tla defines, in exact rationals, the documented trajectory (linspace / inner product / outer
product in row-major order with the requested snaking, using C26's Snake order), the per-point message skeleton
(checkpoint . set* . wait . trigger . wait . create . read* . save) and the metadata (num_points, shape, extents).
TLC checks the property's invariants on every case of the bounded domain and dumps one row per case; every row is
replayed through the real plans (scan, inner_product_scan, list_scan, grid_scan, list_grid_scan, scan_nd, log_scan,
x2x_scan) by consuming their message streams; message streams of larger random cases (hand-driven, and on a real
RunEngine with ophyd.sim devices) are validated event by event by TLC against ScansTrace.tla.
"""
import json
import math
import random
from fractions import Fraction

from harness.pattern_helpers import Det, Mot, cheap_plan_stacks, close, drive, float_to_rat, frac, last_state, rat
from harness.tlc import SPEC, run_tlc
from harness.tracecheck import validate_traces

SD = SPEC / "patterns"
DESIGN_REF = "DESIGN.md section 7 (C25)"
TECHNIQUE = ("TLA+ table-like specification (exact rationals) checked exhaustively by TLC; every enumerated case replayed "
             "through the real plans' message streams; recorded streams of random larger cases validated by TLC")

KEEP = {"checkpoint", "set", "wait", "trigger", "create", "read", "save", "drop"}
INIT_X2X = (3.0, -5.0)
NBLOCKS = 64


# ----------------------------------------------------------------------------------------------- running real plans
def body(msgs):
    """(start-document metadata, messages between open_run and close_run projected to the skeleton commands)"""
    md, out, inside = None, [], False
    for m in msgs:
        if m.command == "open_run":
            md, inside = dict(m.kwargs), True
        elif m.command == "close_run":
            inside = False
        elif inside and m.command in KEEP:
            out.append(m)
    return md, out


def calls(kind, axes, snake, lin, variant=0):
    """the real-plan invocations bound to a case: list of (fn name, mdchk, builder(dets, motors) -> plan).
    axes: [(start, stop, num)] numbers as the user passes them; lin: per-axis position lists (floats)."""
    import bluesky.plans as bp
    from cycler import cycler
    n = len(axes)
    out = []
    if kind == "inner":
        num = axes[0][2]

        def flat(ms):
            a = []
            for m, (s, e, _) in zip(ms, axes):
                a += [m, s, e]
            return a

        def lists(ms):
            a = []
            for m, li in zip(ms, lin):
                a += [m, list(li)]
            return a
        out.append(("scan", "np", lambda d, ms: bp.scan(d, *flat(ms), num) if variant % 2 == 0 else bp.scan(d, *flat(ms), num=num)))
        out.append(("inner_product_scan", "np", lambda d, ms: bp.inner_product_scan(d, num, *flat(ms))))
        out.append(("list_scan", "np", lambda d, ms: bp.list_scan(d, *lists(ms))))

        def nd(d, ms):
            cy = None
            for m, li in zip(ms, lin):
                c = cycler(m, list(li))
                cy = c if cy is None else cy + c
            return bp.scan_nd(d, cy)
        out.append(("scan_nd", "np", nd))
    elif kind == "outer":
        flagged = [i for i in range(n) if snake[i]]

        def snake_arg(ms):
            if not flagged:
                return False
            if len(flagged) == n - 1 and variant % 2 == 0:
                return True
            return [ms[i] for i in flagged]

        def grid_new(d, ms):
            a = []
            for m, (s, e, k) in zip(ms, axes):
                a += [m, s, e, k]
            return bp.grid_scan(d, *a, snake_axes=snake_arg(ms))

        def grid_old(d, ms):        # deprecated form: a snake flag after every axis but the first
            a = []
            for i, (m, (s, e, k)) in enumerate(zip(ms, axes)):
                a += [m, s, e, k] + ([bool(snake[i])] if i else [])
            return bp.grid_scan(d, *a)
        out.append(("grid_scan", "grid", grid_new))
        if n > 1:
            out.append(("grid_scan", "grid", grid_old))

        def lgrid(d, ms):
            a = []
            for m, li in zip(ms, lin):
                a += [m, list(li)]
            return bp.list_grid_scan(d, *a, snake_axes=snake_arg(ms))
        out.append(("list_grid_scan", "grid", lgrid))

        def nd(d, ms):
            from bluesky.utils import snake_cyclers
            cs = [cycler(m, list(li)) for m, li in zip(ms, lin)]
            if flagged:
                return bp.scan_nd(d, snake_cyclers(cs, [bool(x) for x in snake]))
            cy = cs[0]
            for c in cs[1:]:
                cy = cy * c
            return bp.scan_nd(d, cy)
        out.append(("scan_nd", "np", nd))
    elif kind == "x2x":
        s, e, num = axes[0]
        out.append(("x2x_scan", "np", lambda d, ms: bp.x2x_scan(d, ms[0], ms[1], s, e, num)))
    elif kind == "log":
        s, e, num = axes[0]
        out.append(("log_scan", "np", lambda d, ms: bp.log_scan(d, ms[0], s, e, num)))
    return out


def groups(pat):
    g = []
    for c in pat:
        if g and g[-1][0] == c and c in ("set", "read", "trigger"):
            continue
        g.append([c])
    return [x[0] for x in g]


def compare(md, msgs, row, motors, det, init, fn, mdchk):
    """first disagreement between a real plan's stream/metadata and the row of Scans.tla, or None.
    Returns (aspect, text)."""
    pts, must, pat = row["_pts"], row["must"], row["_groups"]
    n = len(motors)
    log = row["kind"] == "log"
    scale = row["_scale"]
    idx = {id(m): i for i, m in enumerate(motors)}
    devs = {id(m) for m in motors} | {id(det)}
    k = 0
    for t, p in enumerate(pts):
        for g in pat:
            if g == "set":
                seen = set()
                while k < len(msgs) and msgs[k].command == "set":
                    m = msgs[k]
                    i = idx.get(id(m.obj))
                    if i is None:
                        return "points", f"point {t}: set on unknown object {m.obj}"
                    exp = init[i] + (10.0 ** float(p[i]) if log else float(p[i]))
                    if not close(m.args[0], exp, scale[i] + abs(init[i])):
                        return "points", f"point {t}: {motors[i].name} set to {float(m.args[0])!r}, expected {exp!r}"
                    seen.add(i)
                    k += 1
                miss = [motors[i].name for i in range(n) if must[t][i] and i not in seen]
                if miss:
                    return "points", f"point {t}: no set for {miss} (expected point {[str(x) for x in p]})"
            elif g in ("read", "trigger"):
                seen = []
                while k < len(msgs) and msgs[k].command == g:
                    seen.append(id(msgs[k].obj))
                    k += 1
                if g == "read" and (sorted(seen) != sorted(devs)):
                    return "skeleton", f"point {t}: reads {len(seen)} objects, expected each of the {n + 1} devices once"
                if g == "trigger" and (id(det) not in seen or not set(seen) <= devs or len(seen) != len(set(seen))):
                    return "skeleton", f"point {t}: triggers do not cover the detector exactly once"
            else:
                if k >= len(msgs) or msgs[k].command != g:
                    got = msgs[k].command if k < len(msgs) else "end of run"
                    return "skeleton", f"point {t}: expected '{g}' but the plan emitted '{got}' (message {k} of the run)"
                k += 1
    if k != len(msgs):
        return "skeleton", f"{len(msgs) - k} extra messages after the last expected point, first '{msgs[k].command}'"
    if md is None:
        return "md", "no open_run message"
    emd = row["md"]
    if md.get("num_points") != emd["num_points"]:
        return "md", f"num_points={md.get('num_points')!r}, the plan takes {emd['num_points']} readings"
    if mdchk == "grid":
        if list(md.get("shape", ())) != list(emd["shape"]):
            return "md", f"shape={md.get('shape')!r}, expected {emd['shape']}"
        ext = md.get("extents")
        if ext is None or len(ext) != n:
            return "md", f"extents={ext!r}"
        for i in range(n):
            a, b = sorted(float(x) for x in ext[i])
            ea, eb = sorted(float(frac(x)) for x in emd["extents"][i])
            if fn == "list_grid_scan":      # the request is the position list: its extent is [min, max] of the list
                li = [float(frac(x)) for x in row["lin"][i]]
                ea, eb = min(li), max(li)
            if not (close(a, ea, scale[i]) and close(b, eb, scale[i])):
                return "md", f"extents[{i}]={list(ext[i])!r}, expected {[ea, eb]}"
    return None


def prep(row):
    row["_pts"] = [[frac(x) for x in p] for p in row["pts"]]
    row["_groups"] = groups(row["pat"])
    row["_axes"] = [(frac(a["start"]), frac(a["stop"]), a["num"]) for a in row["axes"]]
    row["_scale"] = [max(abs(float(s)), abs(float(e)), 1e-300) for s, e, _ in row["_axes"]]
    if row["kind"] == "log":
        row["_scale"] = [10.0 ** max(abs(float(s)), abs(float(e))) for s, e, _ in row["_axes"]]
    return row


def num(x):
    """a rational as the user would type it"""
    return int(x) if x.denominator == 1 else float(x)


def replay_row(ctx, row, det, variant):
    prep(row)
    kind, n = row["kind"], len(row["axes"])
    axes = [(num(s), num(e), k) for s, e, k in row["_axes"]]
    if kind == "x2x":
        axes = axes[:1]
    lin = [[float(frac(x)) for x in li] for li in row["lin"]]
    init = INIT_X2X if kind == "x2x" else (0.0,) * n
    bad = 0
    for fn, mdchk, build in calls(kind, axes, row["snake"], lin, variant):
        motors = [Mot(f"m{i + 1}", init[i]) for i in range(n)]
        msgs, exc, _ = drive(build([det], motors))
        key = (fn, kind, tuple(axes), tuple(row["snake"]))
        ctx.case(key, len(row["pts"]) > 1)
        sig_in = f"{fn}:{kind}:axes={axes}:snake={[int(bool(x)) for x in row['snake']]}"
        if exc is not None:
            bad += ctx.violation(f"{sig_in}:raised:{type(exc).__name__}", f"{fn} raised {exc!r} on a valid request {axes}", {"fn": fn, "row": strip(row)}) or 0
            continue
        md, ev = body(msgs)
        r = compare(md, ev, row, motors, det, init, fn, mdchk)
        if r is not None:
            bad += ctx.violation(f"{sig_in}:{r[0]}", f"{fn}({axes}, snake={row['snake']}): {r[1]}",
                                 {"fn": fn, "row": strip(row), "observed": [(m.command, getattr(m.obj, 'name', None), [float(a) for a in m.args[:1]]) for m in ev[:200]],
                                  "md": {k: md.get(k) for k in ("num_points", "shape", "extents")} if md else None}) or 0
    return bad


def strip(row):
    return {k: v for k, v in row.items() if not k.startswith("_")}


# ----------------------------------------------------------------------------------------------- traces
def events(ev, motors, det, log, scale, init):
    idx = {id(m): i + 1 for i, m in enumerate(motors)}
    idx[id(det)] = len(motors) + 1
    out = [{"c": "open", "m": 0, "v": [0, 1]}]
    for m in ev:
        v = [0, 1]
        if m.command == "set":
            x = float(m.args[0])
            i = idx.get(id(m.obj), 1) - 1
            if log:
                r = Fraction(math.log10(x)).limit_denominator(1000) if x > 0 else Fraction(10 ** 6)
                v = rat(r) if close(x, 10.0 ** float(r), 0.0) else rat(Fraction(math.log10(x) if x > 0 else 0).limit_denominator(10 ** 6))
            else:
                v = float_to_rat(x, scale[i] + abs(init[i]) if i < len(scale) else 1.0)
        out.append({"c": m.command, "m": idx.get(id(m.obj), 0) if m.obj is not None else 0, "v": v})
    out.append({"c": "close", "m": 0, "v": [0, 1]})
    return out


def md_rec(md, mdchk, scales):
    md = md or {}
    np_ = md.get("num_points")
    rec = {"num_points": int(np_) if isinstance(np_, (int,)) or hasattr(np_, "__index__") else -1, "shape": [], "extents": []}
    if mdchk == "grid":
        try:
            rec["shape"] = [int(x) for x in md.get("shape", ())]
            rec["extents"] = [[float_to_rat(a, sc), float_to_rat(b, sc)] for (a, b), sc in zip(md.get("extents", ()), scales)]
        except Exception:
            rec["shape"], rec["extents"] = [-1], []
    return rec


def random_case(rng, big=True, fine=False):
    """a random larger request: (kind, axes [(start, stop, num)] as Fractions, snake).
    fine: steps that are tiny relative to the positions (an energy scan 9000 -> 9001 in 21 points): every point is
    still a distinct documented point that must be visited"""
    kind = rng.choice(["inner", "inner", "outer", "outer", "outer", "x2x", "log"])
    if fine and kind in ("x2x", "log"):
        kind = rng.choice(["inner", "outer"])

    def val():
        return Fraction(rng.randint(-40, 40), rng.choice([1, 1, 2, 4]))

    def span():
        if not fine:
            return val(), val()
        a = rng.choice([5000, -8000, 20000]) + Fraction(rng.randint(-8, 8), 4)
        return a, a + rng.choice([-1, 1]) * Fraction(rng.randint(1, 8), 8)
    if kind == "inner":
        n, k = rng.randint(1, 4), rng.randint(2, 12 if big else 9)
        axes = [span() + (k,) for _ in range(n)]
        snake = [False] * n
    elif kind == "outer":
        n = rng.randint(2, 3)
        while True:
            ks = [rng.randint(1, 7) for _ in range(n)]
            if 2 <= math.prod(ks) <= (70 if big else 36):
                break
        axes = [span() + (k,) for k in ks]
        snake = [False] + [rng.random() < 0.6 for _ in range(n - 1)]
    elif kind == "x2x":
        axes = [(Fraction(rng.randint(-20, 20)), Fraction(rng.randint(-20, 20)), rng.randint(2, 10))]
        snake = [False, False]
    else:
        axes = [(Fraction(rng.randint(-3, 3)), Fraction(rng.randint(-3, 3)), rng.randint(2, 9))]
        snake = [False]
    return kind, axes, snake


def linspace_exact(s, e, k):
    return [s if k == 1 else s + (e - s) * j / (k - 1) for j in range(k)]


def record_case(rng, kind, axes, snake, det_factory, mot_factory, runner):
    """run every plan bound to the case; returns trace records for ScansTrace"""
    recs = []
    n = 2 if kind == "x2x" else len(axes)
    uaxes = [(num(s), num(e), k) for s, e, k in axes]
    lin_exact = [linspace_exact(s, e, k) for s, e, k in axes]
    # list plans get arbitrary (not equally spaced, not monotone) position lists: eighths are exact in binary
    lists_exact = [[Fraction(rng.randint(-80, 80), 8) for _ in range(k)] for _, _, k in axes]
    for use_lists in (False, True):
        lin = [[float(x) for x in li] for li in (lists_exact if use_lists else lin_exact)]
        for fn, mdchk, build in calls(kind, uaxes, snake, lin, rng.randint(0, 1)):
            listy = fn in ("list_scan", "list_grid_scan", "scan_nd")
            if use_lists != listy:
                continue
            init = [float(rng.randint(-9, 9)) for _ in range(n)] if kind == "x2x" else [0.0] * n
            motors = [mot_factory(i, init[i]) for i in range(n)]
            det = det_factory()
            msgs = runner(build([det], motors))
            md, ev = body(msgs)
            if kind == "log":
                scale = [1.0]
            elif listy:
                scale = [max(abs(float(x)) for x in li) or 1.0 for li in lists_exact]
            elif kind == "x2x":
                scale = [max(abs(float(axes[0][0])), abs(float(axes[0][1])), 1.0)] * 2
            else:
                scale = [max(abs(float(s)), abs(float(e)), 1.0) for s, e, _ in axes]
            recs.append({
                "fn": fn, "kind": kind, "mode": "list" if listy else "lin",
                "axes": [{"start": rat(s), "stop": rat(e), "num": k} for s, e, k in axes],
                "lists": [[rat(x) for x in li] for li in lists_exact] if listy else [],
                "snake": [bool(x) for x in snake], "init": [rat(Fraction(x)) for x in init], "mdchk": mdchk,
                "md": md_rec(md, mdchk, scale), "ev": events(ev, motors, det, kind == "log", scale, init),
            })
    return recs


def hand_runner(plan):
    msgs, exc, _ = drive(plan)
    if exc is not None:
        raise exc
    return msgs


_RE = {}


def re_runner(plan):
    """a real RunEngine; the message stream is taken from msg_hook"""
    if "RE" not in _RE:
        import asyncio
        from bluesky import RunEngine
        from bluesky.utils import DuringTask
        _RE["RE"] = RunEngine({}, loop=asyncio.new_event_loop(), context_managers=[], during_task=DuringTask())
    RE = _RE["RE"]
    msgs = []
    RE.msg_hook = msgs.append
    try:
        RE(plan)
    finally:
        RE.msg_hook = None
    return msgs


def ophyd_motor(i, pos):
    from ophyd.sim import SynAxis
    m = SynAxis(name=f"om{i + 1}")
    m.set(pos)
    return m


def ophyd_det():
    from ophyd.sim import SynSignal
    return SynSignal(name="odet", func=lambda: 1.0)


# ----------------------------------------------------------------------------------------------- the check
def run(ctx):
    cfg = "Scans_quick.cfg" if ctx.quick else "Scans_thorough.cfg"
    cases_file = ctx.out / "cases.ndjson"
    res = run_tlc("Scans", cfg, spec_dir=SD, env={"CASES_OUT": cases_file}, tag="C25", timeout=2400)
    ctx.add_tlc(res, "Scans exhaustive " + cfg)
    if not res.ok:
        st = last_state(res)
        ctx.violation(f"spec:{res.violated}", f"Scans.tla {res.kind} {res.violated} violated on the specification itself: {str(st.get('case'))[:600]}",
                      {"tlc_trace": str(res.trace)[:3000]})
        return
    ctx.cov["exhaustive"] = True
    ctx.rule = ("every case (kind, per-axis start/stop/num, snake flags) of the bounded domain is enumerated by TLC and replayed "
                "through each real plan bound to its kind (inner: scan, inner_product_scan, list_scan, scan_nd; outer: grid_scan in "
                "both argument forms, list_grid_scan, scan_nd; x2x_scan; log_scan) by consuming the plan's message stream; "
                "distinct = distinct (plan, request) with more than one point; plus random larger requests whose recorded streams "
                "are validated event by event by TLC (ScansTrace)")
    det = Det("det")
    nrows = 0
    keys = set()
    with cheap_plan_stacks():
        with open(cases_file) as fh:
            for ln in fh:
                row = json.loads(ln)
                nrows += 1
                keys.add(json.dumps([row["kind"], row["axes"], row["snake"]], sort_keys=True))
                replay_row(ctx, row, det, nrows)
                if len(row["pts"]) >= 4 and any(row["snake"]):
                    ctx.sample({"kind": row["kind"], "axes": row["axes"], "snake": row["snake"], "pts": row["pts"][:6], "md": row["md"]}, limit=2)
    ctx.note(f"{nrows} rows of Scans.tla replayed through the real plans")
    if len(keys) != res.distinct - NBLOCKS:   # Scans.tla: NBlocks initial block states + one state per (distinct) case
        ctx.machinery(f"TLC reported {res.distinct - NBLOCKS} cases but {len(keys)} distinct rows were dumped")

    # larger random requests: recorded streams -> TLC
    rng = random.Random(ctx.seed)
    recs = []
    with cheap_plan_stacks():
        for i in range(16 if ctx.quick else 200):
            kind, axes, snake = random_case(rng, not ctx.quick, fine=(i % 4 == 3))
            recs += record_case(rng, kind, axes, snake, lambda: Det("det"), lambda i, p: Mot(f"m{i + 1}", p), hand_runner)
    nhand = len(recs)
    # second device family / real engine: ophyd.sim devices on a RunEngine, stream from msg_hook + start document
    for i in range(2 if ctx.quick else 30):
        kind, axes, snake = random_case(rng, not ctx.quick, fine=(i % 2 == 1))
        recs += record_case(rng, kind, axes, snake, ophyd_det, ophyd_motor, re_runner)
    ctx.note(f"{nhand} hand-driven and {len(recs) - nhand} RunEngine/ophyd.sim executions recorded for trace validation")
    v = validate_traces("ScansTrace", "ScansTrace.cfg", recs, SD, ctx.out, tag="C25t", timeout=2400)
    ctx.add_tlc(v.res, "ScansTrace")
    for r in recs:
        ctx.case((r["fn"], r["kind"], json.dumps(r["axes"]), json.dumps(r["lists"]), tuple(r["snake"])), True)
    ctx.traces(len(recs) - len(v.rejected) - (1 if v.invariant else 0))
    for idx, upto in sorted(v.rejected.items()):
        r = recs[idx]
        ev = r["ev"][upto] if upto < len(r["ev"]) else None
        aspect = "md" if upto == 0 else ("points" if ev and ev["c"] in ("set", "wait") else "skeleton")
        ctx.violation(f"trace:{r['fn']}:{r['kind']}:{aspect}:event={ev['c'] if ev else '?'}",
                      f"stream of {r['fn']} ({r['kind']}, {'lists=' + str(r['lists']) if r['mode'] == 'list' else 'axes=' + str(r['axes'])}, snake={r['snake']}, init={r['init']}) rejected by ScansTrace at event {upto}: {ev}; md={r['md']}",
                      {"record": r, "accepted_prefix": upto})
    if v.invariant:
        r = recs[v.inv_trace_index] if v.inv_trace_index is not None else None
        ctx.violation(f"trace-invariant:{v.invariant}:{r['fn'] if r else '?'}", f"invariant {v.invariant} violated on a recorded stream of {r['fn'] if r else '?'}",
                      {"record": r})
    if recs:
        r = recs[0]
        ctx.sample({"fn": r["fn"], "kind": r["kind"], "axes": r["axes"], "md": r["md"], "ev": r["ev"][:14]}, limit=3)
    ctx.assumptions += [
        "a 'set' may be omitted for a motor whose coordinate equals its previous one (the trajectory is the position of every motor at each reading)",
        "extents metadata is the requested [start, stop] (grid_scan) or [min, max] of the list (list_grid_scan), compared as an unordered pair",
        "floats are bound to the specification's rationals with relative tolerance 1e-12; log_scan is compared on the exponent grid (10**exponent)",
        "bluesky.utils.Plan's traceback.format_stack bookkeeping is stubbed while plans are driven by hand (speed only)",
        "cycler, numpy and ophyd.sim behave as documented; TLC 1.8.0 evaluates Scans.tla correctly",
    ]


def replay(ctx, obj):
    """./check C25 --replay FILE: re-execute the failing request on the real plan"""
    if isinstance(obj.get("replay"), dict):     # a file written by ./check: {sig, what, replay}
        obj = obj["replay"]
    if "row" in obj:
        with cheap_plan_stacks():
            replay_row(ctx, obj["row"], Det("det"), 0)
            replay_row(ctx, obj["row"], Det("det"), 1)
        seen = set()
        for v in ctx.violations:
            if obj.get("fn") and not v["sig"].startswith(obj["fn"] + ":"):
                continue
            if v["sig"] not in seen:
                print("reproduces:", v["sig"], "--", v["what"])
            seen.add(v["sig"])
        if not seen:
            print("the request is handled as specified (the violation does not reproduce)")
        return 1 if seen else 0
    if "record" in obj and obj["record"]:
        r = obj["record"]
        v = validate_traces("ScansTrace", "ScansTrace.cfg", [r], SD, ctx.out, tag="C25replay")
        print(f"recorded stream of {r['fn']} ({r['kind']}): " + ("accepted by ScansTrace" if v.ok else
              f"REJECTED at event {v.rejected.get(0)} {r['ev'][v.rejected[0]] if 0 in v.rejected and v.rejected[0] < len(r['ev']) else ''} invariant={v.invariant}; md={r['md']}"))
        return 0 if v.ok else 1
    print(json.dumps(obj, indent=1)[:4000])
    return 0
