CONSTANTS
  Kinds = {"relative_set", "reset_positions"}
  MaxOps = 7
  PMsgs = 3
  Thrown = {"Err", "Stop", "Abort"}
  PRaise = {"ErrI"}
  CatchThrow = TRUE
  MisbehaveClose = TRUE
  AsCoded = TRUE
  Forests <- FTwo
  DevLists <- ListsRel
  Styles = {"self"}
  PosKinds = {"locate", "read", "attr"}
  Positions <- PosLarge
  Offsets <- OffSmall
SPECIFICATION Spec
VIEW mcview
INVARIANT TypeOK
INVARIANT C24_OffsetFromInitial
INVARIANT C24_ResetToInitial
INVARIANT C24_NoResetOnClose
INVARIANT C23_NoCleanupOnClose
