----------------------------- MODULE RepeatTrace -----------------------------
(***************************************************************************)
(* Batch validation of message streams recorded from the real repeat /     *)
(* count (driven by hand under a virtual clock) against Repeat.tla.        *)
(* TRACE_FILE: ndjson, one execution per line: num (-1 = None), dkind,     *)
(* delays, ev = sequence of [c, v, o]: "checkpoint", "inner" (v = duration *)
(* the harness gave the inner plan), "sleep" (v = amount) and finally      *)
(* "end" with o = the observed outcome ("done" | "error" | "closed").      *)
(* Steps of Repeat that emit nothing (Start, Finish, Dry, SkipLast, Stop,  *)
(* Delay without sleep) are silent; there is no silent cycle.              *)
(***************************************************************************)
EXTENDS Repeat, IOUtils

Traces == ndJsonDeserialize(IOEnv.TRACE_FILE)

VARIABLES tid, l
tvars == <<vars, tid, l>>

TraceInit == /\ tid \in 1..Len(Traces)
             /\ num = Traces[tid].num /\ dkind = Traces[tid].dkind /\ delays0 = Traces[tid].delays
             /\ rest = delays0 /\ i = 0 /\ clock = 0 /\ now = 0 /\ pc = "start" /\ hist = <<>>
             /\ l = 1
             /\ TLCSet(tid, 1)

T == Traces[tid]
E == T.ev[l]

Silent == /\ \/ Start \/ Finish \/ Dry \/ SkipLast \/ Stop
             \/ (Delay /\ hist' = hist)
          /\ l' = l
Emit == /\ l <= Len(T.ev)
        /\ \/ E.c = "checkpoint" /\ RepStart
           \/ E.c = "inner" /\ Inner(E.v)
           \/ E.c = "sleep" /\ Delay /\ hist' # hist /\ hist'[Len(hist')].v = E.v
           \/ E.c = "end" /\ pc \in Terminal /\ pc = E.o /\ UNCHANGED vars
        /\ l' = l + 1
        /\ TLCSet(tid, IF TLCGet(tid) > l + 1 THEN TLCGet(tid) ELSE l + 1)

TraceNext == (Silent \/ Emit) /\ UNCHANGED tid
TraceSpec == TraceInit /\ [][TraceNext]_tvars

Progress(t) == TLCGet(t)
TraceAccepted ==
    \A t \in 1..Len(Traces) :
        \/ Progress(t) = Len(Traces[t].ev) + 1
        \/ PrintT(<<"REJECTED", t, Progress(t)>>) /\ FALSE
=============================================================================
