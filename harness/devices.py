"""Fake devices implementing exactly the bluesky.protocols, with a ledger (Recorder 'dev' events) and
scripted faults.  Readings are deterministic functions of device state so that re-taken points repeat.

Fault script: dev.faults = {op: mode}, consumed once: mode in
   'raise'        the call raises DevErr
   'fail_now'     the returned status is already finished unsuccessfully
   'fail_later'   the returned status fails after `delay` virtual seconds
Completion: dev.delay = 0 -> statuses are finished when returned; > 0 -> finished by a loop timer.
"""
import itertools
import threading

from harness.rec import DevErr

_sid = itertools.count(1)


class FStatus:
    """bluesky.protocols.Status"""

    def __init__(self, rec, what):
        self.sid = next(_sid)
        self.rec = rec
        self.what = what
        self._done = False
        self._success = False
        self._exc = None
        self._cbs = []
        self._lock = threading.Lock()

    def add_callback(self, cb):
        with self._lock:
            if not self._done:
                self._cbs.append(cb)
                return
        cb(self)

    def exception(self, timeout=0.0):
        return self._exc

    @property
    def done(self):
        return self._done

    @property
    def success(self):
        return self._success

    def finish(self, ok=True, exc=None):
        with self._lock:
            if self._done:
                return
            self._done = True
            self._success = ok
            self._exc = None if ok else (exc or DevErr(f"status {self.what} failed"))
            cbs, self._cbs = self._cbs, []
        self.rec.ev("stat", "", "", "", self.sid, int(ok))
        for cb in cbs:
            cb(self)

    def __repr__(self):
        return f"<FStatus {self.sid} {self.what}>"


def reset_sids():
    global _sid
    _sid = itertools.count(1)


class Base:
    def __init__(self, name, rec, loop=None, delay=0.0, parent=None):
        self.name = name
        self.rec = rec
        self.loop = loop
        self.delay = delay
        self.parent = parent
        self.faults = {}
        self.pending = []          # unfinished statuses (for manual completion)

    def __repr__(self):
        return self.name

    def _log(self, op, arg="", n=0):
        self.rec.ev("dev", self.name, op, arg, n)

    def _fault(self, op):
        f = self.faults.get(op)
        if isinstance(f, list):          # a script per call: ["ok", "raise"] = the second call raises
            v = f.pop(0) if f else None
            return None if v in (None, "", "ok") else v
        return self.faults.pop(op, None)

    def _status(self, op, on_done=None):
        """log the call, apply the fault script, build the status"""
        mode = self._fault(op)
        if mode == "raise":
            self._log(op, "raise")
            raise DevErr(f"{self.name}.{op} raised")
        if mode == "none":
            self._log(op, "nostatus")           # the device acts, but returns None instead of a status object
            if on_done:
                on_done()
            return None
        st = FStatus(self.rec, f"{self.name}.{op}")
        self._log(op, "", st.sid)
        ok = mode not in ("fail_now", "fail_later")

        def fin():
            if ok and on_done:
                on_done()
            st.finish(ok)

        if mode == "fail_now" or (self.delay == 0 and mode != "fail_later"):
            fin()
        elif self.delay == "manual":
            self.pending.append((st, fin))
        else:
            self.loop.call_soon_threadsafe(self.loop.call_later, self.delay or 1.0, fin)
        return st


class Det(Base):
    """Readable, Triggerable, Stageable, Configurable, Pausable(optional)"""

    def __init__(self, name, rec, keys=None, motors=(), **kw):
        super().__init__(name, rec, **kw)
        self.keys = keys or [name]
        self.motors = list(motors)
        self.cfg = 1
        self.ntrig = 0
        self.stage_balance = 0

    def _value(self):
        return 10 * sum(m.position for m in self.motors) + len(self.name)

    def read(self):
        if self._fault("read") == "raise":
            self._log("read", "raise")
            raise DevErr(f"{self.name}.read raised")
        self._log("read")
        v = self._value()
        return {k: {"value": v + i, "timestamp": 0.0} for i, k in enumerate(self.keys)}

    def describe(self):
        return {k: {"source": "fake:" + self.name, "dtype": "number", "shape": []} for k in self.keys}

    def read_configuration(self):
        return {self.name + "_cfg": {"value": self.cfg, "timestamp": 0.0}}

    def describe_configuration(self):
        return {self.name + "_cfg": {"source": "fake", "dtype": "integer", "shape": []}}

    def configure(self, *args, **kwargs):
        if self._fault("configure") == "raise":
            self._log("configure", "raise")
            raise DevErr(f"{self.name}.configure raised")
        self._log("configure")
        old = self.read_configuration()
        self.cfg += 1
        return old, self.read_configuration()

    def trigger(self):
        def done():
            self.ntrig += 1
        return self._status("trigger", done)

    def stage(self):
        if self._fault("stage") == "raise":
            self._log("stage", "raise")
            raise DevErr(f"{self.name}.stage raised")
        self._log("stage")
        self.stage_balance += 1
        return [self]

    def unstage(self):
        if self._fault("unstage") == "raise":
            self._log("unstage", "raise")
            raise DevErr(f"{self.name}.unstage raised")
        self._log("unstage")
        self.stage_balance -= 1
        return [self]


class Motor(Base):
    """Movable, Readable, Stoppable, Stageable, Locatable"""

    def __init__(self, name, rec, position=0, **kw):
        super().__init__(name, rec, **kw)
        self.position = position
        self.setpoint = position
        self.stage_balance = 0

    def set(self, value):
        self.setpoint = value

        def done():
            self.position = value
        return self._status("set", done)

    def stop(self, success=True):
        self._log("stop")

    def read(self):
        self._log("read")
        return {self.name: {"value": self.position, "timestamp": 0.0},
                self.name + "_setpoint": {"value": self.setpoint, "timestamp": 0.0}}

    def describe(self):
        return {self.name: {"source": "fake:" + self.name, "dtype": "number", "shape": []},
                self.name + "_setpoint": {"source": "fake:" + self.name, "dtype": "number", "shape": []}}

    def locate(self):
        return {"setpoint": self.setpoint, "readback": self.position}

    def stage(self):
        self._log("stage")
        self.stage_balance += 1
        return [self]

    def unstage(self):
        self._log("unstage")
        self.stage_balance -= 1
        return [self]


class Mon(Base):
    """Subscribable + Readable signal"""

    def __init__(self, name, rec, notify=False, **kw):
        super().__init__(name, rec, **kw)
        self.value = 0
        self.subs = []
        self.notify = notify            # ophyd-async style: the callback is called with the current value on subscribe

    def subscribe(self, function, **kw):
        self._log("subscribe")
        self.subs.append(function)
        if self.notify:
            function({self.name: {"value": self.value, "timestamp": 0.0}})

    def clear_sub(self, function):
        if self._fault("clear_sub") == "raise":
            self._log("clear_sub", "raise")
            raise DevErr(f"{self.name}.clear_sub raised")
        self._log("clear_sub")
        if function in self.subs:
            self.subs.remove(function)

    def read(self):
        return {self.name: {"value": self.value, "timestamp": 0.0}}

    def describe(self):
        return {self.name: {"source": "fake:" + self.name, "dtype": "number", "shape": []}}

    def put(self, v):
        """an update from the control system: every current subscriber is called (on the calling thread)"""
        self.value = v
        self._log("update", "", len(self.subs))
        for f in list(self.subs):
            f({self.name: {"value": v, "timestamp": 0.0}})


class Paus(Det):
    """a detector that is also Pausable"""

    def __init__(self, name, rec, noreplay=False, **kw):
        super().__init__(name, rec, **kw)
        self.noreplay = noreplay          # pause() raises NoReplayAllowed: the engine must forget its rewind cache

    def pause(self):
        if self.noreplay:
            from bluesky.utils import NoReplayAllowed
            self._log("pause", "noreplay")
            raise NoReplayAllowed(f"{self.name} cannot be replayed")
        self._log("pause")

    def resume(self):
        self._log("resume")


class Flyer(Base):
    """Flyable + EventCollectable"""

    def __init__(self, name, rec, nevents=2, flat=False, **kw):
        super().__init__(name, rec, **kw)
        self.nevents = nevents
        self.flat = flat          # describe_collect returns {key: datakey} (for a pre-declared collect stream), not {stream: {...}}

    def prepare(self, value):
        return self._status("prepare")

    # Configurable (Msg('configure', flyer, ...) describes its streams again)
    def configure(self, *args, **kwargs):
        self._log("configure")
        old, self.cfg = getattr(self, "cfg", 1), getattr(self, "cfg", 1) + 1
        return ({self.name + "_cfg": old}, {self.name + "_cfg": self.cfg})

    def read_configuration(self):
        return {self.name + "_cfg": {"value": getattr(self, "cfg", 1), "timestamp": 0.0}}

    def describe_configuration(self):
        return {self.name + "_cfg": {"source": "fake", "dtype": "integer", "shape": []}}

    def kickoff(self):
        return self._status("kickoff")

    def complete(self):
        return self._status("complete")

    def describe_collect(self):
        dk = {self.name + "_x": {"source": "fake", "dtype": "number", "shape": []}}
        return dk if self.flat else {self.name + "_stream": dk}

    def collect(self):
        if self._fault("collect") == "raise":
            self._log("collect", "raise")
            raise DevErr(f"{self.name}.collect raised")
        self._log("collect")
        for i in range(self.nevents):
            yield {"time": float(i), "data": {self.name + "_x": i}, "timestamps": {self.name + "_x": float(i)}}


class Sig:
    """minimal ophyd-like signal for suspenders: subscribe(cb, event_type=None, run=True), clear_sub, get, put"""

    def __init__(self, name, rec, value=0, **kw):
        self.name = name
        self.rec = rec
        self.value = value
        self.subs = []
        self.parent = None

    def __repr__(self):
        return self.name

    def subscribe(self, cb, event_type=None, run=True):
        self.subs.append(cb)
        if run:
            cb(value=self.value, old_value=self.value, obj=self)

    def clear_sub(self, cb):
        if cb in self.subs:
            self.subs.remove(cb)

    def get(self):
        return self.value

    def put(self, v):
        old, self.value = self.value, v
        for cb in list(self.subs):
            cb(value=v, old_value=old, obj=self)


class AMotor(Motor):
    """a Motor whose stop() is a coroutine that really suspends (ophyd-async style): awaits inside the engine's pause
    sequence, suspension start and clean-up become scheduling points"""

    async def stop(self, success=True):
        import asyncio
        self._log("stop")
        await asyncio.sleep(0)


class APaus(Det):
    """a detector with coroutine pause()/resume() that really suspend"""

    async def pause(self):
        import asyncio
        self._log("pause")
        await asyncio.sleep(0)

    async def resume(self):
        import asyncio
        self._log("resume")
        await asyncio.sleep(0)
