CONSTANTS
  Profiles <- ProfilesThorough
SPECIFICATION Spec
INVARIANT TypeOK
INVARIANT C25_LinspaceEquallySpaced
INVARIANT C25_InnerProduct
INVARIANT C25_OuterEveryCombinationOnce
INVARIANT C25_OuterRowMajor
INVARIANT C25_OuterSnaking
INVARIANT C25_OuterCoordinates
INVARIANT C25_OneCheckpointedReadingPerPoint
INVARIANT C25_MandatoryMovesSuffice
INVARIANT C25_MdConsistent
POSTCONDITION DumpCases
