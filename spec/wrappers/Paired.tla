------------------------------- MODULE Paired -------------------------------
(***************************************************************************)
(* C23 / C24 -- wrappers that pair an action with its undoing.             *)
(*                                                                         *)
(* One driver (send / throw / close: the RunEngine), one wrapper, one      *)
(* wrapped plan P (environment generator, GenW.tla).  Each wrapper is      *)
(* specified by the Python statement / insertion rule it documents:        *)
(*                                                                         *)
(*  run        open_run; try: P  except Exception as e: close_run(status   *)
(*             of e); raise   else: close_run()                            *)
(*  stage      try: stage(root) for the distinct roots; P                  *)
(*             finally: unstage(root) in reverse                           *)
(*  subs       try: subscribe each; P   finally: unsubscribe every token   *)
(*             obtained (any order)                                        *)
(*  suspend    try: install each; P   finally: remove each                 *)
(*  lazy_stage try: P, with stage(root) inserted before the first message  *)
(*             that uses a device of a tree whose root is not yet staged   *)
(*             finally: unstage what was staged, in reverse                *)
(*  monitor_during / fly_during   P, with monitor / kickoff+wait inserted  *)
(*             after each open_run and unmonitor / complete+wait+collect   *)
(*             inserted before each close_run                              *)
(*  relative_set  P, with every set(d, x) on an eligible device rewritten  *)
(*             to set(d, initial(d) + x); initial(d) is obtained (locate / *)
(*             read / .position) before the first such set                 *)
(*  reset_positions  try: P (initial(d) obtained before the first set)     *)
(*             finally: set(d, initial(d)) for every such d; wait          *)
(*                                                                         *)
(* "finally" never runs when the generator is closed (GeneratorExit).      *)
(* Inserted messages follow the documented plan_mutator rule: responses    *)
(* are swallowed, an exception thrown at an inserted message reaches P at  *)
(* the message it yielded.                                                 *)
(*                                                                         *)
(* The monitors in `mon` are computed from the message trace (messages     *)
(* emitted, how the driver answered them, how P ended) and, for C24, from  *)
(* the true device positions `pos`; the C23_* / C24_* invariants are over  *)
(* the monitors only.                                                      *)
(*                                                                         *)
(* Open findings (both alternatives offered, only the as-coded one sets    *)
(* kf and is exempted):                                                    *)
(*  KF-C23-1 (kf = 1) lazily_stage_wrapper tests "already staged" on the   *)
(*     message's device, not on its root: with a stage() that reports only *)
(*     [root], a second message on a child stages the root again.          *)
(*  KF-C23-2 (kf = 2) lazily_stage_wrapper extends a list with the Status  *)
(*     returned by a new-style stage(): TypeError, nothing is unstaged.    *)
(***************************************************************************)
EXTENDS GenW, Integers, FiniteSets, TLC, Json

CONSTANTS Kinds, MaxOps, PMsgs, Thrown, PRaise, CatchThrow, MisbehaveClose, AsCoded,
          Forests,       \* device forests: sequences device -> parent (0 = none); devices are 1..Len
          DevLists,      \* the device / item lists a wrapper may be given
          Styles,        \* how stage/unstage are answered: "self" [dev], "tree" [root + descendants], "status" a Status
          PosKinds,      \* how a motor tells its position: "locate", "read", "attr" (.position, no message)
          Positions,     \* initial positions
          Offsets        \* set() arguments used by P

Elems(sq) == {sq[k] : k \in 1..Len(sq)}
RECURSIVE Rev(_)
Rev(sq) == IF sq = <<>> THEN <<>> ELSE Rev(Tail(sq)) \o <<Head(sq)>>
RECURSIVE Uniq(_)
Uniq(sq) == IF sq = <<>> THEN <<>>
            ELSE LET r == Uniq(SubSeq(sq, 1, Len(sq) - 1)) x == sq[Len(sq)] IN IF x \in Elems(r) THEN r ELSE Append(r, x)
RECURSIVE Filter(_, _)
Filter(sq, S) == IF sq = <<>> THEN <<>> ELSE (IF Head(sq) \in S THEN <<Head(sq)>> ELSE <<>>) \o Filter(Tail(sq), S)
NoDup(sq) == \A a, b \in 1..Len(sq) : a # b => sq[a] # sq[b]
Perms(S) == {sq \in [1..Cardinality(S) -> S] : \A a, b \in 1..Cardinality(S) : a # b => sq[a] # sq[b]}
MapSeq(sq, F(_)) == IF sq = <<>> THEN <<>> ELSE [k \in 1..Len(sq) |-> F(sq[k])]
Idx(sq, x) == CHOOSE k \in 1..Len(sq) : sq[k] = x

TryKinds   == {"stage", "subs", "suspend", "lazy_stage", "reset_positions"}       \* try ... finally
C24Kinds   == {"relative_set", "reset_positions"}
StageCmds  == {"read", "set", "trigger", "kickoff"}
StyleCode(s) == CASE s = "self" -> 1 [] s = "status" -> 2 [] s = "tree" -> 3 [] OTHER -> 0
StatusCode(e) == CASE e.c = "Stop" -> 1 [] e.c = "Abort" -> 2 [] OTHER -> 3      \* success / abort / fail
Wait(k) == M("wait", 0, k)
TypeErr == V("TypeErr", 0)

Configs ==
    UNION {{[kind |-> k, devs |-> dl, style |-> s, pk |-> p, all |-> a, forest |-> f, p0 |-> z] :
               k \in Kinds, dl \in DevLists, s \in Styles, p \in PosKinds, a \in BOOLEAN, z \in [DOMAIN f -> Positions]}
           : f \in Forests}
NormalCfg(c) ==       \* only the parameters a kind looks at vary
    /\ c.kind \notin {"stage", "lazy_stage"} => c.style = CHOOSE s \in Styles : TRUE
    /\ c.kind = "stage" => c.style # "tree"
    /\ c.kind \notin C24Kinds => c.pk = (CHOOSE p \in PosKinds : TRUE) /\ c.all /\ c.p0 = [d \in DOMAIN c.forest |-> CHOOSE z \in Positions : TRUE]
    /\ c.kind \in {"run", "lazy_stage"} => c.devs = <<>>
    /\ c.kind \in {"subs", "suspend", "monitor_during", "fly_during"} => NoDup(c.devs) /\ Elems(c.devs) \subseteq 1..3
    /\ c.kind \in C24Kinds => (c.all <=> c.devs = <<>>)
    /\ c.kind \notin {"subs", "suspend"} => Elems(c.devs) \subseteq DOMAIN c.forest
    /\ c.kind \notin {"stage", "lazy_stage"} => c.forest = CHOOSE f \in Forests : TRUE

VARIABLES
  cfg,    \* wrapper kind and arguments
  w,      \* the wrapper's private state (record, see W0)
  p,      \* the wrapped plan: [st, n]
  pos,    \* true device positions (environment)
  mon,    \* monitors over the message trace
  kf,     \* 0, or the number of the open finding whose as-coded alternative was taken
  nops,
  hist

vars == <<cfg, w, p, pos, mon, kf, nops, hist>>

Parent == cfg.forest
Devs == DOMAIN Parent
RECURSIVE Root(_)
Root(d) == IF Parent[d] = 0 THEN d ELSE Root(Parent[d])
RECURSIVE SeqOfSet(_)
SeqOfSet(S) == IF S = {} THEN <<>> ELSE LET x == CHOOSE y \in S : \A z \in S : y <= z IN <<x>> \o SeqOfSet(S \ {x})
TreeOf(r) == <<r>> \o SeqOfSet({d \in Devs : d # r /\ Root(d) = r})          \* what a "tree" style stage() reports

mcview == <<cfg, w, p, pos, mon, kf, nops>>

T(t, op, a, r, v) == [t |-> t, op |-> op, a |-> a, r |-> r, v |-> v]
TWait == T("wait", "", None, "", None)
TEnd == T("end", "", None, "", None)
TCall(op, a) == T("call", op, a, "", None)
TOut(r, v) == T("out", "", None, r, v)
NoR == R("", None)

Book0 == [staged |-> <<>>, roots |-> {}, tokens |-> {}, initd |-> <<>>, initv |-> <<>>, uid |-> None]
W0 == [ph |-> "fresh",      \* fresh | pre0 pre head tail exc els fin (suspended at own message q[1]) | body | done | stuck
       q |-> <<>>,          \* own messages of the current phase; q[1] is the one the wrapper is suspended at
       held |-> None,       \* message of P waiting for the inserted head messages
       heldv |-> None,      \* response to P's message, delivered after the inserted tail messages
       tailq |-> <<>>,      \* inserted tail messages still to come after P's current message
       last |-> None,       \* the message the wrapper is suspended at (own or P's)
       frag |-> FALSE,      \* an exception is being thrown into P while inserted tail messages were pending (see MCReactions)
       pend |-> NoR, caught |-> None, closing |-> FALSE,
       book |-> Book0, todo |-> TWait]

Mon0 == [started |-> FALSE, pEnd |-> NoR, gx |-> FALSE, gxN |-> 0, finFault |-> FALSE, preFault |-> FALSE, out |-> NoR,
         opens |-> 0, closes |-> <<>>, uid |-> None,
         stageSeq |-> <<>>, unstageSeq |-> <<>>,
         tokens |-> {}, unsub |-> <<>>, installed |-> {}, removed |-> <<>>,
         monitored |-> {}, kicked |-> {}, completed |-> {}, collected |-> {}, closeDirty |-> FALSE,
         req |-> None, initd |-> <<>>, initv |-> <<>>, moved |-> {}, badset |-> FALSE, resets |-> <<>>]

Init == /\ cfg \in {c \in Configs : NormalCfg(c)}
        /\ w = W0
        /\ p = [st |-> "fresh", n |-> 0]
        /\ pos = cfg.p0
        /\ mon = Mon0
        /\ kf = 0
        /\ nops = 0
        /\ hist = <<>>

Log(e) == hist' = Append(hist, e)
Kind == cfg.kind
Eligible(d) == d # 0 /\ (cfg.all \/ d \in Elems(cfg.devs))
Roots == Uniq(MapSeq(cfg.devs, Root))

----------------------------------------------------------------------------
(* what each wrapper emits on its own *)
PreList ==
    CASE Kind = "run" -> <<M("open_run", 0, 0)>>
      [] Kind = "stage" -> MapSeq(Roots, LAMBDA r : M("stage", r, 0))
                           \o (IF cfg.style = "status" /\ Roots # <<>> THEN <<Wait(0)>> ELSE <<>>)
      [] Kind = "subs" -> MapSeq(cfg.devs, LAMBDA k : M("subscribe", 0, k))
      [] Kind = "suspend" -> MapSeq(cfg.devs, LAMBDA k : M("install_suspender", 0, k))
      [] OTHER -> <<>>

\* the finally clause (a set of alternatives: unsubscribe order is not specified)
FinLists(b) ==
    CASE Kind = "stage" -> {MapSeq(Rev(Roots), LAMBDA r : M("unstage", r, 0))
                            \o (IF cfg.style = "status" /\ Roots # <<>> THEN <<Wait(0)>> ELSE <<>>)}
      [] Kind = "lazy_stage" -> {MapSeq(Rev(b.staged), LAMBDA r : M("unstage", r, 0))
                                 \o (IF cfg.style = "status" /\ b.staged # <<>> THEN <<Wait(0)>> ELSE <<>>)}
      [] Kind = "subs" -> {MapSeq(sq, LAMBDA t : M("unsubscribe", 0, t)) : sq \in Perms(b.tokens)}
      [] Kind = "suspend" -> {MapSeq(cfg.devs, LAMBDA k : M("remove_suspender", 0, k))}
      [] Kind = "reset_positions" -> {(IF b.initd = <<>> THEN <<>> ELSE [k \in 1..Len(b.initd) |-> M("set", b.initd[k], b.initv[k])]) \o <<Wait(0)>>}
      [] OTHER -> {<<>>}

\* bookkeeping when the driver answers own message m with v
Record(b, m, v) ==
    CASE m.m = "open_run" /\ Kind = "run" -> [b EXCEPT !.uid = v]
      [] m.m = "subscribe" -> [b EXCEPT !.tokens = @ \cup {v.i}]
      [] m.m = "stage" /\ Kind = "lazy_stage" ->
            [b EXCEPT !.staged = @ \o (IF cfg.style = "tree" THEN TreeOf(m.o) ELSE <<m.o>>), !.roots = @ \cup {m.o}]
      [] m.m \in {"locate", "read"} /\ Kind \in C24Kinds -> [b EXCEPT !.initd = Append(@, m.o), !.initv = Append(@, v.i)]
      [] OTHER -> b

\* insertion / rewriting rule for a message m yielded by P: alternatives [head, tail, kf, book]
Xf(h, t, k, b) == [head |-> h, tail |-> t, kf |-> k, book |-> b]
Transduce(m, b) ==
    CASE Kind = "lazy_stage" /\ m.m \in StageCmds /\ m.o # 0 ->
            IF Root(m.o) \notin b.roots THEN {Xf(<<M("stage", Root(m.o), 0)>>, <<>>, kf, b)}
            ELSE {Xf(<<>>, <<>>, kf, b)}
                 \cup (IF AsCoded /\ m.o \notin Elems(b.staged) THEN {Xf(<<M("stage", Root(m.o), 0)>>, <<>>, 1, b)} ELSE {})
      [] Kind = "monitor_during" /\ m.m = "open_run" -> {Xf(<<>>, MapSeq(cfg.devs, LAMBDA s : M("monitor", s, 0)), kf, b)}
      [] Kind = "monitor_during" /\ m.m = "close_run" -> {Xf(MapSeq(cfg.devs, LAMBDA s : M("unmonitor", s, 0)), <<>>, kf, b)}
      [] Kind = "fly_during" /\ m.m = "open_run" /\ cfg.devs # <<>> ->
            {Xf(<<>>, MapSeq(cfg.devs, LAMBDA f : M("kickoff", f, 0)) \o <<Wait(1)>>, kf, b)}
      [] Kind = "fly_during" /\ m.m = "close_run" /\ cfg.devs # <<>> ->
            {Xf(MapSeq(cfg.devs, LAMBDA f : M("complete", f, 0)) \o <<Wait(2)>>
                \o MapSeq(cfg.devs, LAMBDA f : M("collect", f, 0)), <<>>, kf, b)}
      [] Kind \in C24Kinds /\ m.m = "set" /\ Eligible(m.o) /\ m.o \notin Elems(b.initd) ->
            IF cfg.pk = "attr"
            THEN {Xf(<<>>, <<>>, kf, [b EXCEPT !.initd = Append(@, m.o), !.initv = Append(@, pos[m.o])])}
            ELSE {Xf(<<M(cfg.pk, m.o, 0)>>, <<>>, kf, b)}
      [] OTHER -> {Xf(<<>>, <<>>, kf, b)}
\* the message finally emitted for P's message m
Rewrite(m, b) ==
    IF Kind = "relative_set" /\ m.m = "set" /\ m.o \in Elems(b.initd)
    THEN M("set", m.o, b.initv[Idx(b.initd, m.o)] + m.i) ELSE m

----------------------------------------------------------------------------
(* control flow; every operator maps the wrapper state s to the set of possible next states *)
Emit(s, phase, list) == [s EXCEPT !.ph = phase, !.q = list, !.last = list[1], !.todo = TOut("yield", list[1])]

Finish(s, c) ==
    [s EXCEPT !.todo = IF s.closing /\ (c.k = "return" \/ c.v.c = "GenExit") THEN TOut("closed", None) ELSE TOut(c.k, c.v),
              !.q = <<>>, !.tailq = <<>>]

EnterFin(s, c) ==
    {IF fl = <<>> THEN Finish(s, c) ELSE [Emit(s, "fin", fl) EXCEPT !.pend = c, !.tailq = <<>>] : fl \in FinLists(s.book)}

StartBody(s) == [s EXCEPT !.ph = "body", !.q = <<>>, !.todo = TCall("send", None)]

\* P ended with completion c (as `yield from` sees it)
AfterP(s, c) ==
    IF c.k = "raise" /\ c.v.c = "GenExit" THEN {Finish(s, c)}                        \* closed: no cleanup
    ELSE IF Kind = "run"
         THEN IF c.k = "return" THEN {Emit(s, "els", <<M("close_run", 0, 0)>>)}
              ELSE IF IsException(c.v) THEN {[Emit(s, "exc", <<M("close_run", 0, StatusCode(c.v))>>) EXCEPT !.caught = c.v]}
              ELSE {Finish(s, c)}
    ELSE IF Kind \in TryKinds THEN EnterFin(s, c)
    ELSE {Finish(s, c)}

\* the current own-message list is exhausted
OwnDone(s) ==
    CASE s.ph \in {"pre0", "pre"} -> {StartBody(s)}
      [] s.ph = "head" -> LET m2 == Rewrite(s.held, s.book)
                          IN {[s EXCEPT !.ph = "body", !.last = m2, !.todo = TOut("yield", m2)]}
      [] s.ph = "tail" -> {[s EXCEPT !.ph = "body", !.todo = TCall("send", s.heldv)]}
      [] s.ph = "exc" -> {Finish(s, R("raise", s.caught))}                          \* bare raise
      [] s.ph = "els" -> {Finish(s, R("return", s.book.uid))}                       \* run_wrapper returns the run uid
      [] s.ph = "fin" -> {Finish(s, s.pend)}

\* the driver resumes the wrapper, which is suspended at an own message (s.q[1]);
\* alts: specified behaviour, coded: as-coded alternative of KF-C23-2
Own(s, op, a) ==
    LET m == s.q[1]
        s1 == [s EXCEPT !.book = Record(@, m, a), !.q = Tail(@)]
        advance == IF s1.q # <<>> THEN {[s1 EXCEPT !.last = s1.q[1], !.todo = TOut("yield", s1.q[1])]} ELSE OwnDone(s1)
    IN CASE op = "send" ->
              IF Kind = "lazy_stage" /\ m.m = "stage" /\ cfg.style = "status"
              THEN [alts |-> advance, coded |-> {[s EXCEPT !.ph = "body", !.q = <<>>, !.tailq = <<>>, !.todo = TCall("throw", TypeErr)]}]
              ELSE [alts |-> advance, coded |-> {}]
         [] op = "throw" ->
              [alts |-> CASE s.ph = "pre0" -> {Finish(s, R("raise", a))}
                          [] s.ph = "pre" -> EnterFin(s, R("raise", a))
                          [] s.ph \in {"head", "tail"} -> {[s EXCEPT !.ph = "body", !.q = <<>>, !.tailq = <<>>, !.todo = TCall("throw", a),
                                                                      !.frag = (s.ph = "tail")]}
                          [] OTHER -> {Finish(s, R("raise", a))},
               coded |-> {}]
         [] op = "close" ->
              [alts |-> IF s.ph \in {"head", "tail"}
                        THEN {[s EXCEPT !.ph = "body", !.q = <<>>, !.tailq = <<>>, !.todo = TCall("close", None)]}
                        ELSE {Finish(s, R("raise", GenExit))},
               coded |-> {}]

\* the driver resumes the wrapper, which is suspended at a message of P
AtP(s, op, a) ==
    IF op = "send" /\ s.tailq # <<>>
    THEN [Emit(s, "tail", s.tailq) EXCEPT !.heldv = a, !.tailq = <<>>]
    ELSE [s EXCEPT !.tailq = <<>>, !.todo = TCall(op, a), !.frag = (op = "throw" /\ s.tailq # <<>>)]

----------------------------------------------------------------------------
(* monitors *)
UndoCount(mo) == Len(mo.resets) + Len(mo.unstageSeq) + Len(mo.unsub) + Len(mo.removed) + Len(mo.closes)
SetGx(mo) == IF mo.gx THEN mo ELSE [mo EXCEPT !.gx = TRUE, !.gxN = UndoCount(mo)]   \* GeneratorExit is (being) raised in the wrapper

MonAck(mo, m, v, own) ==      \* the driver answered message m normally (own: a message of the wrapper, not of P)
    CASE own /\ m.m = "open_run" /\ Kind = "run" -> [mo EXCEPT !.opens = @ + 1, !.uid = v]
      [] own /\ m.m = "stage" -> [mo EXCEPT !.stageSeq = Append(@, m.o)]
      [] own /\ m.m = "subscribe" -> [mo EXCEPT !.tokens = @ \cup {v.i}]
      [] own /\ m.m = "install_suspender" -> [mo EXCEPT !.installed = @ \cup {m.i}]
      [] own /\ m.m = "monitor" -> [mo EXCEPT !.monitored = @ \cup {m.o}]
      [] own /\ m.m = "unmonitor" -> [mo EXCEPT !.monitored = @ \ {m.o}]
      [] own /\ m.m = "kickoff" -> [mo EXCEPT !.kicked = @ \cup {m.o}]
      [] own /\ m.m = "complete" -> [mo EXCEPT !.completed = @ \cup {m.o}]
      [] own /\ m.m = "collect" -> [mo EXCEPT !.collected = @ \cup {m.o}]
      [] ~own /\ m.m = "set" /\ Kind \in C24Kinds -> [mo EXCEPT !.moved = @ \cup {m.o}]
      [] OTHER -> mo

MonEmit(mo, m, phase) ==     \* the wrapper yields message m (phase = body: it is P's message, possibly rewritten)
    LET own == phase # "body"
    IN CASE own /\ m.m = "close_run" /\ Kind = "run" -> [mo EXCEPT !.closes = Append(@, m.i)]
         [] ~own /\ m.m = "close_run" /\ Kind = "monitor_during" -> [mo EXCEPT !.closeDirty = @ \/ mo.monitored # {}]
         [] ~own /\ m.m = "close_run" /\ Kind = "fly_during" ->
               [mo EXCEPT !.closeDirty = @ \/ ~(mo.kicked \subseteq (mo.completed \cap mo.collected))]
         [] ~own /\ m.m = "open_run" /\ Kind = "fly_during" -> [mo EXCEPT !.kicked = {}, !.completed = {}, !.collected = {}]
         [] own /\ m.m = "unstage" -> [mo EXCEPT !.unstageSeq = Append(@, m.o)]
         [] own /\ m.m = "unsubscribe" -> [mo EXCEPT !.unsub = Append(@, m.i)]
         [] own /\ m.m = "remove_suspender" -> [mo EXCEPT !.removed = Append(@, m.i)]
         [] phase = "fin" /\ m.m = "set" -> [mo EXCEPT !.resets = Append(@, <<m.o, m.i>>)]
         [] ~own /\ m.m = "set" /\ Kind = "relative_set" /\ Eligible(m.o) /\ mo.req.m = "set" /\ mo.req.o = m.o /\ m.o \in Elems(mo.initd) ->
               [mo EXCEPT !.badset = @ \/ m.i # mo.initv[Idx(mo.initd, m.o)] + mo.req.i]
         [] OTHER -> mo

MonP(mo, r, c) ==            \* P reacted
    LET m1 == IF c.k # "yield" THEN [mo EXCEPT !.pEnd = c] ELSE mo
        m2 == IF c.k = "raise" /\ c.v.c = "GenExit" THEN SetGx(m1) ELSE m1
    IN IF r.k = "yield" /\ r.v.m = "set" /\ Kind \in C24Kinds /\ Eligible(r.v.o)
       THEN [m2 EXCEPT !.req = r.v,
                       !.initd = IF r.v.o \in Elems(@) THEN @ ELSE Append(@, r.v.o),
                       !.initv = IF r.v.o \in Elems(mo.initd) THEN @ ELSE Append(@, pos[r.v.o])]
       ELSE IF r.k = "yield" THEN [m2 EXCEPT !.req = r.v] ELSE m2

----------------------------------------------------------------------------
Drive(op, a) ==
    /\ w.todo.t = "wait" /\ nops < MaxOps
    /\ op \in {"send", "throw", "close"}
    /\ op = "throw" => IsExc(a) /\ a.c # "GenExit"
    /\ op = "send" => ~IsExc(a) /\ (w.ph = "fresh" => a = None)
    /\ op = "close" => a = None
    /\ nops' = nops + 1
    /\ Log(E("drv", op, a, "", None))
    /\ LET s == [w EXCEPT !.closing = (op = "close")]
       IN IF w.ph = "fresh"
          THEN /\ kf' = kf
               /\ mon' = IF op = "send" THEN [mon EXCEPT !.started = TRUE] ELSE mon
               /\ pos' = pos
               /\ CASE op = "send"  -> w' = IF PreList = <<>> THEN StartBody(s)
                                            ELSE Emit(s, IF Kind = "run" THEN "pre0" ELSE "pre", PreList)
                    [] op = "throw" -> w' = [s EXCEPT !.todo = TOut("raise", a)]
                    [] op = "close" -> w' = [s EXCEPT !.todo = TOut("closed", None)]
          ELSE /\ pos' = IF op = "send" /\ w.last.m = "set" /\ w.last.o \in Devs THEN [pos EXCEPT ![w.last.o] = w.last.i] ELSE pos
               /\ LET mo1 == IF op = "send" THEN MonAck(mon, w.last, a, w.ph # "body") ELSE mon
                      mo2 == IF op = "send" THEN mo1
                             ELSE IF w.ph \in {"exc", "els", "fin"} THEN [mo1 EXCEPT !.finFault = TRUE]     \* the undo itself is disturbed
                             ELSE IF w.ph \in {"pre0", "pre"} THEN [mo1 EXCEPT !.preFault = TRUE] ELSE mo1
                      mo3 == IF op = "close" /\ w.ph # "body" /\ w.ph \notin {"head", "tail"} THEN SetGx(mo2) ELSE mo2
                  IN mon' = mo3
               /\ IF w.ph = "body"
                  THEN w' = AtP(s, op, a) /\ kf' = kf
                  ELSE LET o == Own(s, op, a)
                       IN \/ \E s2 \in o.alts : w' = s2 /\ kf' = kf
                          \/ AsCoded /\ \E s2 \in o.coded : w' = s2 /\ kf' = 2
    /\ UNCHANGED <<cfg, p>>

CallP(r) ==
    /\ w.todo.t = "call"
    /\ LET op == w.todo.op
           a == w.todo.a
           c == Completion(op, r)
       IN /\ LegalReaction(p.st, op, a, r)
          /\ Log(E("p", op, a, r.k, r.v))
          /\ p' = [st |-> IF r.k = "yield" THEN "susp" ELSE "done", n |-> IF r.k = "yield" THEN p.n + 1 ELSE p.n]
          /\ mon' = MonP(mon, r, c)
          /\ IF c.k = "yield"
             THEN IF w.closing
                  THEN w' = [w EXCEPT !.todo = T("outx", "", None, "raise", RTE)] /\ kf' = kf
                  ELSE \E x \in Transduce(r.v, w.book) :
                          /\ kf' = x.kf
                          /\ w' = IF x.head # <<>>
                                  THEN [Emit([w EXCEPT !.book = x.book], "head", x.head) EXCEPT !.held = r.v, !.tailq = x.tail]
                                  ELSE LET m2 == Rewrite(r.v, x.book)
                                       IN [w EXCEPT !.book = x.book, !.ph = "body", !.tailq = x.tail, !.last = m2,
                                                    !.todo = TOut("yield", m2)]
             ELSE /\ kf' = kf
                  /\ \E s2 \in AfterP(w, c) : w' = s2
    /\ UNCHANGED <<cfg, pos, nops>>

Out ==
    /\ w.todo.t \in {"out", "outx"}
    /\ LET ignored == w.todo.t = "outx" \/ (w.todo.r = "yield" /\ w.closing)    \* yields while being closed: RuntimeError at the closer
       IN /\ Log(IF ignored THEN E("out", "", None, "raise", RTE) ELSE E("out", "", None, w.todo.r, w.todo.v))
          /\ IF ignored THEN w' = [w EXCEPT !.todo = TEnd, !.ph = "stuck"] /\ mon' = mon
             ELSE IF w.todo.r = "yield" THEN w' = [w EXCEPT !.todo = TWait] /\ mon' = MonEmit(mon, w.todo.v, w.ph)
             ELSE w' = [w EXCEPT !.todo = TEnd, !.ph = "done"] /\ mon' = [mon EXCEPT !.out = R(w.todo.r, w.todo.v)]
    /\ UNCHANGED <<cfg, p, pos, kf, nops>>

----------------------------------------------------------------------------
(* bounded environment for model checking *)
PAlphabet ==
    CASE Kind = "lazy_stage" -> {M("read", d, 0) : d \in Devs} \cup {M("null", 0, 10 + p.n + 1)}
      [] Kind \in {"monitor_during", "fly_during"} -> {M("open_run", 0, 0), M("close_run", 0, 0), M("null", 0, 10 + p.n + 1)}
      [] Kind \in C24Kinds -> {M("set", d, x) : d \in Devs, x \in Offsets} \cup {M("null", 0, 10 + p.n + 1)}
      [] OTHER -> {M("null", 0, 10 + p.n + 1)}
\* Environment restriction (documented in notes/C23.md): a plan does not SURVIVE an exception that arrives while inserted
\* tail messages of its current message are pending / being emitted (w.frag).  The real plan_mutator leaves a stale
\* tail_cache / tail_result_cache entry keyed by id() of the dead generator in that case, and what happens next depends on
\* CPython's reuse of object ids -- a defect of plan_mutator (C21), allocator dependent, outside C23's statement.
MCReactions(op, a) ==
    LET y == IF p.n < PMsgs THEN {R("yield", m) : m \in PAlphabet} ELSE {}
        own == {R("raise", V(c, 1)) : c \in PRaise}
    IN CASE op = "send" -> y \cup {R("return", V("", 101))} \cup own
         [] op = "throw" -> {R("raise", a)} \cup (IF CatchThrow /\ ~w.frag THEN y \cup {R("return", V("", 101))} ELSE {})
         [] op = "close" -> {R("raise", GenExit)} \cup (IF MisbehaveClose THEN y \cup own ELSE {})
\* how the driver answers the message the wrapper is suspended at
Resp(m) == CASE m.m \in {"locate", "read"} /\ m.o \in Devs -> V("", pos[m.o])
             [] m.m = "subscribe" -> V("", 50 + nops)
             [] m.m \in {"stage", "unstage"} -> V("", StyleCode(cfg.style))
             [] OTHER -> V("", 200 + nops)
MCDrive == \/ Drive("send", IF w.ph = "fresh" THEN None ELSE Resp(w.last))
           \/ \E c \in Thrown : Drive("throw", V(c, nops + 1))
           \/ Drive("close", None)

Next == \/ MCDrive
        \/ (w.todo.t = "call" /\ \E r \in MCReactions(w.todo.op, w.todo.a) : CallP(r))
        \/ Out
Spec == Init /\ [][Next]_vars

----------------------------------------------------------------------------
(* properties *)
Done == w.ph = "done"
Clean == Done /\ mon.started /\ ~mon.gx /\ ~mon.finFault     \* ended, not closed, the driver did not disturb the cleanup

\* C23 run_wrapper: exactly one close_run for its open_run, with the status of the outcome
ExpectedCloses ==
    IF mon.opens = 0 THEN <<>>
    ELSE CASE mon.pEnd.k = "return" -> <<0>>                                   \* exit_status None: the engine's default, success
           [] mon.pEnd.k = "raise" /\ IsException(mon.pEnd.v) -> <<StatusCode(mon.pEnd.v)>>
           [] OTHER -> <<>>                                                   \* not started / closed / not an Exception
C23_RunClosedOnce == (Kind = "run") =>
    /\ Len(mon.closes) <= 1
    /\ mon.closes # <<>> => mon.opens = 1 /\ mon.closes = ExpectedCloses
    /\ Done => mon.closes = ExpectedCloses
\* ... and the outcome of the wrapped plan is kept (the run uid is returned on success)
C23_RunOutcome == (Kind = "run" /\ Clean /\ mon.opens = 1) =>
    mon.out = (IF mon.pEnd.k = "return" THEN R("return", mon.uid) ELSE mon.pEnd)

\* C23 stage / lazily_stage: every device staged is unstaged exactly once, in reverse order
C23_UnstageReverse == (Kind \in {"stage", "lazy_stage"}) =>
    /\ Clean => (kf # 0 \/ (/\ NoDup(mon.stageSeq)
                             /\ Filter(mon.unstageSeq, Elems(mon.stageSeq)) = Rev(mon.stageSeq)))
    /\ mon.unstageSeq # <<>> => (mon.pEnd.k # "" \/ mon.preFault)                          \* never before the plan ended
C23_StageOncePerTree == (Kind = "lazy_stage" /\ kf = 0) => NoDup(mon.stageSeq) /\ \A k \in 1..Len(mon.stageSeq) : Parent[mon.stageSeq[k]] = 0

\* C23 subs / suspend: everything installed is removed (exactly once)
C23_SubsRemoved == (Kind = "subs" /\ Clean) =>
    /\ Elems(mon.unsub) = mon.tokens /\ NoDup(mon.unsub)
C23_SuspendersRemoved == (Kind = "suspend" /\ Clean) =>
    \A k \in mon.installed : Cardinality({j \in 1..Len(mon.removed) : mon.removed[j] = k}) = 1
C23_RemoveOnlyAtEnd == (Kind \in {"subs", "suspend"} /\ (mon.unsub # <<>> \/ mon.removed # <<>>)) => (mon.pEnd.k # "" \/ mon.preFault)

\* C23 monitor_during / fly_during: at every close_run nothing is left monitored / every kicked-off flyer is completed and collected
C23_UndoneBeforeClose == ~mon.closeDirty

\* C24: relative sets are initial + offset
C24_OffsetFromInitial == ~mon.badset
\* C24: when the plan ends with cleanup every device that was moved is commanded back to where it was
ResetOf(d) == {k \in 1..Len(mon.resets) : mon.resets[k][1] = d}
C24_ResetToInitial == (Kind = "reset_positions" /\ Clean) =>
    /\ \A d \in mon.moved : Eligible(d) => \E k \in ResetOf(d) : mon.resets[k][2] = mon.initv[Idx(mon.initd, d)]
    /\ \A k \in 1..Len(mon.resets) : /\ mon.resets[k][1] \in Elems(mon.initd)
                                     /\ mon.resets[k][2] = mon.initv[Idx(mon.initd, mon.resets[k][1])]
    /\ \A d \in Devs : Cardinality(ResetOf(d)) <= 1
C24_NoResetOnClose == (Kind = "reset_positions" /\ mon.gx) => Len(mon.resets) <= mon.gxN

\* closing never runs cleanup: after GeneratorExit no undo message is emitted and close() returns quietly
C23_NoCleanupOnClose == mon.gx => /\ UndoCount(mon) = mon.gxN
                                  /\ Done => mon.out.k = "closed"

TypeOK == /\ w.ph \in {"fresh", "pre0", "pre", "head", "tail", "body", "exc", "els", "fin", "done", "stuck"}
          /\ w.todo.t \in {"wait", "call", "out", "outx", "end"}
          /\ kf \in 0..2

\* the findings are reachable (these must FAIL when AsCoded)
KF1_Unreachable == kf # 1
KF2_Unreachable == kf # 2

Terminal == w.todo.t = "end" \/ (w.todo.t = "wait" /\ nops = MaxOps)
DumpHist == Terminal => PrintT(<<"HIST", ToJson([cfg |-> cfg, kf |-> kf, h |-> hist])>>)
=============================================================================
