--------------------------- MODULE PersistentDict ---------------------------
(***************************************************************************)
(* C43 -- a PersistentDict reopened on the same directory holds what was   *)
(* last written through the previous instance.                             *)
(*                                                                         *)
(* Implementation-shaped two-level store (bluesky.utils.PersistentDict on  *)
(* zict.File):                                                             *)
(*   cache   the in-memory dict served by __getitem__/__iter__             *)
(*   disk    one msgpack file per key (zict.File); written by __setitem__, *)
(*           flush() and by the weakref.finalize callback when the         *)
(*           instance is collected / at interpreter exit                   *)
(*   fin     the dict object captured by the finalizer when the instance   *)
(*           was created.  reload() REBINDS self._cache to a new dict, so  *)
(*           in the code as found the finalizer keeps dumping the dict of  *)
(*           before the reload (stale = TRUE); the repaired behaviour      *)
(*           dumps the live cache.  Mode selects "asfound", "repaired" or  *)
(*           "either" (trace validation accepts both).                     *)
(* Values are tokens 1..NV (0 = key absent); a value mutated in place is a *)
(* different token in the cache only.                                      *)
(*                                                                         *)
(* The property's vocabulary is `want`: per key the top-level value most   *)
(* recently set / flushed (a graceful close flushes everything, as the     *)
(* class documents), removed by del / pop / popitem / clear.  After a      *)
(* reopen (graceful) or a crash (instance lost without its finalizer, e.g. *)
(* the process is killed) the new instance must hold exactly `want`.       *)
(***************************************************************************)
EXTENDS Naturals, Sequences, FiniteSets, TLC, Json

CONSTANTS Keys,        \* set of key strings
          NV,          \* value tokens 1..NV
          MaxOps,      \* bound on history length
          Mode,        \* "asfound" | "repaired" | "either"
          Alphabet     \* operations enabled in this configuration

AllOps == {"set", "del", "pop", "popd", "popitem", "update", "setdefault", "clear", "mutate", "flush", "reload", "reopen", "crash"}
Vals == 1..NV
Absent == [k \in Keys |-> 0]

VARIABLES
  cache, disk,
  fin, stale,     \* stale: the finalizer holds `fin` (a dict detached by reload) instead of the live cache
  want,           \* the property's abstract store
  verdict,        \* "none" | "ok" | "bad": outcome of the last reopen/crash (contents = want ?)
  closedStale,    \* the last close was a graceful one with a stale finalizer (signature of the open finding)
  out,            \* observable result of the last operation
  hist

vars == <<cache, disk, fin, stale, want, verdict, closedStale, out, hist>>
\* VIEW of the exhaustive configurations: the history and the last result are not part of the fingerprint (no property
\* mentions them), so with a large MaxOps TLC covers the operation sequences of EVERY length over Keys x 1..NV
view == <<cache, disk, fin, stale, want, verdict, closedStale>>

Present(m) == {k \in Keys : m[k] # 0}
\* results: [val, key, err, m]  (uniformly typed; defaults 0 / "" / FALSE / Absent)
R(val, key, err, m) == [val |-> val, key |-> key, err |-> err, m |-> m]
NoRes == R(0, "", FALSE, Absent)
E(op, k, v, m, res) == [op |-> op, k |-> k, v |-> v, m |-> m, res |-> res]
Log(e) == hist' = Append(hist, e)
Quiet == verdict' = "none" /\ closedStale' = FALSE

Init == /\ cache = Absent /\ disk = Absent /\ fin = Absent /\ stale = FALSE
        /\ want = Absent /\ verdict = "none" /\ closedStale = FALSE
        /\ out = NoRes /\ hist = <<>>

----------------------------------------------------------------------------
\* d[k] = v : cache and file written
Set(k, v) ==
    /\ cache' = [cache EXCEPT ![k] = v]
    /\ disk' = [disk EXCEPT ![k] = v]
    /\ want' = [want EXCEPT ![k] = v]
    /\ out' = NoRes
    /\ UNCHANGED <<fin, stale>> /\ Quiet
    /\ Log(E("set", k, v, Absent, NoRes))

Remove(k) == /\ cache' = [cache EXCEPT ![k] = 0]
             /\ disk' = [disk EXCEPT ![k] = 0]
             /\ want' = [want EXCEPT ![k] = 0]

\* del d[k] / d.pop(k): KeyError when absent
Del(k) ==
    /\ IF cache[k] # 0 THEN Remove(k) /\ out' = NoRes
       ELSE UNCHANGED <<cache, disk, want>> /\ out' = R(0, "", TRUE, Absent)
    /\ UNCHANGED <<fin, stale>> /\ Quiet
    /\ Log(E("del", k, 0, Absent, out'))
Pop(k) ==
    /\ IF cache[k] # 0 THEN Remove(k) /\ out' = R(cache[k], "", FALSE, Absent)
       ELSE UNCHANGED <<cache, disk, want>> /\ out' = R(0, "", TRUE, Absent)
    /\ UNCHANGED <<fin, stale>> /\ Quiet
    /\ Log(E("pop", k, 0, Absent, out'))
\* d.pop(k, default): the stored value (removed) when present, the default (nothing changes) when absent -- whatever the
\* default is, also when it equals (or is) the stored value
PopD(k, v) ==
    /\ IF cache[k] # 0 THEN Remove(k) /\ out' = R(cache[k], "", FALSE, Absent)
       ELSE UNCHANGED <<cache, disk, want>> /\ out' = R(v, "", FALSE, Absent)
    /\ UNCHANGED <<fin, stale>> /\ Quiet
    /\ Log(E("popd", k, v, Absent, out'))
\* d.popitem(): some present item (which one is the dict's business); KeyError when empty
PopItem(k) ==
    /\ cache[k] # 0
    /\ Remove(k) /\ out' = R(cache[k], k, FALSE, Absent)
    /\ UNCHANGED <<fin, stale>> /\ Quiet
    /\ Log(E("popitem", "", 0, Absent, out'))
PopItemEmpty ==
    /\ Present(cache) = {}
    /\ out' = R(0, "", TRUE, Absent)
    /\ UNCHANGED <<cache, disk, want, fin, stale>> /\ Quiet
    /\ Log(E("popitem", "", 0, Absent, out'))
\* d.update(m): every given key is set
Update(m) ==
    /\ Present(m) # {}
    /\ cache' = [k \in Keys |-> IF m[k] # 0 THEN m[k] ELSE cache[k]]
    /\ disk' = [k \in Keys |-> IF m[k] # 0 THEN m[k] ELSE disk[k]]
    /\ want' = [k \in Keys |-> IF m[k] # 0 THEN m[k] ELSE want[k]]
    /\ out' = NoRes
    /\ UNCHANGED <<fin, stale>> /\ Quiet
    /\ Log(E("update", "", 0, m, NoRes))
\* d.setdefault(k, v)
SetDefault(k, v) ==
    /\ IF cache[k] = 0
       THEN /\ cache' = [cache EXCEPT ![k] = v] /\ disk' = [disk EXCEPT ![k] = v] /\ want' = [want EXCEPT ![k] = v]
            /\ out' = R(v, "", FALSE, Absent)
       ELSE UNCHANGED <<cache, disk, want>> /\ out' = R(cache[k], "", FALSE, Absent)
    /\ UNCHANGED <<fin, stale>> /\ Quiet
    /\ Log(E("setdefault", k, v, Absent, out'))
Clear ==
    /\ cache' = Absent /\ disk' = Absent /\ want' = Absent
    /\ out' = NoRes
    /\ UNCHANGED <<fin, stale>> /\ Quiet
    /\ Log(E("clear", "", 0, Absent, NoRes))
\* d[k].append(..) etc.: the cached object changes, nothing is written, nothing was "set"
Mutate(k, v) ==
    /\ cache[k] # 0 /\ v # cache[k]
    /\ cache' = [cache EXCEPT ![k] = v]
    /\ out' = NoRes
    /\ UNCHANGED <<disk, want, fin, stale>> /\ Quiet
    /\ Log(E("mutate", k, v, Absent, NoRes))
Flush ==
    /\ disk' = cache
    /\ want' = cache
    /\ out' = NoRes
    /\ UNCHANGED <<cache, fin, stale>> /\ Quiet
    /\ Log(E("flush", "", 0, Absent, NoRes))
\* d.reload(): cache := files.  As found, the finalizer keeps the dict of before (only the first reload detaches it).
ReloadCore(detach) ==
    /\ cache' = disk
    /\ IF detach /\ ~stale THEN fin' = cache /\ stale' = TRUE ELSE UNCHANGED <<fin, stale>>
    /\ out' = R(0, "", FALSE, disk)
    /\ UNCHANGED <<disk, want>> /\ Quiet
    /\ Log(E("reload", "", 0, Absent, out'))
Reload == \/ Mode \in {"asfound", "either"} /\ ReloadCore(TRUE)
          \/ Mode \in {"repaired", "either"} /\ ReloadCore(FALSE)
\* graceful end of the instance (del + gc / interpreter exit): the finalizer dumps its dict over the files,
\* then a new instance loads the files
Reopen ==
    LET dumped == IF stale THEN fin ELSE cache
        files == [k \in Keys |-> IF dumped[k] # 0 THEN dumped[k] ELSE disk[k]]
        should == [k \in Keys |-> IF cache[k] # 0 THEN cache[k] ELSE want[k]]      \* a graceful close flushes
    IN /\ disk' = files /\ cache' = files
       /\ fin' = Absent /\ stale' = FALSE
       /\ verdict' = IF files = should THEN "ok" ELSE "bad"
       /\ closedStale' = stale
       /\ want' = files                       \* the new instance starts from what it holds
       /\ out' = R(0, "", FALSE, files)
       /\ Log(E("reopen", "", 0, Absent, out'))
\* the instance is lost without its finalizer (process killed); a new instance loads the files
Crash ==
    /\ cache' = disk
    /\ fin' = Absent /\ stale' = FALSE
    /\ verdict' = IF disk = want THEN "ok" ELSE "bad"
    /\ closedStale' = FALSE
    /\ want' = disk
    /\ out' = R(0, "", FALSE, disk)
    /\ UNCHANGED disk
    /\ Log(E("crash", "", 0, Absent, out'))

Maps == [Keys -> 0..NV]
Next ==
    /\ Len(hist) < MaxOps
    /\ \/ "set" \in Alphabet /\ \E k \in Keys, v \in Vals : Set(k, v)
       \/ "del" \in Alphabet /\ \E k \in Keys : Del(k)
       \/ "pop" \in Alphabet /\ \E k \in Keys : Pop(k)
       \/ "popd" \in Alphabet /\ \E k \in Keys, v \in Vals : PopD(k, v)
       \/ "popitem" \in Alphabet /\ ((\E k \in Keys : PopItem(k)) \/ PopItemEmpty)
       \/ "update" \in Alphabet /\ \E m \in Maps : Update(m)
       \/ "setdefault" \in Alphabet /\ \E k \in Keys, v \in Vals : SetDefault(k, v)
       \/ "clear" \in Alphabet /\ Clear
       \/ "mutate" \in Alphabet /\ \E k \in Keys, v \in Vals : Mutate(k, v)
       \/ "flush" \in Alphabet /\ Flush
       \/ "reload" \in Alphabet /\ Reload
       \/ "reopen" \in Alphabet /\ Reopen
       \/ "crash" \in Alphabet /\ Crash

Spec == Init /\ [][Next]_vars

----------------------------------------------------------------------------
TypeOK == /\ cache \in Maps /\ disk \in Maps /\ fin \in Maps /\ want \in Maps
          /\ stale \in BOOLEAN /\ verdict \in {"none", "ok", "bad"}

\* open finding: a graceful close after reload() lets the stale finalizer overwrite the files
KF_StaleFinalizer == closedStale

\* C43: after reopen / crash the new instance holds exactly what was last set, deleted, popped or flushed
C43_ReopenHoldsLastWritten == verdict # "bad" \/ KF_StaleFinalizer
\* ... stated without the exemption (holds in Mode = "repaired")
C43_Strict == verdict # "bad"
\* at every moment the files hold the last set/flushed top-level value of every key (what a crash would keep)
C43_FilesAreLastWritten == disk = want
\* cache and files always have the same keys; in-place mutation is the only way they differ
C43_SameKeys == Present(cache) = Present(disk)
\* the operations never lose a write that a later crash should keep (action property): set/flush are durable at once
C43_SetIsDurable == [][\A k \in Keys : (cache'[k] # cache[k] /\ want'[k] # want[k] /\ want'[k] # 0) => disk'[k] = want'[k]]_vars
\* reachability of the finding's signature in the as-found mode (violated on purpose => reachable)
KF_Unreachable == ~(closedStale /\ verdict = "bad")

\* used as a CONSTRAINT in the replay-generation configs: print every maximal history that ends by observing
DumpHist == (Len(hist) = MaxOps /\ hist[MaxOps].op \in {"reopen", "crash"}) => PrintT(<<"HIST", ToJson(hist)>>)
=============================================================================
