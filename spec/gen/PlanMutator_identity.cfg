\* C20, quick tier (harness/props/C20.py generates the same file with the bounds of the tier and adds CONSTRAINT DumpHist)
CONSTANTS
  Impls = {"plan_mutator", "msg_mutator"}
  Procs = {"identity"}
  Variants = {"FF"}
  MaxOpsId = 9
  MaxOpsIns = 0
  MaxGens = 0
  MaxPost = 1
  KeepHist = TRUE
  DumpVariants = {}
SPECIFICATION Spec
INVARIANT TypeOK
INVARIANT C20_SameOpsReachParent
INVARIANT C20_SameOutcome
INVARIANT C20_SameLiveness
INVARIANT C21_ReplyToYielder
