----------------------------- MODULE StreamDatum -----------------------------
(***************************************************************************)
(* C36 -- stream datums concatenate and consolidate consistently.          *)
(*                                                                         *)
(* Part "concat" (bluesky.callbacks.tiled_writer.concatenate_stream_datums)*)
(*   A stream datum is [desc, res, i0, i1, s0, s1]: descriptor, stream     *)
(*   resource, half-open index range i0..i1-1 and seq_num range s0..s1-1.  *)
(*   From the statement: a sequence of datums (ANY order) is accepted iff  *)
(*   it is a single datum, or all share descriptor and resource and their  *)
(*   index ranges TILE an interval (pairwise disjoint, union = the hull);  *)
(*   the result carries the hull of the indices and of the seq_nums.       *)
(*   Domain: non-empty ranges, seq_nums advancing in step with indices     *)
(*   (s = i + Off), as the RunEngine emits them.                           *)
(*                                                                         *)
(* Part "cons" (bluesky.consolidators.ConsolidatorBase and subclasses)     *)
(*   par = [join, jchunks, dshape, cshape, mult]: join method, join_chunks,*)
(*   the data key's shape in the descriptor, chunk_shape and multiplier of *)
(*   the stream resource (0 = absent).  A consolidator consumes datums     *)
(*   (Consume); its advertised shape / chunks / seq_num -> row map are     *)
(*   functions of par and of the datums consumed so far:                   *)
(*     stack   rows become a new leftmost dimension                        *)
(*     concat  rows extend the existing leftmost dimension                 *)
(*     chunks  chunk_shape[d] (last one smaller) along every dimension it  *)
(*             names, one chunk along the others; with concat and          *)
(*             join_chunks = FALSE the leftmost chunking is that of one    *)
(*             datum, repeated per row                                     *)
(*   The property: the chunks are a valid chunking of the shape (sizes add *)
(*   up to every dimension, none larger than chunk_shape asks), and every  *)
(*   consumed seq_num is mapped to its row index.                          *)
(***************************************************************************)
EXTENDS Naturals, Sequences, SequencesExt, FiniteSets, TLC, Json, IOUtils

CONSTANTS Part,        \* "concat" | "cons" | "none" (trace module)
          Off,         \* seq_num = index + Off
          CBounds,     \* concat: set of <<n, maxidx, withOdd>>: sequences of n datums with ranges inside 0..maxidx
          MaxChunk,    \* cons: chunk sizes 1..MaxChunk
          MaxCLen,     \* cons: chunk_shape has at most MaxCLen entries
          MaxConsume,  \* cons: at most MaxConsume datums consumed
          MaxDLen,     \* cons: each consumed datum covers 1..MaxDLen indices
          Mults        \* cons: multipliers (0 = no multiplier parameter)

VARIABLES part, par, docs,
          sel          \* concat: <<n, maxidx, withOdd, r1, r2>> chosen in Init (the inputs follow in one step, so that
                       \* TLC's workers share the enumeration); <<>> otherwise
vars == <<part, par, docs, sel>>

D(desc, res, i0, i1) == [desc |-> desc, res |-> res, i0 |-> i0, i1 |-> i1, s0 |-> i0 + Off, s1 |-> i1 + Off]
NoPar == [join |-> "none", jchunks |-> TRUE, dshape |-> <<>>, cshape |-> <<>>, mult |-> 0]

Min2(a, b) == IF a < b THEN a ELSE b
SumSeq(s, i) == FoldFunction(LAMBDA x, y : x + y, 0, [k \in i..Len(s) |-> s[k]])     \* s[i] + ... (no deep recursion)
RECURSIVE ProdSeq(_, _)
ProdSeq(s, i) == IF i > Len(s) THEN 1 ELSE s[i] * ProdSeq(s, i + 1)
Idx(d) == d.i0..(d.i1 - 1)
Seqs(d) == d.s0..(d.s1 - 1)

----------------------------------------------------------------------------
(* concat *)
MinOfSet(S) == CHOOSE x \in S : \A y \in S : x <= y
MaxOfSet(S) == CHOOSE x \in S : \A y \in S : x >= y

Lo(ds) == MinOfSet({ds[k].i0 : k \in 1..Len(ds)})
Hi(ds) == MaxOfSet({ds[k].i1 : k \in 1..Len(ds)})
\* the index ranges tile the interval Lo..Hi-1
Tiles(ds) ==
    /\ \A j, k \in 1..Len(ds) : j # k => Idx(ds[j]) \cap Idx(ds[k]) = {}
    /\ UNION {Idx(ds[k]) : k \in 1..Len(ds)} = Lo(ds)..(Hi(ds) - 1)
SameSource(ds) == \A j, k \in 1..Len(ds) : ds[j].desc = ds[k].desc /\ ds[j].res = ds[k].res

Accepts(ds) == Len(ds) = 1 \/ (SameSource(ds) /\ Tiles(ds))
\* the combined document: [desc, res, i0, i1, s0, s1]
Combined(ds) ==
    [desc |-> ds[1].desc, res |-> ds[1].res, i0 |-> Lo(ds), i1 |-> Hi(ds),
     s0 |-> MinOfSet({ds[k].s0 : k \in 1..Len(ds)}), s1 |-> MaxOfSet({ds[k].s1 : k \in 1..Len(ds)})]

----------------------------------------------------------------------------
(* consolidators *)
\* the shape of one datum: the descriptor's shape, with the multiplier as leading dimension
DatumShape(p) ==
    LET ds == p.dshape m == p.mult
    IN IF m = 0 THEN ds
       ELSE IF ds = <<>> THEN <<m>>
       ELSE IF ds[1] = m THEN ds
       ELSE IF ds[1] = 1 THEN <<m>> \o Tail(ds)
       ELSE <<m>> \o ds

Rows(ds) == SumSeq([k \in 1..Len(ds) |-> ds[k].i1 - ds[k].i0], 1)

Shape(p, rows) ==
    LET ds == DatumShape(p)
    IN IF p.join = "concat" /\ Len(ds) > 0 THEN <<rows * ds[1]>> \o Tail(ds) ELSE <<rows>> \o ds

\* A = b + b + ... + remainder; an empty dimension is advertised as the single chunk 0
Summands(A, b) ==
    IF A = 0 THEN <<0>>
    ELSE LET n == (A + b - 1) \div b IN [i \in 1..n |-> IF i * b <= A THEN b ELSE A - (i - 1) * b]
Repeat(s, n) == [i \in 1..(Len(s) * n) |-> s[((i - 1) % Len(s)) + 1]]

PerDatum(p) == p.join = "concat" /\ ~p.jchunks /\ Len(p.cshape) > 0
Chunks(p, rows) ==
    LET sh == Shape(p, rows)
        ds == DatumShape(p)
        one == IF Len(ds) > 0 THEN ds[1] ELSE 1            \* rows of a scalar datum are one element each
    IN [d \in 1..Len(sh) |->
          IF d > Len(p.cshape) THEN <<sh[d]>>
          ELSE IF d = 1 /\ PerDatum(p) THEN (IF rows = 0 THEN <<0>> ELSE Repeat(Summands(one, p.cshape[1]), rows))
          ELSE Summands(sh[d], p.cshape[d])]

\* seq_num -> row index, as a set of pairs
SeqMap(ds) == UNION {{<<ds[k].s0 + j, ds[k].i0 + j>> : j \in 0..(ds[k].i1 - ds[k].i0 - 1)} : k \in 1..Len(ds)}

\* the parameters make sense: chunk_shape names no more dimensions than the data has
ValidPar(p) == Len(p.cshape) <= Len(Shape(p, 0))

\* open finding: concat without join_chunks for a scalar datum indexes datum_shape[0] of an empty shape
KF_ScalarPerDatum(p) == PerDatum(p) /\ DatumShape(p) = <<>>

----------------------------------------------------------------------------
(* the property, as predicates over a shape / chunks / map (also evaluated on recorded values) *)
ChunksTile(sh, ch) ==
    /\ Len(ch) = Len(sh)
    /\ \A d \in 1..Len(sh) :
          /\ Len(ch[d]) >= 1
          /\ SumSeq(ch[d], 1) = sh[d]
          /\ (sh[d] > 0 => \A i \in 1..Len(ch[d]) : ch[d][i] >= 1)
ChunkSizeRespected(p, ch) ==
    \A d \in 1..Min2(Len(p.cshape), Len(ch)) : \A i \in 1..Len(ch[d]) : ch[d][i] <= p.cshape[d]
SeqMapTotal(ds, m) ==
    /\ {x[1] : x \in m} = UNION {Seqs(ds[k]) : k \in 1..Len(ds)}                  \* every consumed seq_num
    /\ \A x \in m : \E k \in 1..Len(ds) : x[1] \in Seqs(ds[k]) /\ x[2] = ds[k].i0 + (x[1] - ds[k].s0)
    /\ \A x, y \in m : x[1] = y[1] => x = y
JoinShape(p, sh, rows) ==       \* what stack / concat mean for the shape
    LET ds == DatumShape(p)
    IN /\ ProdSeq(sh, 1) = rows * ProdSeq(ds, 1)                     \* all the data, nothing else
       /\ (p.join = "stack" => Len(sh) = Len(ds) + 1 /\ sh[1] = rows)
       /\ (p.join = "concat" /\ Len(ds) > 0 => Len(sh) = Len(ds) /\ Tail(sh) = Tail(ds))

----------------------------------------------------------------------------
Ranges(mx) == {<<a, b>> \in (0..mx) \X (0..mx) : a < b}
RECURSIVE SeqsOf(_, _)
SeqsOf(S, n) == IF n = 0 THEN {<<>>} ELSE {<<h>> \o t : h \in S, t \in SeqsOf(S, n - 1)}

\* concat inputs for a bound b = <<n, maxidx, withOdd>>: n ranges inside 0..maxidx in any order, repeats allowed, the
\* first one being r; optionally one datum comes from another descriptor / stream resource
Plain(b, r) ==
    {[k \in 1..b[1] |-> D(1, 1, rs[k][1], rs[k][2])] : rs \in {<<r>> \o t : t \in SeqsOf(Ranges(b[2]), b[1] - 1)}}
Mark(ds, odd, kind) ==
    [k \in 1..Len(ds) |-> IF k # odd THEN ds[k] ELSE IF kind = "desc" THEN [ds[k] EXCEPT !.desc = 2] ELSE [ds[k] EXCEPT !.res = 2]]
ConcatInputs(b, r) ==
    Plain(b, r) \cup (IF b[3] THEN UNION {{Mark(ds, odd, kind) : ds \in Plain(b, r)} : odd \in 1..b[1], kind \in {"desc", "res"}}
                      ELSE {})

\* bounds for the concat part (cfg files cannot hold tuples: substituted with CBounds <- ...)
CB_small == {<<1, 6, TRUE>>, <<2, 6, TRUE>>, <<3, 4, TRUE>>, <<4, 4, FALSE>>}
CB_large == {<<1, 6, TRUE>>, <<2, 6, TRUE>>, <<3, 6, TRUE>>, <<4, 6, FALSE>>, <<4, 5, TRUE>>}
CB_none == {}

Shapes == {<<>>} \cup {<<a>> : a \in 1..3} \cup {<<a, b>> : a \in 1..3, b \in 1..2}
CShapes == UNION {SeqsOf(1..MaxChunk, n) : n \in 0..MaxCLen}
Pars == {p \in [join : {"stack", "concat"}, jchunks : BOOLEAN, dshape : Shapes, cshape : CShapes, mult : Mults] : ValidPar(p)}

InitConcat == /\ part = "concat" /\ par = NoPar /\ docs = <<>>
              /\ \E b \in CBounds : \E r \in Ranges(b[2]) : sel = <<b[1], b[2], b[3], r[1], r[2]>>
InitCons == /\ part = "cons" /\ par \in Pars /\ docs = <<>> /\ sel = <<>>
Init == IF Part = "concat" THEN InitConcat ELSE InitCons

\* (enumerated through quantifiers: no large set is built)
Mk(r, isOdd, kind) == LET d == D(1, 1, r[1], r[2])
                      IN IF ~isOdd THEN d ELSE IF kind = "desc" THEN [d EXCEPT !.desc = 2] ELSE [d EXCEPT !.res = 2]
PickInputs ==
    /\ part = "concat" /\ docs = <<>>
    /\ LET n == sel[1] R == Ranges(sel[2]) r == <<sel[4], sel[5]>>
       IN \E rs \in [2..n -> R] : \E odd \in (IF sel[3] THEN 0..n ELSE {0}) :
            \E kind \in (IF odd = 0 THEN {"desc"} ELSE {"desc", "res"}) :
                docs' = [k \in 1..n |-> Mk(IF k = 1 THEN r ELSE rs[k], k = odd, kind)]
    /\ UNCHANGED <<part, par, sel>>

\* the next datum of the stream: contiguous with what was consumed
Consume(n) ==
    /\ part = "cons" /\ Len(docs) < MaxConsume
    /\ docs' = Append(docs, D(1, 1, Rows(docs), Rows(docs) + n))
    /\ UNCHANGED <<part, par, sel>>
\* datums of one stream need not be consumed in index order: any two consumed datums may have arrived the other way
\* round (the map carries each datum's own indices, the shape only depends on the number of rows)
Reorder(k) ==
    /\ part = "cons" /\ k \in 1..(Len(docs) - 1)
    /\ docs' = [docs EXCEPT ![k] = docs[k + 1], ![k + 1] = docs[k]]
    /\ UNCHANGED <<part, par, sel>>
Next == PickInputs \/ (\E n \in 1..MaxDLen : Consume(n)) \/ (\E k \in 1..MaxConsume : Reorder(k))
Spec == Init /\ [][Next]_vars

----------------------------------------------------------------------------
(* invariants, part concat *)
P1 == Permutations(1..1)
P2 == Permutations(1..2)
P3 == Permutations(1..3)
P4 == Permutations(1..4)
Perms(n) == CASE n = 1 -> P1 [] n = 2 -> P2 [] n = 3 -> P3 [] n = 4 -> P4 [] OTHER -> Permutations(1..n)
\* accepted exactly when the datums are contiguous for one descriptor and resource
C36_AcceptsExactlyContiguous ==
    (part = "concat" /\ Len(docs) >= 1) =>
        (Accepts(docs) <=> (Len(docs) = 1 \/ (SameSource(docs)
                            /\ \E p \in Perms(Len(docs)) :
                                   \A k \in 1..(Len(docs) - 1) : docs[p[k]].i1 = docs[p[k + 1]].i0)))
\* the result covers exactly the indices and seq_nums of its parts
C36_ConcatCoversParts ==
    (part = "concat" /\ Len(docs) >= 1 /\ Accepts(docs)) =>
        /\ Idx(Combined(docs)) = UNION {Idx(docs[k]) : k \in 1..Len(docs)}
        /\ Seqs(Combined(docs)) = UNION {Seqs(docs[k]) : k \in 1..Len(docs)}
        /\ Cardinality(Idx(Combined(docs))) = Rows(docs)
\* order does not matter
C36_OrderIrrelevant ==
    (part = "concat" /\ Len(docs) >= 1) =>
        \A p \in Perms(Len(docs)) :
            LET q == [k \in 1..Len(docs) |-> docs[p[k]]]
            IN Accepts(q) = Accepts(docs) /\ (Accepts(docs) /\ Len(docs) > 1 => Combined(q) = Combined(docs))

(* invariants, part cons *)
C36_ChunksTile == part = "cons" => ChunksTile(Shape(par, Rows(docs)), Chunks(par, Rows(docs)))
C36_ChunkSizeRespected == part = "cons" => ChunkSizeRespected(par, Chunks(par, Rows(docs)))
C36_SeqMapTotal == part = "cons" => SeqMapTotal(docs, SeqMap(docs)) /\ Cardinality(SeqMap(docs)) = Rows(docs)
C36_JoinShape == part = "cons" => JoinShape(par, Shape(par, Rows(docs)), Rows(docs))
\* the finding's signature is reachable (violated on purpose in its own config)
KF_Unreachable == ~(part = "cons" /\ KF_ScalarPerDatum(par))

----------------------------------------------------------------------------
(* case dumps for replay (flat integer lists keep the files small) *)
Flat(d) == <<d.desc, d.res, d.i0, d.i1, d.s0, d.s1>>
ConcatCase(ds) == [docs |-> [k \in 1..Len(ds) |-> Flat(ds[k])], acc |-> Accepts(ds),
                   out |-> IF Accepts(ds) THEN Flat(Combined(ds)) ELSE <<>>]
DumpConcat ==
    TLCGet("stats").generated >= 0 /\
    \A b \in CBounds : \A r \in Ranges(b[2]) :       \* one file per first range: bounded memory
        ndJsonSerialize(IOEnv.CASES_OUT \o "." \o ToString(b[1]) \o "_" \o ToString(b[2]) \o "_" \o ToString(r[1]) \o "_" \o ToString(r[2]),
                        SetToSeq({ConcatCase(ds) : ds \in ConcatInputs(b, r)}))

RECURSIVE Streams(_, _)
Streams(n, start) ==       \* all sequences of at most n contiguous datums
    {<<>>} \cup (IF n = 0 THEN {} ELSE UNION {{<<D(1, 1, start, start + len)>> \o t : t \in Streams(n - 1, start + len)} : len \in 1..MaxDLen})
\* ... consumed in every order
Orders(ds) == {[k \in 1..Len(ds) |-> ds[q[k]]] : q \in Perms(Len(ds))}
AllStreams == UNION {Orders(ds) : ds \in Streams(MaxConsume, 0)}
ConsCase(p, ds) ==
    [par |-> p, docs |-> [k \in 1..Len(ds) |-> Flat(ds[k])], rows |-> Rows(ds), dshape |-> DatumShape(p),
     shape |-> Shape(p, Rows(ds)), chunks |-> Chunks(p, Rows(ds)), map |-> SetToSeq(SeqMap(ds)), kf |-> KF_ScalarPerDatum(p)]
DumpCons ==
    TLCGet("stats").generated >= 0 /\
    \A sh \in Shapes :
        ndJsonSerialize(IOEnv.CASES_OUT \o "." \o ToString(IF sh = <<>> THEN 0 ELSE IF Len(sh) = 1 THEN sh[1] ELSE 10 * sh[1] + sh[2]),
                        SetToSeq({ConsCase(p, ds) : p \in {q \in Pars : q.dshape = sh}, ds \in AllStreams}))
=============================================================================
