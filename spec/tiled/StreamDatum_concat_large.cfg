CONSTANTS
  Part = "concat"
  Off = 1
  CBounds <- CB_large
  MaxChunk = 1
  MaxCLen = 0
  MaxConsume = 0
  MaxDLen = 1
  Mults = {0}
SPECIFICATION Spec
INVARIANT C36_AcceptsExactlyContiguous
INVARIANT C36_ConcatCoversParts
INVARIANT C36_OrderIrrelevant
POSTCONDITION DumpConcat
