CONSTANTS
  ND = 3
  NS = 3
  MaxF = 0
  MaxEnv = 0
  MaxCol = 0
  MaxPause = 0
  MaxCkpt = 0
  MaxCfg = 0
  GreedySets = {}
  LazyModes = {}
  WrongGroup = FALSE
  Choice = "both"
  Mode = "conform"
SPECIFICATION TraceSpec
INVARIANT C45_IndexContiguous
INVARIANT C45_SeqContiguous
INVARIANT C45_Aligned
INVARIANT C45_SameMinimum
INVARIANT C45_NumEvents
INVARIANT C45_MustRaise
PROPERTY C45_LinedUp
POSTCONDITION TraceAccepted
