"""C34 -- JSON writers produce files that parse back to the documents.

spec/writers/DocWriters.tla models the file as what a JSON reader sees (absent / open array / closed array / JSON
lines / garbage, the records as identity tokens, newline-terminated or not) and JSONWriter / JSONLinesWriter as steps
on it.  TLC checks the statement's invariants for every run sequence of the bound (<= 5 documents per run, 2
consecutive runs through one writer object, every kind of pre-existing file).  Every maximal history is replayed on
the real writers with seeded random JSON-compatible documents: after EVERY callback call the real file is parsed
into the abstraction and compared; longer random document sequences are recorded the same way and validated by TLC
(DocWritersTrace, batch scheme).  Thin use of the technique: the fidelity of the json module itself is trusted.
"""
import copy
import json
import random
import re
import shutil

from harness.tlc import run_tlc, SPEC
from harness.tracecheck import validate_traces

SD = SPEC / "writers"
DESIGN_REF = "DESIGN.md section 7 (C34)"
# short TLC runs are dominated by JVM warm-up: C1-only JIT and two GC threads halve their cost (not used for the big thorough runs)
FAST = ["-XX:TieredStopAtLevel=1", "-XX:ParallelGCThreads=2"]
FAST_ENV = {"JDK_JAVA_OPTIONS": " ".join(FAST)}
KF_SIG = "jsonl-append-to-unterminated-file"
OTHER_NAMES = ["descriptor", "event", "event_page", "datum", "resource", "datum_page", "stream_resource", "stream_datum"]


def deep_eq(a, b):
    """equality of JSON values without python's 1 == 1.0 == True"""
    if type(a) is not type(b):
        return False
    if isinstance(a, dict):
        return list(a.keys()) == list(b.keys()) and all(deep_eq(a[k], b[k]) for k in a)
    if isinstance(a, list):
        return len(a) == len(b) and all(deep_eq(x, y) for x, y in zip(a, b))
    return a == b


def random_value(rng, depth):
    r = rng.random()
    if depth <= 0 or r < 0.55:
        k = rng.randrange(9)
        if k == 0:
            return rng.randint(-10**12, 10**12)
        if k == 1:
            return rng.choice([0.0, -1.5, 3.25e10, 1e-300, 2.0**-20, 0.1, 1e22, 123456789.123456789])
        if k == 2:
            return "".join(rng.choice(" ab\n\r\t\"\\/é漢\x00\x1f {}[],:'") for _ in range(rng.randint(0, 12)))
        if k == 3:
            return None
        if k == 4:
            return rng.random() < 0.5
        if k == 5:
            return "]\n[{\"name\": \"stop\"}],\n"
        if k == 6:
            return 2**70 + rng.randint(0, 9)
        if k == 7:
            return ""
        return rng.randint(0, 5)
    if r < 0.8:
        return {rng.choice(["k", "key\n", "", "é", "a b", "name", "doc"]) + str(i): random_value(rng, depth - 1) for i in range(rng.randint(0, 4))}
    return [random_value(rng, depth - 1) for _ in range(rng.randint(0, 4))]


def random_doc(rng, name, uid=None, tok=0):
    d = {"verif_tok": tok}              # makes every record distinct, so that its identity is decidable by equality
    if name == "start":
        d["uid"] = uid or "%08x-%04x-4%03x-a%03x-%012x" % tuple(rng.getrandbits(b) for b in (32, 16, 12, 12, 48))
        d["time"] = rng.random() * 1e9
    for i in range(rng.randint(0, 4)):
        d["f%d" % i] = random_value(rng, 3)
    return d


def parse_file(path, kind, refs):
    """the real file -> abstraction of DocWriters.tla"""
    def tok(obj):
        for t, ref in refs.items():
            if deep_eq(obj, ref):
                return t
        return 0

    if not path.exists():
        return {"shape": "absent", "recs": [], "term": True}
    text = path.read_text()
    if kind == "json":
        try:
            v = json.loads(text)
            if isinstance(v, list):
                return {"shape": "closed", "recs": [tok(x) for x in v], "term": True}
        except ValueError:
            pass
        if text.lstrip().startswith("["):
            body = text.rstrip()
            body = body[:-1] if body.endswith(",") else body
            try:
                v = json.loads(body + "]")
                if isinstance(v, list):
                    return {"shape": "open", "recs": [tok(x) for x in v], "term": True}
            except ValueError:
                pass
        return {"shape": "garbage", "recs": [], "term": True}
    term = text == "" or text.endswith("\n")
    lines = text.split("\n")
    if term:
        lines = lines[:-1]
    recs = []
    for ln in lines:
        try:
            recs.append(tok(json.loads(ln)))
        except ValueError:
            recs.append(0)
    return {"shape": "lines", "recs": recs, "term": term}


def write_pre(path, kind, pre, refs, rng):
    """create the pre-existing file described by the abstract `pre`; its records get tokens 101, 102, ..."""
    if pre["shape"] == "absent":
        return
    olds = []
    for t in pre["recs"]:
        refs[t] = {"name": rng.choice(["start", "event", "stop"]), "doc": random_doc(rng, "event", tok=t)}
        olds.append(refs[t])
    if kind == "json":
        if pre["shape"] == "closed":
            path.write_text(json.dumps(olds))
        elif pre["shape"] == "open":
            path.write_text("[\n" + "".join(json.dumps(o) + ",\n" for o in olds))
        else:
            path.write_text(rng.choice(["this is not json\n", "{\"a\": 1}", "", "]]"]))
    else:
        text = "\n".join(json.dumps(o) for o in olds)
        if olds and pre["term"]:
            text += "\n"
        path.write_text(text)


def execute(rng, workdir, kind, pre, names, fixed_name):
    """names: 'start' | 'other' | 'stop' per call.  Returns (pre as parsed, events [{name, tok, file}])."""
    from bluesky.callbacks.json_writer import JSONLinesWriter, JSONWriter
    shutil.rmtree(workdir, ignore_errors=True)
    workdir.mkdir(parents=True)
    refs = {}
    ext = ".json" if kind == "json" else ".jsonl"
    uid = "%08x-%04x-4%03x-a%03x-%012x" % tuple(rng.getrandbits(b) for b in (32, 16, 12, 12, 48))
    if fixed_name or names[0] != "start":
        fname = "data file" + ext
        w = (JSONWriter if kind == "json" else JSONLinesWriter)(str(workdir), fname)
    else:
        fname = uid.split("-")[0] + ext         # documented: named after the first start document
        w = (JSONWriter if kind == "json" else JSONLinesWriter)(str(workdir))
    write_pre(workdir / fname, kind, pre, refs, rng)
    pre_seen = parse_file(workdir / fname, kind, refs)
    evs = []
    first = True
    for t, nm in enumerate(names, 1):
        cname = nm if nm != "other" else rng.choice(OTHER_NAMES)
        doc = random_doc(rng, cname, uid if first and nm == "start" else None, tok=t)
        first = False
        refs[t] = {"name": cname, "doc": copy.deepcopy(doc)}
        before = json.dumps(doc, sort_keys=True)
        w(cname, doc)
        f = parse_file(w.dirname / w.filename, kind, refs)
        if json.dumps(doc, sort_keys=True) != before:
            f = {"shape": "garbage", "recs": [-1], "term": True}      # the writer altered the document it was given
        evs.append({"name": nm, "tok": t, "file": f})
    others = [p.name for p in workdir.iterdir() if p.name != w.filename]
    if others:
        evs.append({"name": "extra-files", "tok": 0, "file": {"shape": "garbage", "recs": [], "term": True}})
    shutil.rmtree(workdir, ignore_errors=True)
    return pre_seen, evs


def random_names(rng, kind):
    names = []
    if kind == "jsonl" and rng.random() < 0.3:
        names += ["other"] * rng.randint(1, 3)          # JSONLinesWriter: documents before any start
    nruns = rng.randint(1, 4)
    for i in range(nruns):
        # (sometimes a run's stop never reaches the writer -- never for the last run)
        names += ["start"] + ["other"] * rng.choice([0, 1, 2, 5, 12]) + (["stop"] if i == nruns - 1 or rng.random() < 0.8 else [])
    return names


def key_of(kind, pre, names):
    return (kind, pre["shape"], tuple(pre["recs"]), pre["term"], tuple(names))


def run(ctx):
    # 1. exhaustive model checking (writers as found with the finding exempted, and repaired) + replay generation
    res = run_tlc("DocWriters", "DocWriters_small.cfg" if ctx.quick else "DocWriters_large.cfg", spec_dir=SD, tag="C34", timeout=3000, java_opts=FAST if ctx.quick else None)
    ctx.add_tlc(res, "DocWriters exhaustive + replay generation")
    if not res.ok:
        st = res.trace[-1][1] if res.trace else {}
        ctx.violation(f"spec:{res.violated}:{st.get('w')}", f"DocWriters.tla {res.kind} {res.violated} violated: {st}", {"state": str(st)})
        return
    ctx.cov["exhaustive"] = True
    hs = {}
    for m in re.finditer(r'<<"HIST", "((?:[^"\\]|\\.)*)">>', res.stdout):
        h = json.loads(json.loads('"' + m.group(1) + '"'))
        hs.setdefault(key_of(h["w"], h["pre"], [e["name"] for e in h["ev"]]), {})[h["repaired"]] = h
    if not hs:
        ctx.machinery("no histories produced by DocWriters")
    if not any(h[False]["kf"] for h in hs.values()):
        ctx.machinery("KF_C34_1 is not reachable in the as-found model")
    ctx.rule = ("scenario = (writer, pre-existing file, sequence of document kinds start/other/stop over consecutive runs); every "
                "maximal history of the model is replayed on the real writer with seeded random JSON-compatible documents (file name "
                "given / derived from the start uid), the real file parsed after every call and compared with the model; non-trivial = "
                "pre-existing content or a second run; distinct by scenario and naming mode; plus longer random sequences validated "
                "by TLC (DocWritersTrace)")
    rng = random.Random(ctx.seed)
    work = ctx.out / "files"
    kf_seen = 0
    # 2. replay
    for key, h in hs.items():
        a = h[False]
        names = [e["name"] for e in a["ev"]]
        for fixed in (False, True):
            nontriv = a["pre"]["shape"] != "absent" or names.count("start") > 1
            ctx.case(key + (fixed,), nontriv)
            try:
                pre_seen, evs = execute(rng, work, a["w"], a["pre"], names, fixed)
            except Exception as ex:     # noqa
                ctx.violation(f"replay-exc:{type(ex).__name__}:{key}", f"scenario {key} raised {ex!r}", {"scenario": a})
                continue
            if pre_seen != a["pre"]:
                ctx.machinery(f"pre-existing file {a['pre']} was parsed as {pre_seen}")
            if evs == a["ev"]:
                if a["kf"]:
                    kf_seen += 1
                    ctx.violation(f"{KF_SIG}:replay:{key}",
                                  f"JSONLinesWriter appended to a pre-existing file without a final newline: the first new record is glued to the "
                                  f"last earlier line, neither parses: {evs[0]}", {"scenario": a, "observed": evs})
            elif evs == h[True]["ev"]:
                pass
            else:
                k = next((i for i, (x, y) in enumerate(zip(a["ev"], evs)) if x != y), min(len(evs), len(a["ev"])))
                e1 = a["ev"][k] if k < len(a["ev"]) else None
                g1 = evs[k] if k < len(evs) else None
                ctx.violation(f"replay:{a['w']}:{(e1 or g1)['name']}:pre={a['pre']['shape']}:{key}",
                              f"{a['w']} writer, pre-existing {a['pre']}, calls {names}: after call {k} expected file {e1} but the real file is {g1}",
                              {"scenario": a, "observed": evs, "fixed_filename": fixed})
        if a["pre"]["shape"] != "absent" and len(names) > 4:
            ctx.sample({"writer": a["w"], "pre": a["pre"], "calls": names, "file_after_each_call": [(e["file"]["shape"], e["file"]["recs"]) for e in a["ev"]]})
    # 3. longer random sequences, validated by TLC
    traces = []
    pres = {"json": [{"shape": "absent", "recs": [], "term": True}, {"shape": "closed", "recs": [101, 102, 103], "term": True},
                     {"shape": "garbage", "recs": [], "term": True}, {"shape": "open", "recs": [101, 102], "term": True}],
            "jsonl": [{"shape": "absent", "recs": [], "term": True}, {"shape": "lines", "recs": [], "term": True},
                      {"shape": "lines", "recs": [101, 102, 103], "term": True}, {"shape": "lines", "recs": [101, 102], "term": False}]}
    for _ in range(150 if ctx.quick else 2000):
        kind = rng.choice(["json", "jsonl"])
        pre = rng.choice(pres[kind])
        names = random_names(rng, kind)
        pre_seen, evs = execute(rng, work, kind, pre, names, rng.random() < 0.5)
        if pre_seen != pre:
            ctx.machinery(f"pre-existing file {pre} was parsed as {pre_seen}")
        traces.append({"w": kind, "pre": pre, "ev": evs})
        ctx.case(key_of(kind, pre, names), pre["shape"] != "absent" or names.count("start") > 1)
    v = validate_traces("DocWritersTrace", "DocWritersTrace.cfg", traces, SD, ctx.out, tag="C34t", timeout=3000, env=FAST_ENV)
    ctx.add_tlc(v.res, "DocWritersTrace")
    ctx.traces(len(traces) - len(v.rejected) - (1 if v.invariant else 0))
    for idx, upto in v.rejected.items():
        t = traces[idx]
        e = t["ev"][upto] if upto < len(t["ev"]) else None
        ctx.violation(f"trace-rejected:{t['w']}:{e['name'] if e else 'end'}:pre={t['pre']['shape']}:{e['file'] if e else ''}",
                      f"{t['w']} writer, pre-existing {t['pre']}: the file after call {upto} ({e}) is not what DocWriters.tla allows; calls "
                      f"{[x['name'] for x in t['ev']]}", {"trace": t, "accepted_prefix": upto})
    if v.invariant:
        t = traces[v.inv_trace_index] if v.inv_trace_index is not None else None
        ctx.violation(f"trace-invariant:{v.invariant}:{(t or {}).get('w')}", f"invariant {v.invariant} violated on an execution: {t}", {"trace": t})
    for tid in sorted({int(m.group(1)) for m in re.finditer(r'<<"KF1", (\d+)>>', v.res.stdout)}):
        kf_seen += 1
        t = traces[tid - 1]
        ctx.violation(f"{KF_SIG}:trace:{tid}", f"JSONLinesWriter appended to a pre-existing file without a final newline: {t['ev'][0]}", {"trace": t})
    ctx.note(f"finding KF-C34-1 shown by {kf_seen} executions")
    shutil.rmtree(work, ignore_errors=True)
    ctx.assumptions += [
        "fidelity of the json module (dump/loads round trip of JSON-compatible values) is trusted",
        "documents are JSON-compatible (str keys, finite floats, no NaN); a run's documents are start, others, stop",
        "'equal' records: same name and deep-equal document without python's 1 == 1.0 == True",
        "one process writes the file; the file system keeps what was written"]
