"""C23 -- paired-action wrappers always undo what they did.

spec/wrappers/Paired.tla specifies run_wrapper, stage_wrapper, lazily_stage_wrapper, subs_wrapper, suspend_wrapper,
monitor_during_wrapper and fly_during_wrapper by the statement / insertion rule they document, between a driver
(send / throw RequestStop, RequestAbort, error / close) and an environment plan, over a device forest with shared
roots.  Monitors over the message trace carry the property (one close_run with the right status per open_run; every
staged device unstaged once in reverse order; everything installed removed; nothing monitored / every flyer completed
and collected at each close_run; no undo after GeneratorExit); TLC checks them for all behaviours within the bound.
Every maximal TLC behaviour is replayed through the REAL wrapper and a literal Python reference with a scripted
(real) generator as wrapped plan; executions that differ from the behaviour they were derived from, random chains of
real wrappers under a random driver, and the same chains executed by a real RunEngine on protocol-only fake devices
(with device ledgers) are validated by TLC (PairedTrace).
"""
import gc
import sys

from harness import wrapproto as wp

DESIGN_REF = "DESIGN.md section 7 (C23), Appendix E; notes/C23.md"
LEVEL_TEXT = ("bounded-exhaustive TLC on the reference semantics of the seven paired-action wrappers (message-trace monitors as "
              "invariants) + conformance: every TLC behaviour replayed through the real wrappers, random wrapper chains under a "
              "scripted driver and on a real RunEngine (device ledgers) validated by TLC; two open findings on lazily_stage_wrapper")
TECHNIQUE = ("TLA+ reference semantics of the paired-action wrappers with message-trace monitors, exhaustive TLC; replay of "
             "every TLC behaviour through the real wrappers and a literal reference; batch trace validation of random chains "
             "under a scripted driver and under a real RunEngine with device ledgers")
C23_INVS = ["C23_RunClosedOnce", "C23_RunOutcome", "C23_UnstageReverse", "C23_StageOncePerTree", "C23_SubsRemoved",
            "C23_SuspendersRemoved", "C23_RemoveOnlyAtEnd", "C23_UndoneBeforeClose", "C23_NoCleanupOnClose"]
KINDS = set(wp.PAIRED_KINDS)
KF_SIG = {1: "C23:lazily_stage_wrapper:shared-root-staged-again:stage-reports-root-only",
          2: "C23:lazily_stage_wrapper:status-returning-stage:TypeError-nothing-unstaged"}
KF_WHAT = {1: "lazily_stage_wrapper stages (and later unstages) the root again for a message on a child device whose root it "
              "already staged (the 'already staged' test is made on the child, not on the root)",
           2: "lazily_stage_wrapper extends its list with the Status returned by a new-style stage(): TypeError is thrown into "
              "the plan and the staged root is never unstaged by the wrapper"}


def run(ctx):
    old_hook = sys.unraisablehook
    sys.unraisablehook = lambda *a: None
    try:
        wp.run_paired(ctx, "C23", "Paired_C23_small.cfg" if ctx.quick else "Paired_C23_large.cfg", KINDS, C23_INVS,
                      replay_plans(ctx.quick), wp.PAIRED_KINDS, KF_SIG, KF_WHAT)
    finally:
        gc.collect()                 # left-over generators are finalised while the hook is still silenced
        sys.unraisablehook = old_hook
    ctx.assumptions += [
        "CPython generator semantics; the driver answers every message (a real RunEngine is used for the ledger runs)",
        "an exception thrown at one of the wrapper's own undo messages (unstage / unsubscribe / close_run ...) aborts the rest "
        "of the undo, as in Python's finally; the pairing is demanded when the driver lets the undo messages through",
        "devices are protocol-only fakes (bluesky.protocols) with parent links; stage() answers [self], [self + descendants] "
        "(ophyd style) or a Status",
        "a device counts as staged by the wrapper when its stage message was answered normally",
    ]


def replay_plans(quick):
    base = {"PRaise": {"ErrI"}, "CatchThrow": True, "MisbehaveClose": False, "AsCoded": True, "PosKinds": {"locate"},
            "Positions": {0}, "Offsets": {1}, "Styles": {"self", "status", "tree"}}
    if quick:
        return [dict(base, Kinds=set(KINDS), MaxOps=4, PMsgs=2, Thrown={"Err", "Stop", "Abort"}, Forests="<- FShared", DevLists="<- ListsCurated")]
    return [dict(base, Kinds={"run", "subs", "suspend", "monitor_during", "fly_during"}, MaxOps=5, PMsgs=3,
                 Thrown={"Err", "Stop", "Abort"}, Forests="<- FShared", DevLists="<- Lists4x3", MisbehaveClose=True),
            dict(base, Kinds={"stage"}, MaxOps=5, PMsgs=2, Thrown={"Err", "Stop", "Abort"}, Forests="<- FBoth",
                 DevLists="<- Lists4x3"),
            dict(base, Kinds={"lazy_stage"}, MaxOps=5, PMsgs=2, Thrown={"Err", "Abort"}, Forests="<- FBoth",
                 DevLists="<- NoLists")]
