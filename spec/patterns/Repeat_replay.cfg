CONSTANTS
  MaxNum = 3
  DelayVals = {0, 1, 2}
  MaxLen = 3
  DurVals = {0, 1, 2}
  MaxStop = 4
SPECIFICATION Spec
INVARIANT TypeOK
INVARIANT C28_ExactlyNum
INVARIANT C28_CheckpointBeforeEachRepetition
INVARIANT C28_SleepOnlyPositiveRemainder
INVARIANT C28_RemainderIsSlept
INVARIANT C28_EnoughDelaysAccepted
INVARIANT C28_TooFewDelaysRaise
INVARIANT C28_Ends
CONSTRAINT DumpHist
